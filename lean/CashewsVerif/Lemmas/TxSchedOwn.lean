import CashewsVerif.Lemmas.TxSchedLocks
import CashewsVerif.Spec.TxBody
/- Own writes only: the step machine (parking, locking, sleeping) computes the sequential meaning of the body. -/
namespace CashewsVerif.TxSched

def Task.bst (t : Task) : BodySt := { ov := t.ov, del := t.del, results := t.results }

/-- continuation form of "the task has so far done what the spec does": whatever reads are still to come,
the spec run of the whole program on (reads so far ++ those) continues like the spec run of what is left -/
def Cont (p0 rem : List Cmd) (t : Task) : Prop :=
  ∀ fr, specBody p0 (t.reads ++ fr) {} = specBody rem fr t.bst

/-- what must hold when a task is done, by outcome -/
def Done (p0 : List Cmd) (reads : List (Option Int)) (mine : List Mut) : Outcome → Prop
  | .returned rs => ∃ s, specBody p0 reads {} = .normal s [] ∧ rs = s.results ∧ mine = commitMuts s
  | .raisedBody => specBody p0 reads {} = .raised ∧ mine = []
  | .raisedLocked => mine = []

/-- the invariant of a parked task inside its transaction; `mine` = the store mutations its steps made so far -/
def OWpark (p0 : List Cmd) (t : Task) (mine : List Mut) : Prop :=
  match t.pc with
  | .lockTry _ _ => mine = [] ∧ Cont p0 t.prog t
  | .lockSleep _ _ _ => mine = [] ∧ Cont p0 t.prog t
  | .bodySleep _ => mine = [] ∧ Cont p0 t.prog t
  | .seedGet k n => mine = [] ∧ Cont p0 (.incr k n :: t.prog) t ∧ t.ov.get k = none ∧ k ∉ t.del
  | .readGet k => mine = [] ∧ Cont p0 (.get k :: t.prog) t ∧ t.ov.get k = none ∧ k ∉ t.del
  | .expGet k => mine = [] ∧ Cont p0 (.expire k :: t.prog) t ∧ t.ov.get k = none ∧ k ∉ t.del
  | .existsGet k v e => mine = [] ∧ Cont p0 (.setx k v e :: t.prog) t ∧ t.ov.get k = none ∧ k ∉ t.del
  | .commitDel => mine = [] ∧ specBody p0 t.reads {} = .normal t.bst [] ∧ t.del ≠ []
  | .commitSet => mine = (if t.del ≠ [] then [Mut.delMany t.del] else []) ∧
      specBody p0 t.reads {} = .normal t.bst [] ∧ t.ov ≠ []
  | .unlocking _ o => Done p0 t.reads mine o
  | .finished o => Done p0 t.reads mine o
  | .start => False
  | .direct _ => False

theorem bst_setxApply (t : Task) (k : Nat) (v : Int) (e p : Bool) :
    (setxApply t k v e p).bst = setxSpec t.bst k v e p ∧ (setxApply t k v e p).reads = t.reads := by
  unfold setxApply setxSpec
  split <;> simp [Task.bst]

theorem spec_localCmd {t t' : Task} {c : Cmd} (hl : localCmd t c = some t') (rest : List Cmd) (fr : List (Option Int)) :
    specBody (c :: rest) fr t.bst = specBody rest fr t'.bst ∧ t'.reads = t.reads := by
  cases c <;> simp only [localCmd] at hl
  case set k v => split at hl <;> simp at hl; subst hl; simp [specBody, Task.bst]
  case incr k n =>
    split at hl
    · split at hl
      · rename_i v hv
        simp at hl; subst hl; simp [specBody, Task.bst, hv]
      · rename_i hv
        split at hl <;> simp at hl
        subst hl
        rename_i hd
        simp [specBody, Task.bst, hv, hd]
    · simp at hl
  case get k =>
    split at hl
    · split at hl
      · rename_i hd
        simp at hl; subst hl; simp [specBody, Task.bst, hd]
      · rename_i hd
        split at hl <;> simp at hl
        subst hl
        rename_i v hv
        simp [specBody, Task.bst, hd, hv]
    · simp at hl
  case delete k => split at hl <;> simp at hl; subst hl; simp [specBody, Task.bst]
  case expire k =>
    split at hl
    · split at hl
      · rename_i hd
        simp at hl; subst hl; simp [specBody, Task.bst, hd]
      · rename_i hd
        split at hl <;> simp at hl
        subst hl
        rename_i v hv
        simp [specBody, Task.bst, hd, hv]
    · simp at hl
  case setx k v e =>
    split at hl
    · split at hl
      · rename_i v0 hv
        simp at hl; subst hl
        have b := bst_setxApply t k v e true
        rw [b.1, b.2]
        have hv' : t.bst.ov.get k = some v0 := hv
        simp [specBody, hv']
      · rename_i hv
        split at hl <;> simp at hl
        subst hl
        rename_i hd
        have b := bst_setxApply t k v e false
        rw [b.1, b.2]
        have hv' : t.bst.ov.get k = none := hv
        have hd' : k ∈ t.bst.del := hd
        simp [specBody, hv', hd']
    · simp at hl
  case sleep d => simp at hl
  case raise => simp at hl
  case nestIn f => simp at hl; subst hl; simp [specBody, Task.bst]
  case nestOut => simp at hl; subst hl; simp [specBody, Task.bst]

theorem OWpark_abort_locked {p0 : List Cmd} {t : Task} : OWpark p0 (abort t .raisedLocked) [] := by
  unfold abort; split <;> simp [OWpark, Done]

theorem OWpark_abort_body {p0 : List Cmd} {t : Task} (h : specBody p0 t.reads {} = .raised) :
    OWpark p0 (abort t .raisedBody) [] := by
  unfold abort; split <;> simp [OWpark, Done, h]

theorem OWpark_afterCommit {p0 : List Cmd} {t : Task} {mine : List Mut}
    (h : specBody p0 t.reads {} = .normal t.bst []) (hm : mine = commitMuts t.bst) :
    OWpark p0 (afterCommit t) mine := by
  unfold afterCommit; split <;> simp only [OWpark, Done] <;> exact ⟨t.bst, h, rfl, hm⟩

theorem OWpark_lockOrFail {p0 : List Cmd} {t : Task} {k : Nat} {prog : List Cmd}
    (h : Cont p0 prog t) : OWpark p0 (lockOrFail t k prog) [] := by
  unfold lockOrFail
  split
  · exact OWpark_abort_locked
  · simp only [OWpark]; exact ⟨trivial, h⟩

theorem OWpark_settle {p0 : List Cmd} (now : Nat) (prog : List Cmd) (t : Task) (hc : t.ctx = true)
    (h : Cont p0 prog t) : OWpark p0 (settle now prog t) [] := by
  refine settle_ind (R := fun rem t => t.ctx = true ∧ Cont p0 rem t) (P := fun t' => OWpark p0 t' []) now
    ?_ ?_ ?_ prog t ⟨hc, h⟩
  · intro t c rest t' ⟨hc, h⟩ hl
    refine ⟨(localCmd_frame hl).2.2.2.2.1.trans hc, ?_⟩
    intro fr
    have := spec_localCmd hl rest fr
    rw [this.2, h fr, this.1]
  · intro t ⟨hc, h⟩
    have h0 : specBody p0 t.reads {} = .normal t.bst [] := by
      have := h []
      simpa [specBody] using this
    unfold endOfProg
    rw [if_pos hc]
    split
    · rename_i hd
      simp only [OWpark]; exact ⟨trivial, h0, hd⟩
    · rename_i hd
      split
      · rename_i ho
        simp only [OWpark]
        refine ⟨?_, h0, ho⟩
        simp at hd; simp [hd]
      · rename_i ho
        refine OWpark_afterCommit (t := { t with prog := [] }) h0 ?_
        simp at hd ho
        simp [commitMuts, Task.bst, hd, ho]
  · intro t c rest ⟨hc, h⟩ hl
    cases c <;> simp only [park] <;> (try rw [if_pos hc])
    case sleep d =>
      simp only [OWpark]
      exact ⟨trivial, fun fr => by rw [show ({ t with prog := rest, pc := PC.bodySleep (now + 5 * d) } : Task).reads = t.reads from rfl, h fr]; simp [specBody, Task.bst]⟩
    case raise =>
      refine OWpark_abort_body ?_
      have := h []
      simpa [specBody] using this
    case set k v => exact OWpark_lockOrFail h
    case delete k => exact OWpark_lockOrFail h
    case incr k n =>
      split
      · rename_i hh
        simp only [localCmd, hc, hh, Bool.and_self, if_true] at hl
        simp only [OWpark]
        refine ⟨trivial, h, ?_, ?_⟩
        · cases hg : t.ov.get k with
          | none => rfl
          | some v => simp [hg] at hl
        · intro hd
          cases hg : t.ov.get k with
          | none => simp [hg, hd] at hl
          | some v => simp [hg] at hl
      · exact OWpark_lockOrFail h
    case get k =>
      simp only [localCmd, hc, if_true] at hl
      simp only [OWpark]
      refine ⟨trivial, h, ?_, ?_⟩
      · by_cases hd : k ∈ t.del
        · simp [hd] at hl
        · cases hg : t.ov.get k with
          | none => rfl
          | some v => simp [hd, hg] at hl
      · intro hd; simp [hd] at hl
    case expire k =>
      split
      · rename_i hh
        simp only [localCmd, hc, hh, Bool.and_self, if_true] at hl
        simp only [OWpark]
        refine ⟨trivial, h, ?_, ?_⟩
        · by_cases hd : k ∈ t.del
          · simp [hd] at hl
          · cases hg : t.ov.get k with
            | none => rfl
            | some v => simp [hd, hg] at hl
        · intro hd; simp [hd] at hl
      · exact OWpark_lockOrFail h
    case setx k v e =>
      split
      · rename_i hh
        simp only [localCmd, hc, hh, Bool.and_self, if_true] at hl
        simp only [OWpark]
        refine ⟨trivial, h, ?_, ?_⟩
        · cases hg : t.ov.get k with
          | none => rfl
          | some v => simp [hg] at hl
        · intro hd
          cases hg : t.ov.get k with
          | none => simp [hg, hd] at hl
          | some v => simp [hg] at hl
      · exact OWpark_lockOrFail h
    case nestIn f => simp [localCmd] at hl
    case nestOut => simp [localCmd] at hl

theorem taskStep_isTx (tid now : Nat) (store : Store) (lock : Locks) (t : Task) :
    (taskStep tid now store lock t).task.isTx = t.isTx ∧
    (t.ctx = true → (taskStep tid now store lock t).task.ctx = true) := by
  cases hpc : t.pc
  case start =>
    cases htx : t.isTx
    · rw [taskStep_start_plain _ _ _ _ _ hpc htx]
      exact ⟨(Frame_settle _ _ _).isTx.trans htx, fun hc => (Frame_settle _ _ _).ctx.trans hc⟩
    · rw [taskStep_start_tx _ _ _ _ _ hpc htx]
      exact ⟨(Frame_settle _ _ _).isTx.trans htx, fun _ => (Frame_settle _ _ _).ctx⟩
  case lockTry k left =>
    cases hf : lockFree lock (lockKeyOf t.mode k) now
    · rw [taskStep_lockTry_busy _ _ _ _ _ hpc hf]; exact ⟨rfl, id⟩
    · rw [taskStep_lockTry_free _ _ _ _ _ hpc hf]
      exact ⟨(Frame_settle _ _ _).isTx, fun hc => (Frame_settle _ _ _).ctx.trans hc⟩
  case lockSleep k left w => rw [taskStep_lockSleep _ _ _ _ _ hpc]; exact ⟨rfl, id⟩
  case bodySleep w => rw [taskStep_bodySleep _ _ _ _ _ hpc]; exact ⟨rfl, id⟩
  case finished o => rw [taskStep_finished _ _ _ _ _ hpc]; exact ⟨rfl, id⟩
  case seedGet k n =>
    rw [taskStep_seedGet _ _ _ _ _ hpc]
    exact ⟨(Frame_settle _ _ _).isTx, fun hc => (Frame_settle _ _ _).ctx.trans hc⟩
  case readGet k =>
    rw [taskStep_readGet _ _ _ _ _ hpc]
    exact ⟨(Frame_settle _ _ _).isTx, fun hc => (Frame_settle _ _ _).ctx.trans hc⟩
  case expGet k =>
    rw [taskStep_expGet _ _ _ _ _ hpc]
    exact ⟨(Frame_settle_expBuffer _ _ _ _).isTx, fun hc => (Frame_settle_expBuffer _ _ _ _).ctx.trans hc⟩
  case existsGet k v e =>
    rw [taskStep_existsGet _ _ _ _ _ hpc]
    exact ⟨(Frame_settle_setx _ _ _ _ _ _ _).isTx, fun hc => (Frame_settle_setx _ _ _ _ _ _ _).ctx.trans hc⟩
  case direct c =>
    rw [taskStep_direct _ _ _ _ _ hpc]
    cases c <;> simp only [directStep]
    case setx k v e => exact ⟨(Frame_settle _ _ _).isTx, fun hc => (Frame_settle _ _ _).ctx.trans hc⟩
    case expire k => exact ⟨(Frame_settle _ _ _).isTx, fun hc => (Frame_settle _ _ _).ctx.trans hc⟩
    case set k v => exact ⟨(Frame_settle _ _ _).isTx, fun hc => (Frame_settle _ _ _).ctx.trans hc⟩
    case incr k n => exact ⟨(Frame_settle _ _ _).isTx, fun hc => (Frame_settle _ _ _).ctx.trans hc⟩
    case get k => exact ⟨(Frame_settle _ _ _).isTx, fun hc => (Frame_settle _ _ _).ctx.trans hc⟩
    case delete k => exact ⟨(Frame_settle _ _ _).isTx, fun hc => (Frame_settle _ _ _).ctx.trans hc⟩
    all_goals exact ⟨trivial, id⟩
  case commitDel =>
    rw [taskStep_commitDel _ _ _ _ _ hpc]
    dsimp only
    split
    · exact ⟨rfl, id⟩
    · exact ⟨(Frame_afterCommit _).isTx, fun hc => (Frame_afterCommit _).ctx.trans hc⟩
  case commitSet =>
    rw [taskStep_commitSet _ _ _ _ _ hpc]
    exact ⟨(Frame_afterCommit _).isTx, fun hc => (Frame_afterCommit _).ctx.trans hc⟩
  case unlocking ls o =>
    cases ls with
    | nil => rw [taskStep_unlocking_nil _ _ _ _ _ hpc]; exact ⟨rfl, id⟩
    | cons l rest => rw [taskStep_unlocking_cons _ _ _ _ _ hpc]; exact ⟨rfl, id⟩

theorem Done_congr {p0 : List Cmd} {reads : List (Option Int)} {mine : List Mut} {o : Outcome}
    (h : Done p0 reads mine o) : Done p0 reads (mine ++ []) o := by simpa using h

/-- one step of a task inside its transaction keeps the invariant; `mine` grows by the step's mutations -/
theorem OW_taskStep {p0 : List Cmd} {t : Task} {mine : List Mut} (hc : t.ctx = true) (h : OWpark p0 t mine)
    (tid now : Nat) (store : Store) (lock : Locks) :
    OWpark p0 (taskStep tid now store lock t).task (mine ++ (taskStep tid now store lock t).muts) := by
  cases hpc : t.pc <;> simp only [OWpark, hpc] at h
  case lockTry k left =>
    obtain ⟨hm, hcont⟩ := h
    subst hm
    cases hf : lockFree lock (lockKeyOf t.mode k) now
    · rw [taskStep_lockTry_busy _ _ _ _ _ hpc hf]
      simp only [OWpark, List.append_nil]; exact ⟨trivial, hcont⟩
    · rw [taskStep_lockTry_free _ _ _ _ _ hpc hf]
      exact OWpark_settle now _ _ hc hcont
  case lockSleep k left w =>
    rw [taskStep_lockSleep _ _ _ _ _ hpc]
    simp only [OWpark, hpc, List.append_nil]; exact h
  case bodySleep w =>
    rw [taskStep_bodySleep _ _ _ _ _ hpc]
    simp only [OWpark, hpc, List.append_nil]; exact h
  case finished o =>
    rw [taskStep_finished _ _ _ _ _ hpc]
    simp only [OWpark, hpc, List.append_nil]; exact h
  case seedGet k n =>
    obtain ⟨hm, hcont, hov, hdel⟩ := h
    subst hm
    rw [taskStep_seedGet _ _ _ _ _ hpc]
    refine OWpark_settle now _ _ hc ?_
    intro fr
    have := hcont (store k :: fr)
    simp only [specBody, Task.bst, hov, hdel, if_false] at this
    simp only [List.append_assoc, List.singleton_append]
    rw [this]; rfl
  case readGet k =>
    obtain ⟨hm, hcont, hov, hdel⟩ := h
    subst hm
    rw [taskStep_readGet _ _ _ _ _ hpc]
    refine OWpark_settle now _ _ hc ?_
    intro fr
    have := hcont (store k :: fr)
    simp only [specBody, Task.bst, hov, hdel, if_false] at this
    simp only [List.append_assoc, List.singleton_append]
    rw [this]; rfl
  case expGet k =>
    obtain ⟨hm, hcont, hov, hdel⟩ := h
    subst hm
    rw [taskStep_expGet _ _ _ _ _ hpc]
    have e := expBuffer_frame t k (store k)
    refine OWpark_settle now _ _ (e.2.2.2.2.1.trans hc) ?_
    rw [e.2.2.2.2.2.2.1]
    intro fr
    have := hcont (store k :: fr)
    rw [e.2.2.2.2.2.2.2.2.2]
    simp only [List.append_assoc, List.singleton_append]
    rw [this]
    cases hs : store k with
    | none => simp [specBody, Task.bst, hov, hdel, expBuffer]
    | some v => simp [specBody, Task.bst, hov, hdel, expBuffer]
  case existsGet k v e =>
    obtain ⟨hm, hcont, hov, hdel⟩ := h
    subst hm
    rw [taskStep_existsGet _ _ _ _ _ hpc]
    have g := setxApply_frame { t with reads := t.reads ++ [store k] } k v e (store k).isSome
    have b := bst_setxApply { t with reads := t.reads ++ [store k] } k v e (store k).isSome
    refine OWpark_settle now _ _ (g.2.2.2.2.1.trans hc) ?_
    rw [g.2.2.2.2.2.2.2.2.1]
    intro fr
    have := hcont (store k :: fr)
    rw [b.2, b.1]
    simp only [List.append_assoc, List.singleton_append]
    rw [this]
    have hov' : t.bst.ov.get k = none := hov
    have hdel' : k ∉ t.bst.del := hdel
    simp only [specBody, hov', hdel', if_false]
    rfl
  case commitDel =>
    obtain ⟨hm, hspec, hdel⟩ := h
    subst hm
    rw [taskStep_commitDel _ _ _ _ _ hpc]
    dsimp only
    split
    · rename_i hov
      simp only [OWpark, List.nil_append]
      exact ⟨by simp [hdel], hspec, hov⟩
    · rename_i hov
      refine OWpark_afterCommit hspec ?_
      simp at hov
      simp [commitMuts, Task.bst, hdel, hov]
  case commitSet =>
    obtain ⟨hm, hspec, hov⟩ := h
    rw [taskStep_commitSet _ _ _ _ _ hpc]
    refine OWpark_afterCommit hspec ?_
    rw [hm]
    by_cases hd : t.del = [] <;> simp [commitMuts, Task.bst, hov, hd]
  case unlocking ls o =>
    cases ls with
    | nil =>
      rw [taskStep_unlocking_nil _ _ _ _ _ hpc]
      simp only [OWpark, List.append_nil]; exact h
    | cons l rest =>
      rw [taskStep_unlocking_cons _ _ _ _ _ hpc]
      simp only [List.append_nil]
      by_cases hr : rest = []
      · simp only [OWpark, hr, if_true]; exact h
      · simp only [OWpark, hr, if_false]; exact h

/-- the first step of a transactional task -/
theorem OW_start {p0 : List Cmd} {t : Task} (hpc : t.pc = .start) (htx : t.isTx = true) (hprog : t.prog = p0)
    (hov : t.ov = []) (hdel : t.del = []) (hres : t.results = []) (hreads : t.reads = [])
    (tid now : Nat) (store : Store) (lock : Locks) :
    OWpark p0 (taskStep tid now store lock t).task [] ∧ (taskStep tid now store lock t).muts = [] ∧
    (taskStep tid now store lock t).task.ctx = true := by
  rw [taskStep_start_tx _ _ _ _ _ hpc htx]
  refine ⟨OWpark_settle now _ _ rfl ?_, rfl, (Frame_settle _ _ _).ctx⟩
  intro fr
  simp [Task.bst, hov, hdel, hres, hreads, hprog]

theorem OW_wake {p0 : List Cmd} {t : Task} {mine : List Mut} (hc : t.ctx = true) (h : OWpark p0 t mine) (now : Nat) :
    OWpark p0 (wake now t) mine := by
  unfold wake
  split
  · rename_i w hpc
    split
    · simp only [OWpark, hpc] at h
      rw [h.1]; exact OWpark_settle now _ _ hc h.2
    · exact h
  · rename_i k left w hpc
    split
    · simp only [OWpark, hpc] at h
      split
      · rw [h.1]; exact OWpark_abort_locked
      · simp only [OWpark]; exact h
    · exact h
  · exact h

/-- the store mutations made by the steps of task `i` so far, in order -/
def mineOf (w : World) (i : Nat) : List Mut := (w.log.filter (fun e => e.1 == i)).map (·.2)

theorem mineOf_runTask_self (w : World) (tid : Nat) :
    mineOf (w.runTask tid) tid = mineOf w tid ++ (taskStep tid w.now w.store w.lock (w.tasks tid)).muts := by
  simp [mineOf, List.filter_append, List.filter_map, Function.comp_def]

theorem mineOf_runTask_ne (w : World) (tid : Nat) {i : Nat} (h : i ≠ tid) :
    mineOf (w.runTask tid) i = mineOf w i := by
  have : ∀ l : List Mut, List.filter (fun e : Nat × Mut => e.1 == i) (l.map (fun m => (tid, m))) = [] := by
    intro l; simp [List.filter_map, Function.comp_def, Ne.symm h]
  simp [mineOf, List.filter_append, this]

/-- the invariant of a transactional task, before and after it entered its block -/
structure OWfull (p0 : List Cmd) (t : Task) (mine : List Mut) : Prop where
  pre : t.ctx = false → t.pc = .start ∧ t.prog = p0 ∧ t.ov = [] ∧ t.del = [] ∧ t.results = [] ∧ t.reads = [] ∧ mine = []
  post : t.ctx = true → OWpark p0 t mine

def World.OwnInv (p0 : Nat → List Cmd) (w : World) : Prop :=
  ∀ i, (w.tasks i).isTx = true → OWfull (p0 i) (w.tasks i) (mineOf w i)

theorem OwnInv_step (p0 : Nat → List Cmd) (w : World) (a : Act) (h : w.OwnInv p0) : (w.step a).OwnInv p0 := by
  intro i htx
  cases a with
  | adv d =>
    have f := wake_frame (w.now + d) (w.tasks i)
    have htx' : (w.tasks i).isTx = true := by rw [← f.1]; exact htx
    have hi := h i htx'
    show OWfull (p0 i) (wake (w.now + d) (w.tasks i)) (mineOf w i)
    constructor
    · intro hc
      have hc' : (w.tasks i).ctx = false := by rw [← f.2.2.2.2.1]; exact hc
      have hp := hi.pre hc'
      have : wake (w.now + d) (w.tasks i) = w.tasks i := by simp [wake, hp.1]
      rw [this]; exact hp
    · intro hc
      have hc' : (w.tasks i).ctx = true := by rw [← f.2.2.2.2.1]; exact hc
      exact OW_wake hc' (hi.post hc') _
  | run tid =>
    show OWfull (p0 i) ((w.runTask tid).tasks i) (mineOf (w.runTask tid) i)
    by_cases hit : i = tid
    · subst hit
      have hf := taskStep_isTx i w.now w.store w.lock (w.tasks i)
      simp only [World.step, runTask_tasks_self] at htx
      have htx' : (w.tasks i).isTx = true := by rw [← hf.1]; exact htx
      have hi := h i htx'
      rw [mineOf_runTask_self]
      simp only [runTask_tasks_self]
      cases hc : (w.tasks i).ctx
      · obtain ⟨hpc, hprog, hov, hdel, hres, hreads, hm⟩ := hi.pre hc
        have hs := OW_start hpc htx' hprog hov hdel hres hreads i w.now w.store w.lock
        rw [hm, hs.2.1]
        exact ⟨fun hc' => (by rw [hs.2.2] at hc'; cases hc'), fun _ => hs.1⟩
      · have := OW_taskStep hc (hi.post hc) i w.now w.store w.lock
        exact ⟨fun hc' => (by rw [hf.2 hc] at hc'; cases hc'), fun _ => this⟩
    · simp only [World.step, runTask_tasks_ne w tid hit] at htx ⊢
      rw [mineOf_runTask_ne w tid hit]
      exact h i htx

theorem OwnInv_init (store : Store) (ts : List Task) (hf : ∀ t ∈ ts, t.Fresh) :
    (World.init store ts).OwnInv (fun i => (ts.getD i Task.inert).prog) := by
  intro i htx
  have hcases : (∃ t ∈ ts, (World.init store ts).tasks i = t) ∨ (World.init store ts).tasks i = Task.inert := by
    by_cases hi : i < ts.length
    · left
      refine ⟨ts[i], List.getElem_mem hi, ?_⟩
      show ts.getD i Task.inert = _
      rw [List.getD_eq_getElem?_getD, List.getElem?_eq_getElem hi]; rfl
    · right
      show ts.getD i Task.inert = _
      rw [List.getD_eq_getElem?_getD, List.getElem?_eq_none (by omega)]; rfl
  have hp : (ts.getD i Task.inert).prog = ((World.init store ts).tasks i).prog := rfl
  rcases hcases with ⟨t, ht, e⟩ | e
  · have f := hf t ht
    simp only [hp]
    rw [e]
    exact ⟨fun _ => ⟨f.pc, rfl, f.ov, f.del, f.results, f.reads, rfl⟩, fun hc => by rw [f.ctx] at hc; cases hc⟩
  · rw [e] at htx; simp [Task.inert] at htx

theorem own_run (store : Store) (ts : List Task) (hf : ∀ t ∈ ts, t.Fresh) (sched : List Act) :
    ((World.init store ts).run sched).OwnInv (fun i => (ts.getD i Task.inert).prog) :=
  run_invariant (P := World.OwnInv _) (fun w a h => OwnInv_step _ w a h) sched _ (OwnInv_init store ts hf)

/-- every change of the store is in the log -/
theorem taskStep_store (tid now : Nat) (store : Store) (lock : Locks) (t : Task) :
    (taskStep tid now store lock t).store = (taskStep tid now store lock t).muts.foldl Mut.apply store := by
  cases hpc : t.pc
  case start => rw [taskStep_start _ _ _ _ _ hpc]; rfl
  case lockTry k left =>
    cases hf : lockFree lock (lockKeyOf t.mode k) now
    · rw [taskStep_lockTry_busy _ _ _ _ _ hpc hf]; rfl
    · rw [taskStep_lockTry_free _ _ _ _ _ hpc hf]; rfl
  case lockSleep k left w => rw [taskStep_lockSleep _ _ _ _ _ hpc]; rfl
  case bodySleep w => rw [taskStep_bodySleep _ _ _ _ _ hpc]; rfl
  case finished o => rw [taskStep_finished _ _ _ _ _ hpc]; rfl
  case seedGet k n => rw [taskStep_seedGet _ _ _ _ _ hpc]; rfl
  case readGet k => rw [taskStep_readGet _ _ _ _ _ hpc]; rfl
  case expGet k => rw [taskStep_expGet _ _ _ _ _ hpc]; rfl
  case existsGet k v e => rw [taskStep_existsGet _ _ _ _ _ hpc]; rfl
  case direct c =>
    rw [taskStep_direct _ _ _ _ _ hpc]
    cases c
    case setx k v e => simp only [directStep]; split <;> rfl
    all_goals rfl
  case commitDel => rw [taskStep_commitDel _ _ _ _ _ hpc]; rfl
  case commitSet => rw [taskStep_commitSet _ _ _ _ _ hpc]; rfl
  case unlocking ls o =>
    cases ls with
    | nil => rw [taskStep_unlocking_nil _ _ _ _ _ hpc]; rfl
    | cons l rest => rw [taskStep_unlocking_cons _ _ _ _ _ hpc]; rfl

theorem store_eq_log_run (store : Store) (ts : List Task) (sched : List Act) :
    ((World.init store ts).run sched).store =
      (((World.init store ts).run sched).log.map (·.2)).foldl Mut.apply store := by
  refine run_invariant (P := fun w => w.store = (w.log.map (·.2)).foldl Mut.apply store) ?_ sched _ rfl
  intro w a h
  cases a with
  | adv d => exact h
  | run tid =>
    show (w.runTask tid).store = ((w.runTask tid).log.map (·.2)).foldl Mut.apply store
    simp only [runTask_store, runTask_log, List.map_append, List.foldl_append, List.map_map]
    rw [taskStep_store, ← h]
    congr 1
    simp [Function.comp_def]

/-- the `isTx` flag of a task never changes -/
theorem isTx_run (store : Store) (ts : List Task) (sched : List Act) (i : Nat) :
    (((World.init store ts).run sched).tasks i).isTx = ((World.init store ts).tasks i).isTx := by
  refine run_invariant (P := fun w => (w.tasks i).isTx = ((World.init store ts).tasks i).isTx) ?_ sched _ rfl
  intro w a h
  cases a with
  | adv d => exact (wake_frame (w.now + d) (w.tasks i)).1.trans h
  | run tid =>
    show ((w.runTask tid).tasks i).isTx = _
    by_cases hi : i = tid
    · subst hi; rw [runTask_tasks_self, (taskStep_isTx _ _ _ _ _).1]; exact h
    · rw [runTask_tasks_ne w tid hi]; exact h


end CashewsVerif.TxSched
