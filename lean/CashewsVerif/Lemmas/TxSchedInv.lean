import CashewsVerif.Lemmas.TxSchedBasic
/- Structural invariant of a task (which program counters go with which context, what it may hold). -/
namespace CashewsVerif.TxSched

theorem insertLock_perm (l : LockKey) (ls : List LockKey) : (insertLock l ls).Perm (l :: ls) := by
  induction ls with
  | nil => simp [insertLock]
  | cons x r ih =>
    unfold insertLock
    split
    · exact List.Perm.refl _
    · exact (List.Perm.cons x ih).trans (List.Perm.swap l x r)

theorem mem_insertLock {l l' : LockKey} {ls : List LockKey} : l' ∈ insertLock l ls ↔ l' = l ∨ l' ∈ ls := by
  rw [(insertLock_perm l ls).mem_iff]; simp

theorem nodup_insertLock {l : LockKey} {ls : List LockKey} (h : l ∉ ls) (hn : ls.Nodup) : (insertLock l ls).Nodup := by
  rw [(insertLock_perm l ls).nodup_iff]; exact List.nodup_cons.mpr ⟨h, hn⟩

def PC.plainOk : PC → Prop
  | .start | .direct _ | .bodySleep _ | .finished _ => True
  | _ => False

def PC.txOk : PC → Prop
  | .start | .direct _ => False
  | _ => True

/-- what holds of a task while it runs local code (its `pc` is stale then) -/
structure Task.BodyTI (t : Task) : Prop where
  plain_ctx : t.isTx = false → t.ctx = false
  noctx : t.ctx = false → t.locks = [] ∧ t.ov = [] ∧ t.del = []
  ctx_tx : t.ctx = true → t.isTx = true
  nodup : t.locks.Nodup
  shape : ∀ l ∈ t.locks, ∃ k, l = lockKeyOf t.mode k
  fast : t.mode = .fast → t.locks = []

/-- what holds of a parked (or sleeping, or finished) task -/
structure Task.TI (t : Task) : Prop extends Task.BodyTI t where
  noctx_pc : t.ctx = false → t.pc.plainOk
  ctx_pc : t.ctx = true → t.pc.txOk
  waiting : ∀ k a, (t.pc = .lockTry k a ∨ ∃ w, t.pc = .lockSleep k a w) →
    t.mode ≠ .fast ∧ lockKeyOf t.mode k ∉ t.locks
  unl : ∀ ls o, t.pc = .unlocking ls o →
    t.locks = [] ∧ ls.Nodup ∧ (∀ l ∈ ls, ∃ k, l = lockKeyOf t.mode k) ∧ t.mode ≠ .fast
  fin : ∀ o, t.pc = .finished o → t.locks = []
  mid : ∀ ls, t.pc = .midUnlock ls →
    t.locks = [] ∧ t.ov = [] ∧ t.del = [] ∧ ls.Nodup ∧ (∀ l ∈ ls, ∃ k, l = lockKeyOf t.mode k) ∧ t.mode ≠ .fast

theorem holds_false_iff {t : Task} {k : Nat} : holds t k = false ↔ t.mode ≠ .fast ∧ lockKeyOf t.mode k ∉ t.locks := by
  unfold holds
  cases t.mode <;> simp

theorem BodyTI_abort {t : Task} (h : t.BodyTI) (o : Outcome) : (abort t o).TI := by
  unfold abort
  split
  · rename_i hl
    refine { plain_ctx := h.plain_ctx, noctx := ?_, ctx_tx := h.ctx_tx, nodup := h.nodup, shape := h.shape, fast := h.fast,
             noctx_pc := ?_, ctx_pc := ?_, waiting := ?_, unl := ?_, fin := ?_, mid := ?_ } <;> simp_all [PC.plainOk, PC.txOk]
  · rename_i hl
    have hm : t.mode ≠ .fast := fun hm => hl (h.fast hm)
    have hc : t.ctx = true := by
      cases hc : t.ctx
      · exact absurd (h.noctx hc).1 hl
      · rfl
    refine { plain_ctx := h.plain_ctx, noctx := ?_, ctx_tx := h.ctx_tx, nodup := ?_, shape := ?_, fast := ?_,
             noctx_pc := ?_, ctx_pc := ?_, waiting := ?_, unl := ?_, fin := ?_, mid := ?_ } <;> simp_all [PC.plainOk, PC.txOk]
    exact ⟨h.nodup, h.shape⟩

theorem BodyTI_afterCommit {t : Task} (h : t.BodyTI) (hc : t.ctx = true) : (afterCommit t).TI := by
  unfold afterCommit
  split
  · rename_i hl
    refine { plain_ctx := h.plain_ctx, noctx := ?_, ctx_tx := h.ctx_tx, nodup := h.nodup, shape := h.shape, fast := h.fast,
             noctx_pc := ?_, ctx_pc := ?_, waiting := ?_, unl := ?_, fin := ?_, mid := ?_ } <;> simp_all [PC.plainOk, PC.txOk]
  · rename_i hl
    have hm : t.mode ≠ .fast := fun hm => hl (h.fast hm)
    refine { plain_ctx := h.plain_ctx, noctx := ?_, ctx_tx := h.ctx_tx, nodup := ?_, shape := ?_, fast := ?_,
             noctx_pc := ?_, ctx_pc := ?_, waiting := ?_, unl := ?_, fin := ?_, mid := ?_ } <;> simp_all [PC.plainOk, PC.txOk]
    exact ⟨h.nodup, h.shape⟩

theorem BodyTI_endOfProg {t : Task} (h : t.BodyTI) : (endOfProg t).TI := by
  unfold endOfProg
  split
  · rename_i hc
    split
    · refine { plain_ctx := h.plain_ctx, noctx := ?_, ctx_tx := h.ctx_tx, nodup := h.nodup, shape := h.shape, fast := h.fast,
               noctx_pc := ?_, ctx_pc := ?_, waiting := ?_, unl := ?_, fin := ?_, mid := ?_ } <;> simp_all [PC.plainOk, PC.txOk]
    · split
      · refine { plain_ctx := h.plain_ctx, noctx := ?_, ctx_tx := h.ctx_tx, nodup := h.nodup, shape := h.shape, fast := h.fast,
                 noctx_pc := ?_, ctx_pc := ?_, waiting := ?_, unl := ?_, fin := ?_, mid := ?_ } <;> simp_all [PC.plainOk, PC.txOk]
      · exact BodyTI_afterCommit (t := { t with prog := [] }) ⟨h.plain_ctx, h.noctx, h.ctx_tx, h.nodup, h.shape, h.fast⟩ hc
  · rename_i hc
    have hc' : t.ctx = false := by simpa using hc
    refine { plain_ctx := h.plain_ctx, noctx := h.noctx, ctx_tx := h.ctx_tx, nodup := h.nodup, shape := h.shape, fast := h.fast,
             noctx_pc := ?_, ctx_pc := ?_, waiting := ?_, unl := ?_, fin := ?_, mid := ?_ } <;> simp_all [PC.plainOk, PC.txOk]
    exact (h.noctx hc').1

theorem BodyTI_setxApply {t : Task} (h : t.BodyTI) (hc : t.ctx = true) (k : Nat) (v : Int) (e p : Bool) :
    (setxApply t k v e p).BodyTI := by
  unfold setxApply
  split
  · exact ⟨h.plain_ctx, by simp [hc], h.ctx_tx, h.nodup, h.shape, h.fast⟩
  · exact ⟨h.plain_ctx, h.noctx, h.ctx_tx, h.nodup, h.shape, h.fast⟩

theorem BodyTI_localCmd {t t' : Task} {c : Cmd} (h : t.BodyTI) (hl : localCmd t c = some t') : t'.BodyTI := by
  cases c <;> simp only [localCmd] at hl
  case set k v =>
    split at hl <;> simp at hl
    subst hl
    rename_i hh
    have hc : t.ctx = true := by simp at hh; exact hh.1
    exact ⟨h.plain_ctx, by simp [hc], h.ctx_tx, h.nodup, h.shape, h.fast⟩
  case incr k n =>
    split at hl
    · rename_i hh
      have hc : t.ctx = true := by simp at hh; exact hh.1
      split at hl
      · simp at hl; subst hl
        exact ⟨h.plain_ctx, by simp [hc], h.ctx_tx, h.nodup, h.shape, h.fast⟩
      · split at hl <;> simp at hl
        subst hl
        exact ⟨h.plain_ctx, by simp [hc], h.ctx_tx, h.nodup, h.shape, h.fast⟩
    · simp at hl
  case get k =>
    split at hl
    · rename_i hc
      split at hl
      · simp at hl; subst hl
        exact ⟨h.plain_ctx, by simp [hc], h.ctx_tx, h.nodup, h.shape, h.fast⟩
      · split at hl <;> simp at hl
        subst hl
        exact ⟨h.plain_ctx, by simp [hc], h.ctx_tx, h.nodup, h.shape, h.fast⟩
    · simp at hl
  case delete k =>
    split at hl <;> simp at hl
    subst hl
    rename_i hh
    have hc : t.ctx = true := by simp at hh; exact hh.1
    exact ⟨h.plain_ctx, by simp [hc], h.ctx_tx, h.nodup, h.shape, h.fast⟩
  case expire k =>
    split at hl
    · split at hl
      · simp at hl; subst hl; exact h
      · split at hl <;> simp at hl
        subst hl; exact h
    · simp at hl
  case setx k v e =>
    split at hl
    · rename_i hh
      have hc : t.ctx = true := by simp at hh; exact hh.1
      split at hl
      · simp at hl; subst hl; exact BodyTI_setxApply h hc _ _ _ _
      · split at hl <;> simp at hl
        subst hl; exact BodyTI_setxApply h hc _ _ _ _
    · simp at hl
  case sleep d => simp at hl
  case raise => simp at hl
  case nestIn f =>
    simp at hl; subst hl
    exact ⟨h.plain_ctx, h.noctx, h.ctx_tx, h.nodup, h.shape, h.fast⟩
  case nestOut =>
    simp at hl; subst hl
    exact ⟨h.plain_ctx, h.noctx, h.ctx_tx, h.nodup, h.shape, h.fast⟩
  case commit =>
    split at hl
    · split at hl <;> simp at hl
      subst hl
      exact ⟨h.plain_ctx, h.noctx, h.ctx_tx, h.nodup, h.shape, h.fast⟩
    · simp at hl; subst hl; exact h
  case rollback =>
    split at hl
    · rename_i hc
      split at hl <;> simp at hl
      subst hl
      rename_i hlk
      exact ⟨h.plain_ctx, fun _ => ⟨hlk, rfl, rfl⟩, h.ctx_tx, h.nodup, h.shape, h.fast⟩
    · simp at hl; subst hl; exact h

theorem BodyTI_lockOrFail {t : Task} (h : t.BodyTI) (hc : t.ctx = true) {k : Nat} (hh : holds t k = false)
    (prog : List Cmd) : (lockOrFail t k prog).TI := by
  unfold lockOrFail
  split
  · exact BodyTI_abort h _
  · have := holds_false_iff.mp hh
    refine { plain_ctx := h.plain_ctx, noctx := h.noctx, ctx_tx := h.ctx_tx, nodup := h.nodup, shape := h.shape, fast := h.fast,
             noctx_pc := ?_, ctx_pc := ?_, waiting := ?_, unl := ?_, fin := ?_, mid := ?_ } <;> simp_all [PC.plainOk, PC.txOk]

/-- a parked state with a stale `pc` replaced -/
theorem BodyTI_setpc {t : Task} (h : t.BodyTI) (prog : List Cmd) (pc : PC)
    (h1 : t.ctx = false → pc.plainOk) (h2 : t.ctx = true → pc.txOk)
    (h3 : ∀ k a, ¬ (pc = .lockTry k a ∨ ∃ w, pc = .lockSleep k a w))
    (h4 : ∀ ls o, pc ≠ .unlocking ls o) (h5 : ∀ o, pc ≠ .finished o) (h6 : ∀ ls, pc ≠ .midUnlock ls := by simp) :
    ({ t with prog := prog, pc := pc } : Task).TI :=
  { plain_ctx := h.plain_ctx, noctx := h.noctx, ctx_tx := h.ctx_tx, nodup := h.nodup, shape := h.shape, fast := h.fast,
    noctx_pc := h1, ctx_pc := h2, waiting := fun k a hk => absurd hk (h3 k a),
    unl := fun ls o hk => absurd hk (h4 ls o), fin := fun o hk => absurd hk (h5 o),
    mid := fun ls hk => absurd hk (h6 ls) }

theorem BodyTI_park {t : Task} (h : t.BodyTI) (now : Nat) {c : Cmd} (rest : List Cmd) (hl : localCmd t c = none) :
    (park now t c rest).TI := by
  cases c <;> simp only [park]
  case sleep d => exact BodyTI_setpc h _ _ (by simp [PC.plainOk]) (by simp [PC.txOk]) (by simp) (by simp) (by simp)
  case raise b => exact BodyTI_abort h _
  case set k v =>
    split
    · rename_i hc
      refine BodyTI_lockOrFail h hc ?_ _
      simp only [localCmd, hc, Bool.true_and] at hl
      cases hh : holds t k <;> simp_all
    · rename_i hc
      exact BodyTI_setpc h _ _ (by simp [PC.plainOk]) (by simp [hc]) (by simp) (by simp) (by simp)
  case delete k =>
    split
    · rename_i hc
      refine BodyTI_lockOrFail h hc ?_ _
      simp only [localCmd, hc, Bool.true_and] at hl
      cases hh : holds t k <;> simp_all
    · rename_i hc
      exact BodyTI_setpc h _ _ (by simp [PC.plainOk]) (by simp [hc]) (by simp) (by simp) (by simp)
  case incr k n =>
    split
    · rename_i hc
      split
      · exact BodyTI_setpc h _ _ (by simp [hc]) (by simp [PC.txOk]) (by simp) (by simp) (by simp)
      · rename_i hh
        exact BodyTI_lockOrFail h hc (by simpa using hh) _
    · rename_i hc
      exact BodyTI_setpc h _ _ (by simp [PC.plainOk]) (by simp [hc]) (by simp) (by simp) (by simp)
  case get k =>
    split
    · rename_i hc
      exact BodyTI_setpc h _ _ (by simp [hc]) (by simp [PC.txOk]) (by simp) (by simp) (by simp)
    · rename_i hc
      exact BodyTI_setpc h _ _ (by simp [PC.plainOk]) (by simp [hc]) (by simp) (by simp) (by simp)
  case expire k =>
    split
    · rename_i hc
      split
      · exact BodyTI_setpc h _ _ (by simp [hc]) (by simp [PC.txOk]) (by simp) (by simp) (by simp)
      · rename_i hh
        exact BodyTI_lockOrFail h hc (by simpa using hh) _
    · rename_i hc
      exact BodyTI_setpc h _ _ (by simp [PC.plainOk]) (by simp [hc]) (by simp) (by simp) (by simp)
  case setx k v e =>
    split
    · rename_i hc
      split
      · exact BodyTI_setpc h _ _ (by simp [hc]) (by simp [PC.txOk]) (by simp) (by simp) (by simp)
      · rename_i hh
        exact BodyTI_lockOrFail h hc (by simpa using hh) _
    · rename_i hc
      exact BodyTI_setpc h _ _ (by simp [PC.plainOk]) (by simp [hc]) (by simp) (by simp) (by simp)
  case nestIn f => simp [localCmd] at hl
  case nestOut => simp [localCmd] at hl
  case commit =>
    have hc : t.ctx = true := by
      cases hc : t.ctx
      · simp [localCmd, hc] at hl
      · rfl
    split
    · exact BodyTI_setpc h _ _ (by simp [hc]) (by simp [PC.txOk]) (by simp) (by simp) (by simp)
    · split
      · exact BodyTI_setpc h _ _ (by simp [hc]) (by simp [PC.txOk]) (by simp) (by simp) (by simp)
      · rename_i hd ho
        have hd' : t.del = [] := by simpa using hd
        have ho' : t.ov = [] := by simpa using ho
        have hlk : t.locks ≠ [] := by
          intro e; simp [localCmd, hc, hd', ho', e] at hl
        have hm : t.mode ≠ .fast := fun hm => hlk (h.fast hm)
        refine { plain_ctx := h.plain_ctx, noctx := ?_, ctx_tx := h.ctx_tx, nodup := ?_, shape := ?_, fast := ?_,
                 noctx_pc := ?_, ctx_pc := ?_, waiting := ?_, unl := ?_, fin := ?_, mid := ?_ } <;>
          simp_all [PC.plainOk, PC.txOk]
        exact ⟨h.nodup, h.shape⟩
  case rollback =>
    have hc : t.ctx = true := by
      cases hc : t.ctx
      · simp [localCmd, hc] at hl
      · rfl
    have hlk : t.locks ≠ [] := by
      intro e; simp [localCmd, hc, e] at hl
    have hm : t.mode ≠ .fast := fun hm => hlk (h.fast hm)
    refine { plain_ctx := h.plain_ctx, noctx := ?_, ctx_tx := h.ctx_tx, nodup := ?_, shape := ?_, fast := ?_,
             noctx_pc := ?_, ctx_pc := ?_, waiting := ?_, unl := ?_, fin := ?_, mid := ?_ } <;>
      simp_all [PC.plainOk, PC.txOk]
    exact ⟨h.nodup, h.shape⟩

theorem BodyTI_expBuffer {t : Task} (h : t.BodyTI) (hc : t.ctx = true) (k : Nat) (cur : Option Int) :
    (expBuffer t k cur).BodyTI := by
  cases cur with
  | none => exact ⟨h.plain_ctx, h.noctx, h.ctx_tx, h.nodup, h.shape, h.fast⟩
  | some v => exact ⟨h.plain_ctx, by simp [expBuffer, hc], h.ctx_tx, h.nodup, h.shape, h.fast⟩

theorem BodyTI_settle {t : Task} (now : Nat) (prog : List Cmd) (h : t.BodyTI) : (settle now prog t).TI :=
  settle_ind (R := fun _ t => t.BodyTI) (P := Task.TI) now
    (fun _ _ _ _ h hl => BodyTI_localCmd h hl) (fun _ h => BodyTI_endOfProg h)
    (fun _ _ rest h hl => BodyTI_park h now rest hl) prog t h

theorem Task.TI.body {t : Task} (h : t.TI) : t.BodyTI := h.toBodyTI

theorem BodyTI_afterMid {t : Task} (h : t.BodyTI) (hc : t.ctx = true) (now : Nat) : (afterMid now t).TI := by
  unfold afterMid
  split
  · rename_i hl
    exact BodyTI_settle now _ ⟨h.plain_ctx, by simp [hc], h.ctx_tx, h.nodup, h.shape, h.fast⟩
  · rename_i hl
    have hm : t.mode ≠ .fast := fun hm => hl (h.fast hm)
    refine { plain_ctx := h.plain_ctx, noctx := ?_, ctx_tx := h.ctx_tx, nodup := ?_, shape := ?_, fast := ?_,
             noctx_pc := ?_, ctx_pc := ?_, waiting := ?_, unl := ?_, fin := ?_, mid := ?_ } <;>
      simp_all [PC.plainOk, PC.txOk]
    exact ⟨h.nodup, h.shape⟩

theorem TI_cancelTask {t : Task} (h : t.TI) : (cancelTask t).TI := by
  unfold cancelTask
  split <;> first | exact BodyTI_abort h.body _ | exact h

theorem TI_taskStep {t : Task} (h : t.TI) (tid now : Nat) (store : Store) (lock : Locks) :
    (taskStep tid now store lock t).task.TI := by
  unfold taskStep
  split
  case h_1 hpc =>   -- start
    have hcf : t.ctx = false := by
      cases hc : t.ctx
      · rfl
      · have := h.ctx_pc hc; simp [hpc, PC.txOk] at this
    have hb := h.noctx hcf
    refine BodyTI_settle now _ ?_
    split
    · rename_i hx
      exact ⟨by simp [hx], by simp, by simp [hx], h.nodup, h.shape, h.fast⟩
    · exact h.body
  case h_2 k left hpc =>   -- lockTry
    have hw := h.waiting k left (Or.inl hpc)
    have hc : t.ctx = true := by
      cases hc : t.ctx
      · have := h.noctx_pc hc; simp [hpc, PC.plainOk] at this
      · rfl
    dsimp only
    split
    · refine BodyTI_settle now _ ?_
      refine ⟨h.plain_ctx, by simp [hc], h.ctx_tx, nodup_insertLock hw.2 h.nodup, ?_, ?_⟩
      · intro l hl
        rcases mem_insertLock.mp hl with rfl | hl
        · exact ⟨k, rfl⟩
        · exact h.shape l hl
      · intro hm; exact absurd hm hw.1
    · refine { plain_ctx := h.plain_ctx, noctx := h.noctx, ctx_tx := h.ctx_tx, nodup := h.nodup, shape := h.shape, fast := h.fast,
               noctx_pc := ?_, ctx_pc := ?_, waiting := ?_, unl := ?_, fin := ?_, mid := ?_ } <;> simp_all [PC.plainOk, PC.txOk]
  case h_3 => exact h
  case h_4 => exact h
  case h_5 k n hpc =>
    have hc : t.ctx = true := by
      cases hc : t.ctx
      · have := h.noctx_pc hc; simp [hpc, PC.plainOk] at this
      · rfl
    exact BodyTI_settle now _ ⟨h.plain_ctx, by simp [hc], h.ctx_tx, h.nodup, h.shape, h.fast⟩
  case h_6 k hpc =>
    exact BodyTI_settle now _ ⟨h.plain_ctx, h.noctx, h.ctx_tx, h.nodup, h.shape, h.fast⟩
  case h_7 k hpc =>
    have hc : t.ctx = true := by
      cases hc : t.ctx
      · have := h.noctx_pc hc; simp [hpc, PC.plainOk] at this
      · rfl
    exact BodyTI_settle now _ (BodyTI_expBuffer h.body hc _ _)
  case h_8 k v e hpc =>
    have hc : t.ctx = true := by
      cases hc : t.ctx
      · have := h.noctx_pc hc; simp [hpc, PC.plainOk] at this
      · rfl
    refine BodyTI_settle now _ (BodyTI_setxApply (t := { t with reads := t.reads ++ [store k] }) ?_ hc _ _ _ _)
    exact ⟨h.plain_ctx, h.noctx, h.ctx_tx, h.nodup, h.shape, h.fast⟩
  case h_9 c hpc =>
    unfold directStep
    split
    · exact BodyTI_settle now _ h.body
    · exact BodyTI_settle now _ ⟨h.plain_ctx, h.noctx, h.ctx_tx, h.nodup, h.shape, h.fast⟩
    · exact BodyTI_settle now _ ⟨h.plain_ctx, h.noctx, h.ctx_tx, h.nodup, h.shape, h.fast⟩
    · exact BodyTI_settle now _ h.body
    · exact BodyTI_settle now _ ⟨h.plain_ctx, h.noctx, h.ctx_tx, h.nodup, h.shape, h.fast⟩
    · exact BodyTI_settle now _ h.body
    · exact h
  case h_10 hpc =>
    have hc : t.ctx = true := by
      cases hc : t.ctx
      · have := h.noctx_pc hc; simp [hpc, PC.plainOk] at this
      · rfl
    split
    · refine { plain_ctx := h.plain_ctx, noctx := h.noctx, ctx_tx := h.ctx_tx, nodup := h.nodup, shape := h.shape, fast := h.fast,
               noctx_pc := ?_, ctx_pc := ?_, waiting := ?_, unl := ?_, fin := ?_, mid := ?_ } <;> simp_all [PC.plainOk, PC.txOk]
    · exact BodyTI_afterCommit h.body hc
  case h_11 hpc =>
    have hc : t.ctx = true := by
      cases hc : t.ctx
      · have := h.noctx_pc hc; simp [hpc, PC.plainOk] at this
      · rfl
    exact BodyTI_afterCommit h.body hc
  case h_12 ls o hpc =>
    have hu := h.unl ls o hpc
    have hc : t.ctx = true := by
      cases hc : t.ctx
      · have := h.noctx_pc hc; simp [hpc, PC.plainOk] at this
      · rfl
    split
    · refine { plain_ctx := h.plain_ctx, noctx := h.noctx, ctx_tx := h.ctx_tx, nodup := h.nodup, shape := h.shape, fast := h.fast,
               noctx_pc := ?_, ctx_pc := ?_, waiting := ?_, unl := ?_, fin := ?_, mid := ?_ } <;> simp_all [PC.plainOk, PC.txOk]
    · rename_i l rest
      refine { plain_ctx := h.plain_ctx, noctx := h.noctx, ctx_tx := h.ctx_tx, nodup := h.nodup, shape := h.shape, fast := h.fast,
               noctx_pc := ?_, ctx_pc := ?_, waiting := ?_, unl := ?_, fin := ?_, mid := ?_ }
      · simp [hc]
      · intro _; split <;> simp [PC.txOk]
      · intro k a hk; split at hk <;> simp at hk
      · intro ls' o' hk
        split at hk
        · simp at hk
        · simp at hk
          obtain ⟨rfl, rfl⟩ := hk
          have hn := List.nodup_cons.mp hu.2.1
          exact ⟨hu.1, hn.2, fun l' hl' => hu.2.2.1 l' (List.mem_cons_of_mem _ hl'), hu.2.2.2⟩
      · intro o' _; exact hu.1
      · intro ls' hk; split at hk <;> simp at hk
  case h_13 => exact h
  case h_14 hpc =>   -- midDel
    have hc : t.ctx = true := by
      cases hc : t.ctx
      · have := h.noctx_pc hc; simp [hpc, PC.plainOk] at this
      · rfl
    split
    · refine { plain_ctx := h.plain_ctx, noctx := h.noctx, ctx_tx := h.ctx_tx, nodup := h.nodup, shape := h.shape, fast := h.fast,
               noctx_pc := ?_, ctx_pc := ?_, waiting := ?_, unl := ?_, fin := ?_, mid := ?_ } <;> simp_all [PC.plainOk, PC.txOk]
    · exact BodyTI_afterMid h.body hc now
  case h_15 hpc =>   -- midSet
    have hc : t.ctx = true := by
      cases hc : t.ctx
      · have := h.noctx_pc hc; simp [hpc, PC.plainOk] at this
      · rfl
    exact BodyTI_afterMid h.body hc now
  case h_16 ls hpc =>   -- midUnlock
    have hu := h.mid ls hpc
    have hc : t.ctx = true := by
      cases hc : t.ctx
      · have := h.noctx_pc hc; simp [hpc, PC.plainOk] at this
      · rfl
    split
    · exact BodyTI_settle now _ h.body
    · rename_i l rest
      split
      · exact BodyTI_settle now _ h.body
      · refine { plain_ctx := h.plain_ctx, noctx := h.noctx, ctx_tx := h.ctx_tx, nodup := h.nodup, shape := h.shape, fast := h.fast,
                 noctx_pc := ?_, ctx_pc := ?_, waiting := ?_, unl := ?_, fin := ?_, mid := ?_ }
        · simp [hc]
        · intro _; simp [PC.txOk]
        · intro k a hk; simp at hk
        · intro ls' o' hk; simp at hk
        · intro o' hk; simp at hk
        · intro ls' hk
          simp at hk
          subst hk
          have hn := List.nodup_cons.mp hu.2.2.2.1
          exact ⟨hu.1, hu.2.1, hu.2.2.1, hn.2, fun l' hl' => hu.2.2.2.2.1 l' (List.mem_cons_of_mem _ hl'), hu.2.2.2.2.2⟩

theorem TI_wake {t : Task} (h : t.TI) (now : Nat) : (wake now t).TI := by
  unfold wake
  split
  · split
    · exact BodyTI_settle now _ h.body
    · exact h
  · rename_i k left w hpc
    split
    · split
      · exact BodyTI_abort h.body _
      · rename_i n
        have hw := h.waiting k (n + 1) (Or.inr ⟨w, hpc⟩)
        have hc : t.ctx = true := by
          cases hc : t.ctx
          · have := h.noctx_pc hc; simp [hpc, PC.plainOk] at this
          · rfl
        refine { plain_ctx := h.plain_ctx, noctx := h.noctx, ctx_tx := h.ctx_tx, nodup := h.nodup, shape := h.shape, fast := h.fast,
                 noctx_pc := ?_, ctx_pc := ?_, waiting := ?_, unl := ?_, fin := ?_, mid := ?_ } <;> simp_all [PC.plainOk, PC.txOk]
    · exact h
  · exact h

/-- a task as the harness creates it -/
structure Task.Fresh (t : Task) : Prop where
  pc : t.pc = .start
  ctx : t.ctx = false
  ov : t.ov = []
  del : t.del = []
  locks : t.locks = []
  results : t.results = []
  reads : t.reads = []
  cmuts : t.cmuts = []
  pend : t.pend = []
  cinc : t.cinc = []

theorem Task.Fresh.TI {t : Task} (h : t.Fresh) : t.TI := by
  refine { plain_ctx := fun _ => h.ctx, noctx := fun _ => ⟨h.locks, h.ov, h.del⟩, ctx_tx := ?_, nodup := ?_, shape := ?_, fast := fun _ => h.locks,
           noctx_pc := ?_, ctx_pc := ?_, waiting := ?_, unl := ?_, fin := fun _ _ => h.locks, mid := ?_ } <;>
    simp [h.pc, h.ctx, h.locks, PC.plainOk]

theorem inert_TI : Task.inert.TI := by
  refine { plain_ctx := fun _ => rfl, noctx := fun _ => ⟨rfl, rfl, rfl⟩, ctx_tx := ?_, nodup := ?_, shape := ?_, fast := fun _ => rfl,
           noctx_pc := ?_, ctx_pc := ?_, waiting := ?_, unl := ?_, fin := fun _ _ => rfl, mid := ?_ } <;>
    simp [Task.inert, PC.plainOk]

def World.AllTI (w : World) : Prop := ∀ i, (w.tasks i).TI

theorem AllTI_step (w : World) (a : Act) (h : w.AllTI) : (w.step a).AllTI := by
  intro i
  cases a with
  | run tid =>
    by_cases hi : i = tid
    · subst hi; simp only [World.step, runTask_tasks_self]; exact TI_taskStep (h i) _ _ _ _
    · simp only [World.step, runTask_tasks_ne w tid hi]; exact h i
  | adv d => exact TI_wake (h i) _
  | cancel tid =>
    show (if i = tid then cancelTask (w.tasks i) else w.tasks i).TI
    split
    · exact TI_cancelTask (h i)
    · exact h i

theorem AllTI_init (store : Store) (ts : List Task) (h : ∀ t ∈ ts, t.Fresh) : (World.init store ts).AllTI := by
  intro i
  show (ts.getD i Task.inert).TI
  by_cases hi : i < ts.length
  · rw [List.getD_eq_getElem?_getD, List.getElem?_eq_getElem hi]; exact (h _ (List.getElem_mem hi)).TI
  · rw [List.getD_eq_getElem?_getD, List.getElem?_eq_none (by omega)]; exact inert_TI

theorem AllTI_run (store : Store) (ts : List Task) (h : ∀ t ∈ ts, t.Fresh) (sched : List Act) :
    ((World.init store ts).run sched).AllTI :=
  run_invariant (P := World.AllTI) AllTI_step sched _ (AllTI_init store ts h)

end CashewsVerif.TxSched
