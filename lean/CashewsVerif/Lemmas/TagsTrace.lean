import CashewsVerif.Lemmas.TagsPrecise
/-
Lemmas about the tag model, part 7: the ghost fields say what their names say.
`last k` is the tag list of the latest command that wrote `k` as read off the trace (`latestTags`);
`since k` only contains tags attached to `k` by commands after its last `delete`; commands that do
not write `k` can only remove its entry, never create or change it.
-/
namespace CashewsVerif.Tags
open St

/-! ### `last` -/

theorem touch_last (cfg : Cfg) (s : St) (k : Nat) : (s.touch cfg k).1.last = s.last :=
  touch_preserves (P := fun s' => s'.last = s.last) cfg s k rfl (rawDelete_last cfg s k)

theorem touch_now (cfg : Cfg) (s : St) (k : Nat) : (s.touch cfg k).1.now = s.now :=
  touch_preserves (P := fun s' => s'.now = s.now) cfg s k rfl (rawDelete_now cfg s k)

theorem touch_since (cfg : Cfg) (s : St) (k : Nat) : (s.touch cfg k).1.since = s.since :=
  touch_preserves (P := fun s' => s'.since = s.since) cfg s k rfl (rawDelete_since cfg s k)

theorem delMatch_last (cfg : Cfg) (ks : List Nat) (s : St) : (s.delMatch cfg ks).last = s.last := by
  unfold delMatch
  induction ks generalizing s with
  | nil => rfl
  | cons k r ih =>
    simp only [List.foldl_cons]
    rw [ih]
    split <;> simp

theorem deleteTags_last (cfg : Cfg) (tl : List Nat) (s : St) : (s.deleteTags cfg tl).last = s.last := by
  unfold deleteTags
  induction tl generalizing s with
  | nil => rfl
  | cons t r ih => simp only [List.foldl_cons]; rw [ih, deleteTag_last]

theorem purge_last (cfg : Cfg) (ks : List Nat) (s : St) : (ks.foldl (fun s k => (s.touch cfg k).1) s).last = s.last := by
  induction ks generalizing s with
  | nil => rfl
  | cons k r ih => simp only [List.foldl_cons]; rw [ih, touch_last]

theorem wcall_hit {cfg : Cfg} {s : St} {k : Nat} (v : Val) (ttl : Option Nat) (tags : List Nat) {c : Val}
    (h : (s.touch cfg k).2 = some c) : s.wcall cfg k v ttl tags = ((s.touch cfg k).1, .val (some c)) := by
  unfold wcall; simp only [h]

theorem wcall_miss {cfg : Cfg} {s : St} {k : Nat} (v : Val) (ttl : Option Nat) (tags : List Nat)
    (h : (s.touch cfg k).2 = none) :
    s.wcall cfg k v ttl tags = ((s.touch cfg k).1.writeTagged k v ttl tags, .vals [some v]) := by
  unfold wcall; simp only [h]

theorem last_writeTagged {s s0 : St} (h0 : s0.last = s.last) (k k' : Nat) (v : Val) (ttl : Option Nat) (tags : List Nat) :
    (s0.writeTagged k' v ttl tags).last k = if k' = k then tags else s.last k := by
  rw [writeTagged_last, h0]
  by_cases hk : k' = k
  · subst hk; simp [upd]
  · have : k ≠ k' := fun h => hk h.symm
    simp [upd, hk, this]

/-- **`last` is "the tags of the latest write"**: a command changes `last k` exactly when it writes `k`
(as its result shows), and then to the tags it attached -/
theorem step_last (cfg : Cfg) (s : St) (op : TOp) (k : Nat) :
    (step cfg s op).1.last k =
      if (op.writes k && op.wrote (step cfg s op).2) = true then op.tagsFor k else s.last k := by
  cases op with
  | set k' v ttl c tags =>
    cases c with
    | always =>
      simp only [step, wset, TOp.writes, TOp.tagsFor, TOp.wrote, last_writeTagged rfl]
      by_cases hk : k' = k <;> simp [hk]
    | nx =>
      cases hr : (s.touch cfg k').2.isSome with
      | true => simp [step, wset, hr, TOp.wrote, touch_last]
      | false =>
        simp [step, wset, hr, TOp.writes, TOp.tagsFor, TOp.wrote, last_writeTagged (touch_last cfg s k')]
        by_cases hk : k' = k <;> simp [hk]
    | xx =>
      cases hr : (s.touch cfg k').2.isSome with
      | false => simp [step, wset, hr, TOp.wrote, touch_last]
      | true =>
        simp [step, wset, hr, TOp.writes, TOp.tagsFor, TOp.wrote, last_writeTagged (touch_last cfg s k')]
        by_cases hk : k' = k <;> simp [hk]
  | incr k' by_ ttl tags =>
    cases hc : counterOf (s.touch cfg k').2 with
    | none => simp [step, wincr_err by_ ttl tags hc, TOp.wrote, touch_last]
    | some c =>
      simp only [step, wincr_ok by_ ttl tags hc, TOp.writes, TOp.tagsFor, TOp.wrote, last_writeTagged (touch_last cfg s k')]
      by_cases hk : k' = k <;> simp [hk]
  | call k' v ttl tags =>
    cases hr : (s.touch cfg k').2 with
    | some c => simp [step, wcall_hit v ttl tags hr, TOp.wrote, touch_last]
    | none =>
      simp only [step, wcall_miss v ttl tags hr, TOp.writes, TOp.tagsFor, TOp.wrote, last_writeTagged (touch_last cfg s k')]
      by_cases hk : k' = k <;> simp [hk]
  | get k' => simp [step, TOp.writes, touch_last]
  | exists_ k' => simp [step, TOp.writes, touch_last]
  | delete k' => simp [step, TOp.writes, noteDelete]
  | deleteMany ks => simp [step, TOp.writes, (foldl_delKey_frame cfg ks s).2]
  | deleteMatch ks => simp [step, TOp.writes, delMatch_last]
  | deleteTags tl => simp [step, TOp.writes, deleteTags_last]
  | adv dt => simp [step, TOp.writes]
  | purge => simp [step, TOp.writes, purge_last]

theorem exec_cons (cfg : Cfg) (s : St) (op : TOp) (ops : List TOp) :
    exec cfg s (op :: ops) = exec cfg (step cfg s op).1 ops := rfl

theorem exec_append (cfg : Cfg) (s : St) (a b : List TOp) : exec cfg s (a ++ b) = exec cfg (exec cfg s a) b := by
  simp [exec, List.foldl_append]

theorem trace_cons (cfg : Cfg) (s : St) (op : TOp) (ops : List TOp) :
    trace cfg s (op :: ops) = (op, (step cfg s op).2) :: trace cfg (step cfg s op).1 ops := by
  simp [trace, run]

theorem last_eq_foldl (cfg : Cfg) (k : Nat) (ops : List TOp) (s : St) :
    (exec cfg s ops).last k =
      (trace cfg s ops).foldl (fun acc p => if (p.1.writes k && p.1.wrote p.2) = true then p.1.tagsFor k else acc) (s.last k) := by
  induction ops generalizing s with
  | nil => simp [exec, trace, run]
  | cons op r ih =>
    rw [exec_cons, trace_cons, List.foldl_cons, ih, step_last]

/-- the ghost `last` after a history from the empty store is `latestTags` of its trace -/
theorem last_eq_latestTags (cfg : Cfg) (k : Nat) (ops : List TOp) :
    (exec cfg init ops).last k = latestTags k (trace cfg init ops) := by
  rw [last_eq_foldl]; rfl

/-! ### `since` -/

theorem deleteTag_since_subset (cfg : Cfg) (s : St) (t k x : Nat) (h : x ∈ (s.deleteTag cfg t).since k) : x ∈ s.since k := by
  have := loop_preserves (P := fun s' => x ∈ s'.since k → x ∈ s.since k) cfg
    (fun s' t c h => by simpa using h)
    (fun s' k' h hx => by
      rw [delKey_since] at hx
      split at hx
      · simp at hx
      · exact h hx) t ((lm s t).length + 1) s id
  exact this h

/-- a tag gets into `since k` only through a command that attaches it to `k` -/
theorem step_since (cfg : Cfg) (s : St) (op : TOp) (k x : Nat) (h : x ∈ (step cfg s op).1.since k) :
    x ∈ s.since k ∨ x ∈ op.tagsFor k := by
  have wt : ∀ (s0 : St) (k' : Nat) (v : Val) (ttl : Option Nat) (tags : List Nat), s0.since = s.since →
      x ∈ (s0.writeTagged k' v ttl tags).since k → x ∈ s.since k ∨ x ∈ (if k' = k then tags else []) := by
    intro s0 k' v ttl tags h0 hx
    rw [writeTagged_since, h0] at hx
    by_cases hk : k' = k
    · subst hk
      rw [upd_same] at hx
      rcases List.mem_append.mp hx with h' | h'
      · right; simpa using h'
      · left; exact h'
    · have : k ≠ k' := fun h => hk h.symm
      rw [upd_other _ _ this] at hx
      left; exact hx
  cases op with
  | set k' v ttl c tags =>
    simp only [step, wset, TOp.tagsFor] at h ⊢
    cases c with
    | always => exact wt s k' v ttl tags rfl h
    | nx =>
      simp only at h
      split at h
      · left; rw [touch_since] at h; exact h
      · exact wt _ k' v ttl tags (touch_since cfg s k') h
    | xx =>
      simp only at h
      split at h
      · exact wt _ k' v ttl tags (touch_since cfg s k') h
      · left; rw [touch_since] at h; exact h
  | incr k' by_ ttl tags =>
    simp only [step, TOp.tagsFor] at h ⊢
    cases hc : counterOf (s.touch cfg k').2 with
    | none => rw [wincr_err by_ ttl tags hc] at h; left; rw [touch_since] at h; exact h
    | some c => rw [wincr_ok by_ ttl tags hc] at h; exact wt _ k' _ _ tags (touch_since cfg s k') h
  | call k' v ttl tags =>
    simp only [step, wcall, TOp.tagsFor] at h ⊢
    split at h
    · left; rw [touch_since] at h; exact h
    · exact wt _ k' v ttl tags (touch_since cfg s k') h
  | get k' => left; simpa [step, touch_since] using h
  | exists_ k' => left; simpa [step, touch_since] using h
  | delete k' =>
    left
    have : x ∈ (s.delKey cfg k').since k := h
    rw [delKey_since] at this
    split at this
    · simp at this
    · exact this
  | deleteMany ks =>
    left
    have : x ∈ (ks.foldl (delKey cfg) s).since k := h
    rw [foldl_delKey_since] at this
    split at this
    · simp at this
    · exact this
  | deleteMatch ks =>
    left
    simp only [step, delMatch] at h
    clear wt
    induction ks generalizing s with
    | nil => exact h
    | cons k' r ih =>
      simp only [List.foldl_cons] at h
      have := ih _ h
      split at this
      · rw [delKey_since] at this
        split at this
        · simp at this
        · exact this
      · exact this
  | deleteTags tl =>
    left
    simp only [step, deleteTags] at h
    clear wt
    induction tl generalizing s with
    | nil => exact h
    | cons t r ih =>
      simp only [List.foldl_cons] at h
      exact deleteTag_since_subset cfg s t k x (ih _ h)
  | adv dt => left; exact h
  | purge =>
    left
    simp only [step] at h
    generalize cfg.keys = ks at h
    clear wt
    induction ks generalizing s with
    | nil => exact h
    | cons k' r ih =>
      simp only [List.foldl_cons] at h
      have := ih _ h
      rw [touch_since] at this
      exact this

theorem exec_since (cfg : Cfg) (ops : List TOp) (s : St) (k x : Nat) (h : x ∈ (exec cfg s ops).since k) :
    x ∈ s.since k ∨ ∃ op ∈ ops, x ∈ op.tagsFor k := by
  induction ops generalizing s with
  | nil => left; exact h
  | cons op r ih =>
    rw [exec_cons] at h
    rcases ih _ h with h' | ⟨o, ho, hx⟩
    · rcases step_since cfg s op k x h' with h'' | h''
      · left; exact h''
      · right; exact ⟨op, List.mem_cons_self .., h''⟩
    · right; exact ⟨o, List.mem_cons_of_mem _ ho, hx⟩

theorem since_after_delete (cfg : Cfg) (s : St) (k : Nat) : (step cfg s (.delete k)).1.since k = [] := by
  show (s.delKey cfg k).since k = []
  rw [delKey_since]; simp

/-! ### commands that do not write `k` can only remove it -/

/-- `s'` has the same entry for `k` as `s` or none, and time did not go back -/
def KS (k : Nat) (s s' : St) : Prop := (s'.kv k = s.kv k ∨ s'.kv k = none) ∧ s.now ≤ s'.now

theorem KS.refl (k : Nat) (s : St) : KS k s s := ⟨Or.inl rfl, Nat.le_refl _⟩

theorem KS.trans {k : Nat} {a b c : St} (h1 : KS k a b) (h2 : KS k b c) : KS k a c := by
  refine ⟨?_, Nat.le_trans h1.2 h2.2⟩
  rcases h2.1 with h | h
  · rw [h]; exact h1.1
  · right; exact h

theorem ks_rawDelete (cfg : Cfg) (s : St) (k k' : Nat) : KS k s (s.rawDelete cfg k').1 := by
  refine ⟨?_, by simp⟩
  rw [rawDelete_kv]; split <;> simp

theorem ks_touch (cfg : Cfg) (s : St) (k k' : Nat) : KS k s (s.touch cfg k').1 :=
  touch_preserves (P := fun s' => KS k s s') cfg s k' (KS.refl k s) (ks_rawDelete cfg s k k')

theorem ks_delKey (cfg : Cfg) (s : St) (k k' : Nat) : KS k s (s.delKey cfg k') := by
  refine ⟨?_, by simp⟩
  rw [delKey_kv]; split <;> simp

theorem ks_writeTagged (s : St) (k k' : Nat) (v : Val) (ttl : Option Nat) (tags : List Nat) (h : k ≠ k') :
    KS k s (s.writeTagged k' v ttl tags) := by
  refine ⟨Or.inl ?_, by rw [writeTagged_now]; exact Nat.le_refl _⟩
  rw [writeTagged_kv]; simp [rawSet, upd, h]

theorem ks_deleteTags (cfg : Cfg) (tl : List Nat) (s : St) (k : Nat) : KS k s (s.deleteTags cfg tl) := by
  unfold deleteTags
  induction tl generalizing s with
  | nil => exact KS.refl k s
  | cons t r ih =>
    simp only [List.foldl_cons]
    exact KS.trans ⟨deleteTag_kv_cases cfg s t k, by rw [deleteTag_now]; exact Nat.le_refl _⟩ (ih _)

theorem ks_step (cfg : Cfg) (s : St) (op : TOp) (k : Nat) (h : op.writes k = false) : KS k s (step cfg s op).1 := by
  cases op with
  | set k' v ttl c tags =>
    have hk : k ≠ k' := by intro e; subst e; simp [TOp.writes] at h
    simp only [step, wset]
    cases c with
    | always => exact ks_writeTagged s k k' v ttl tags hk
    | nx => simp only; split
            · exact ks_touch cfg s k k'
            · exact KS.trans (ks_touch cfg s k k') (ks_writeTagged _ k k' v ttl tags hk)
    | xx => simp only; split
            · exact KS.trans (ks_touch cfg s k k') (ks_writeTagged _ k k' v ttl tags hk)
            · exact ks_touch cfg s k k'
  | incr k' by_ ttl tags =>
    have hk : k ≠ k' := by intro e; subst e; simp [TOp.writes] at h
    simp only [step]
    cases hc : counterOf (s.touch cfg k').2 with
    | none => rw [wincr_err by_ ttl tags hc]; exact ks_touch cfg s k k'
    | some c => rw [wincr_ok by_ ttl tags hc]; exact KS.trans (ks_touch cfg s k k') (ks_writeTagged _ k k' _ _ tags hk)
  | call k' v ttl tags =>
    have hk : k ≠ k' := by intro e; subst e; simp [TOp.writes] at h
    simp only [step, wcall]
    split
    · exact ks_touch cfg s k k'
    · exact KS.trans (ks_touch cfg s k k') (ks_writeTagged _ k k' v ttl tags hk)
  | get k' => exact ks_touch cfg s k k'
  | exists_ k' => exact ks_touch cfg s k k'
  | delete k' => exact ks_delKey cfg s k k'
  | deleteMany ks =>
    simp only [step]
    clear h
    induction ks generalizing s with
    | nil => exact KS.refl k s
    | cons k' r ih => exact KS.trans (ks_delKey cfg s k k') (ih _)
  | deleteMatch ks =>
    simp only [step, delMatch]
    clear h
    induction ks generalizing s with
    | nil => exact KS.refl k s
    | cons k' r ih =>
      simp only [List.foldl_cons]
      refine KS.trans ?_ (ih _)
      split
      · exact ks_delKey cfg s k k'
      · exact KS.refl k s
  | deleteTags tl => exact ks_deleteTags cfg tl s k
  | adv dt => exact ⟨Or.inl rfl, Nat.le_add_right _ _⟩
  | purge =>
    simp only [step]
    generalize cfg.keys = ks
    clear h
    induction ks generalizing s with
    | nil => exact KS.refl k s
    | cons k' r ih => exact KS.trans (ks_touch cfg s k k') (ih _)

theorem ks_exec (cfg : Cfg) (ops : List TOp) (s : St) (k : Nat) (h : ∀ op ∈ ops, op.writes k = false) :
    KS k s (exec cfg s ops) := by
  induction ops generalizing s with
  | nil => exact KS.refl k s
  | cons op r ih =>
    rw [exec_cons]
    exact KS.trans (ks_step cfg s op k (h op (List.mem_cons_self ..))) (ih _ (fun o ho => h o (List.mem_cons_of_mem _ ho)))

theorem readable_none_ks {k : Nat} {s s' : St} (h : KS k s s') (hr : readable s k = none) : readable s' k = none :=
  readable_none_of h.1 h.2 hr

/-- what `get` / `exists` answer is `readable` -/
theorem get_out (cfg : Cfg) (s : St) (k : Nat) : (step cfg s (.get k)).2 = .val (readable s k) := by
  simp [step, touch_out]

theorem exists_out (cfg : Cfg) (s : St) (k : Nat) : (step cfg s (.exists_ k)).2 = .bool (readable s k).isSome := by
  simp [step, touch_out]

end CashewsVerif.Tags
