import CashewsVerif.Lemmas.KeyForms
/-
Order of keyword arguments (C08, part 1): a Python call passes its keyword arguments as a dict, and
dict equality ignores insertion order.  Permuting the keyword arguments of a call (distinct names)
does not change the key.  The bound `**kwargs` dict is permuted, the rendering sorts it.
-/
namespace CashewsVerif.KeyModel
open List

/-! ## item lists under permutation -/

theorem erase_eq_filter {α : Type} (l : List (Str × α)) (n : Str) :
    erase l n = l.filter (fun kv => decide (kv.1 ≠ n)) := by
  induction l with
  | nil => rfl
  | cons x r ih =>
    obtain ⟨k, v⟩ := x
    by_cases h : k = n <;> simp [erase, h, ih]

theorem erase_perm {α : Type} (l₁ l₂ : List (Str × α)) (n : Str) (h : l₁ ~ l₂) : erase l₁ n ~ erase l₂ n := by
  rw [erase_eq_filter, erase_eq_filter]; exact h.filter _

theorem keys_erase_nodup {α : Type} (l : List (Str × α)) (n : Str) (h : (keys l).Nodup) : (keys (erase l n)).Nodup := by
  rw [erase_eq_filter]
  exact h.sublist ((filter_sublist).map _)

theorem keys_perm {α : Type} (l₁ l₂ : List (Str × α)) (h : l₁ ~ l₂) : keys l₁ ~ keys l₂ := h.map _

theorem get?_perm {α : Type} (l₁ l₂ : List (Str × α)) (hp : l₁ ~ l₂) (hnd : (keys l₁).Nodup) (n : Str) :
    get? l₁ n = get? l₂ n := by
  induction hp with
  | nil => rfl
  | cons x _ ih =>
    obtain ⟨k, v⟩ := x
    simp only [keys, map_cons, nodup_cons] at hnd
    simp only [get?]
    split
    · rfl
    · exact ih hnd.2
  | swap x y l =>
    obtain ⟨k, v⟩ := x
    obtain ⟨k', v'⟩ := y
    simp only [keys, map_cons, nodup_cons, mem_cons, not_or] at hnd
    have hne : k' ≠ k := hnd.1.1
    simp only [get?]
    by_cases h1 : k = n <;> by_cases h2 : k' = n <;> simp [h1, h2]
    exact absurd (h2.trans h1.symm) hne
  | trans h₁ _ ih₁ ih₂ =>
    rw [ih₁ hnd, ih₂ ((keys_perm _ _ h₁).nodup_iff.mp hnd)]

/-! ## sorting the items of a dict does not depend on their order -/

theorem fmtItems_eq_map (l : List (Str × PyVal)) : fmtItems l = l.map (fun kv => (kv.1, fmtField kv.2)) := by
  induction l with
  | nil => rfl
  | cons x r ih => obtain ⟨k, v⟩ := x; simp [fmtItems, ih]

theorem insKey_perm (e : Str × Str) (l : List (Str × Str)) : insKey e l ~ e :: l := by
  induction l with
  | nil => exact Perm.refl _
  | cons x r ih =>
    simp only [insKey]
    split
    · exact Perm.refl _
    · exact (Perm.cons x ih).trans (Perm.swap e x r)

theorem sortKey_perm (l : List (Str × Str)) : sortKey l ~ l := by
  induction l with
  | nil => exact Perm.refl _
  | cons e r ih =>
    show insKey e (sortKey r) ~ e :: r
    exact (insKey_perm e _).trans (Perm.cons e ih)

theorem str_lt_of_not_lt_of_ne (a b : Str) (h : ¬ a < b) (hne : a ≠ b) : b < a := by
  have : b ≤ a := h
  rcases List.le_iff_lt_or_eq.mp this with h | h
  · exact h
  · exact absurd h.symm hne

/-! ### sets: sorting the element texts forgets the iteration order -/

theorem str_eq_of_not_lt (a b : Str) (h₁ : ¬ a < b) (h₂ : ¬ b < a) : a = b := by
  by_cases hne : a = b
  · exact hne
  · exact absurd (str_lt_of_not_lt_of_ne a b h₁ hne) h₂

theorem insStr_comm (a b : Str) (l : List Str) : insStr a (insStr b l) = insStr b (insStr a l) := by
  induction l with
  | nil =>
    simp only [insStr]
    by_cases hab : a < b
    · have hba : ¬ b < a := fun h => absurd (List.lt_trans hab h) (List.lt_irrefl _)
      simp [hab, hba, insStr]
    · by_cases hba : b < a
      · simp [hab, hba, insStr]
      · have : a = b := str_eq_of_not_lt a b hab hba
        subst this; rfl
  | cons x r ih =>
    simp only [insStr]
    by_cases hbx : b < x <;> by_cases hax : a < x
    · -- both go in front of x
      simp only [hbx, hax, if_true, insStr]
      by_cases hab : a < b
      · have hba : ¬ b < a := fun h => absurd (List.lt_trans hab h) (List.lt_irrefl _)
        simp [hab, hba, hbx, insStr]
      · by_cases hba : b < a
        · simp [hab, hba, hax, insStr]
        · have : a = b := str_eq_of_not_lt a b hab hba
          subst this; simp
    · -- b before x, a not
      have hab : ¬ a < b := fun h => hax (List.lt_trans h hbx)
      simp [hbx, hax, hab, insStr]
    · -- a before x, b not
      have hba : ¬ b < a := fun h => hbx (List.lt_trans h hax)
      simp [hbx, hax, hba, insStr]
    · simp [hbx, hax, insStr, ih]

theorem sortStr_perm_eq (l₁ l₂ : List Str) (hp : l₁ ~ l₂) : sortStr l₁ = sortStr l₂ := by
  unfold sortStr
  induction hp with
  | nil => rfl
  | cons x _ ih => simp [ih]
  | swap x y l => simp only [List.foldr_cons]; exact insStr_comm y x _
  | trans _ _ ih₁ ih₂ => exact ih₁.trans ih₂

theorem fmtList_eq_map (l : List PyVal) : fmtList l = l.map fmtField := by
  induction l with
  | nil => rfl
  | cons v r ih => simp [fmtList, ih]

theorem set_text_perm (l₁ l₂ : List PyVal) (hp : l₁ ~ l₂) :
    typeFmt (.set l₁) = typeFmt (.set l₂) ∧ fmtField (.set l₁) = fmtField (.set l₂) := by
  have h : sortStr (fmtList l₁) = sortStr (fmtList l₂) := by
    rw [fmtList_eq_map, fmtList_eq_map]
    exact sortStr_perm_eq _ _ (hp.map _)
  simp [typeFmt, fmtField, h]

theorem insKey_sorted (e : Str × Str) (l : List (Str × Str))
    (hs : l.Pairwise (fun a b => a.1 < b.1)) (hne : ∀ x ∈ l, x.1 ≠ e.1) :
    (insKey e l).Pairwise (fun a b => a.1 < b.1) := by
  induction l with
  | nil => simp [insKey]
  | cons x r ih =>
    simp only [pairwise_cons] at hs
    simp only [insKey]
    split
    · rename_i hlt
      refine pairwise_cons.mpr ⟨?_, pairwise_cons.mpr hs⟩
      intro y hy
      simp only [mem_cons] at hy
      rcases hy with rfl | hy
      · exact hlt
      · exact List.lt_trans hlt (hs.1 y hy)
    · rename_i hnlt
      refine pairwise_cons.mpr ⟨?_, ih hs.2 (fun y hy => hne y (by simp [hy]))⟩
      intro y hy
      have := (insKey_perm e r).mem_iff.mp hy
      simp only [mem_cons] at this
      rcases this with rfl | hy
      · exact str_lt_of_not_lt_of_ne _ _ hnlt (Ne.symm (hne x (by simp)))
      · exact hs.1 y hy

theorem sortKey_sorted (l : List (Str × Str)) (hnd : (l.map (·.1)).Nodup) :
    (sortKey l).Pairwise (fun a b => a.1 < b.1) := by
  induction l with
  | nil => simp [sortKey]
  | cons e r ih =>
    simp only [map_cons, nodup_cons, mem_map, not_exists, not_and] at hnd
    show (insKey e (sortKey r)).Pairwise _
    refine insKey_sorted e _ (ih hnd.2) ?_
    intro x hx
    exact hnd.1 x ((sortKey_perm r).mem_iff.mp hx)

theorem sortKey_perm_eq (l₁ l₂ : List (Str × Str)) (hp : l₁ ~ l₂) (hnd : (l₁.map (·.1)).Nodup) :
    sortKey l₁ = sortKey l₂ := by
  have hnd₂ : (l₂.map (·.1)).Nodup := (hp.map _).nodup_iff.mp hnd
  refine Perm.eq_of_pairwise (le := fun a b => a.1 < b.1) ?_ (sortKey_sorted l₁ hnd) (sortKey_sorted l₂ hnd₂)
    ((sortKey_perm l₁).trans (hp.trans (sortKey_perm l₂).symm))
  intro a b _ _ h1 h2
  exact absurd h2 (List.lt_asymm h1)

/-- a dict renders the same in every insertion order -/
theorem dict_text_perm (l₁ l₂ : Dict) (hp : l₁ ~ l₂) (hnd : (keys l₁).Nodup) :
    typeFmt (.dict l₁) = typeFmt (.dict l₂) ∧ fmtField (.dict l₁) = fmtField (.dict l₂) := by
  have : sortKey (fmtItems l₁) = sortKey (fmtItems l₂) := by
    rw [fmtItems_eq_map, fmtItems_eq_map]
    refine sortKey_perm_eq _ _ (hp.map _) ?_
    simpa [keys, Function.comp_def] using hnd
  simp [typeFmt, fmtField, this]

/-! ## binding under a permutation of the keyword arguments -/

theorem bindPos_congr (pt : Bool) (kw₁ kw₂ : Dict) (h : ∀ m, get? kw₁ m = get? kw₂ m)
    (ps : List Param) (as : List PyVal) : bindPos pt kw₁ ps as = bindPos pt kw₂ ps as := by
  induction ps generalizing as with
  | nil => cases as <;> rfl
  | cons p rest ih =>
    cases as with
    | nil => simp only [bindPos, h p.name]
    | cons a as' => simp only [bindPos, h p.name, ih as']

/-- results of the keyword loop up to the order of what is left over -/
inductive KwRel : Option (Bound × Dict × Option Str) → Option (Bound × Dict × Option Str) → Prop where
  | none : KwRel none none
  | some (b : Bound) (l₁ l₂ : Dict) (k : Option Str) : l₁ ~ l₂ → (keys l₁).Nodup → KwRel (some (b, l₁, k)) (some (b, l₂, k))

theorem bindKw_perm (pt : Bool) (ps : List Param) (kw₁ kw₂ : Dict) (kp : Option Str)
    (hp : kw₁ ~ kw₂) (hnd : (keys kw₁).Nodup) : KwRel (bindKw pt ps kw₁ kp) (bindKw pt ps kw₂ kp) := by
  induction ps generalizing kw₁ kw₂ kp with
  | nil => simp only [bindKw]; exact KwRel.some [] kw₁ kw₂ kp hp hnd
  | cons p rest ih =>
    unfold bindKw
    split
    · exact ih _ _ _ hp hnd
    · exact ih _ _ _ hp hnd
    · rw [← get?_perm kw₁ kw₂ hp hnd p.name]
      cases hg : get? kw₁ p.name with
      | some v =>
        simp only
        have := ih (erase kw₁ p.name) (erase kw₂ p.name) kp (erase_perm _ _ _ hp) (keys_erase_nodup _ _ hnd)
        generalize bindKw pt rest (erase kw₁ p.name) kp = r₁ at this
        generalize bindKw pt rest (erase kw₂ p.name) kp = r₂ at this
        cases this with
        | none => exact KwRel.none
        | some b l₁ l₂ k h1 h2 => exact KwRel.some _ l₁ l₂ k h1 h2
      | none =>
        simp only
        split
        · exact KwRel.none
        · exact ih _ _ _ hp hnd

/-- bound values up to the order of the `**kwargs` dict -/
inductive BValRel : BVal → BVal → Prop where
  | refl (v : BVal) : BValRel v v
  | kw (l₁ l₂ : Dict) : l₁ ~ l₂ → (keys l₁).Nodup → BValRel (.kw l₁) (.kw l₂)

def BoundRel : Bound → Bound → Prop
  | [], [] => True
  | (n₁, v₁) :: r₁, (n₂, v₂) :: r₂ => n₁ = n₂ ∧ BValRel v₁ v₂ ∧ BoundRel r₁ r₂
  | _, _ => False

theorem BoundRel.rfl' (b : Bound) : BoundRel b b := by
  induction b with
  | nil => trivial
  | cons x r ih => obtain ⟨n, v⟩ := x; exact ⟨rfl, BValRel.refl v, ih⟩

theorem BoundRel.append (a a' b b' : Bound) (h₁ : BoundRel a a') (h₂ : BoundRel b b') : BoundRel (a ++ b) (a' ++ b') := by
  induction a generalizing a' with
  | nil => cases a' with
    | nil => exact h₂
    | cons _ _ => exact absurd h₁ (by simp [BoundRel])
  | cons x r ih =>
    cases a' with
    | nil => obtain ⟨n, v⟩ := x; exact absurd h₁ (by simp [BoundRel])
    | cons y r' =>
      obtain ⟨n, v⟩ := x
      obtain ⟨n', v'⟩ := y
      exact ⟨h₁.1, h₁.2.1, ih r' h₁.2.2⟩

def OptBoundRel : Option Bound → Option Bound → Prop
  | none, none => True
  | some b₁, some b₂ => BoundRel b₁ b₂
  | _, _ => False

theorem bind_perm (pt : Bool) (sig : Sig) (as : List PyVal) (kw₁ kw₂ : Dict) (hp : kw₁ ~ kw₂) (hnd : (keys kw₁).Nodup) :
    OptBoundRel (bind pt sig ⟨as, kw₁⟩) (bind pt sig ⟨as, kw₂⟩) := by
  unfold bind
  simp only
  rw [← bindPos_congr pt kw₁ kw₂ (get?_perm kw₁ kw₂ hp hnd) sig as]
  cases bindPos pt kw₁ sig as with
  | none => trivial
  | some r1 =>
    obtain ⟨b1, rest⟩ := r1
    simp only
    have := bindKw_perm pt rest kw₁ kw₂ none hp hnd
    generalize bindKw pt rest kw₁ none = r₁ at this
    generalize bindKw pt rest kw₂ none = r₂ at this
    cases this with
    | none => trivial
    | some b l₁ l₂ k h1 h2 =>
      simp only
      have he : l₁.isEmpty = l₂.isEmpty := by
        cases l₁ <;> cases l₂ <;> simp_all
      rw [← he]
      split
      · exact BoundRel.rfl' _
      · cases k with
        | none => trivial
        | some n =>
          exact BoundRel.append _ _ _ _ (BoundRel.rfl' _) ⟨rfl, BValRel.kw l₁ l₂ h1 h2, trivial⟩

def OptBValRel : Option BVal → Option BVal → Prop
  | none, none => True
  | some v, some w => BValRel v w
  | _, _ => False

theorem get?_boundRel (b₁ b₂ : Bound) (h : BoundRel b₁ b₂) (n : Str) : OptBValRel (get? b₁ n) (get? b₂ n) := by
  induction b₁ generalizing b₂ with
  | nil => cases b₂ with
    | nil => trivial
    | cons _ _ => exact absurd h (by simp [BoundRel])
  | cons x r ih =>
    cases b₂ with
    | nil => obtain ⟨m, v⟩ := x; exact absurd h (by simp [BoundRel])
    | cons y r' =>
      obtain ⟨m, v⟩ := x
      obtain ⟨m', v'⟩ := y
      obtain ⟨rfl, hv, hr⟩ := h
      simp only [get?]
      split
      · exact hv
      · exact ih r' hr

theorem applyDefaults_rel (sig : Sig) (b₁ b₂ : Bound) (h : BoundRel b₁ b₂) :
    BoundRel (applyDefaults sig b₁) (applyDefaults sig b₂) := by
  induction sig with
  | nil => trivial
  | cons p rest ih =>
    have := get?_boundRel b₁ b₂ h p.name
    unfold applyDefaults
    cases h1 : get? b₁ p.name <;> cases h2 : get? b₂ p.name <;> simp only [h1, h2, OptBValRel] at this ⊢
    · cases p.dflt with
      | some d => exact ⟨rfl, BValRel.refl _, ih⟩
      | none => cases p.kind <;> first | exact ih | exact ⟨rfl, BValRel.refl _, ih⟩
    · exact ⟨rfl, this, ih⟩

/-! ## value dicts up to rendering -/

def TextEq (v w : PyVal) : Prop := typeFmt v = typeFmt w ∧ fmtField v = fmtField w

def OptTextEq : Option PyVal → Option PyVal → Prop
  | none, none => True
  | some v, some w => TextEq v w
  | _, _ => False

/-- two value dicts that the formatter cannot tell apart -/
def ValEquiv (V₁ V₂ : Dict) : Prop := ∀ n, OptTextEq (get? V₁ n) (get? V₂ n)

theorem OptTextEq.rfl' (o : Option PyVal) : OptTextEq o o := by
  cases o <;> simp [OptTextEq, TextEq]

theorem ValEquiv.rfl' (V : Dict) : ValEquiv V V := fun _ => OptTextEq.rfl' _

theorem ValEquiv.append (A B C D : Dict) (h₁ : ValEquiv A B) (h₂ : ValEquiv C D) : ValEquiv (A ++ C) (B ++ D) := by
  intro n
  rw [get?_append, get?_append]
  have := h₁ n
  cases ha : get? A n <;> cases hb : get? B n <;> simp only [ha, hb, OptTextEq] at this
  · simpa using h₂ n
  · simpa [OptTextEq] using this

theorem ValEquiv.cons (k : Str) (v w : PyVal) (A B : Dict) (hv : TextEq v w) (h : ValEquiv A B) :
    ValEquiv ((k, v) :: A) ((k, w) :: B) := by
  intro n
  simp only [get?]
  split
  · exact hv
  · exact h n

theorem ValEquiv.of_perm (l₁ l₂ : Dict) (hp : l₁ ~ l₂) (hnd : (keys l₁).Nodup) : ValEquiv l₁ l₂ := by
  intro n
  rw [get?_perm l₁ l₂ hp hnd n]
  exact OptTextEq.rfl' _

theorem valuesOf_equiv (b₁ b₂ : Bound) (h : BoundRel b₁ b₂) : ValEquiv (valuesOf b₁) (valuesOf b₂) := by
  induction b₁ generalizing b₂ with
  | nil => cases b₂ with
    | nil => exact ValEquiv.rfl' _
    | cons _ _ => exact absurd h (by simp [BoundRel])
  | cons x r ih =>
    cases b₂ with
    | nil => obtain ⟨m, v⟩ := x; exact absurd h (by simp [BoundRel])
    | cons y r' =>
      obtain ⟨m, v⟩ := x
      obtain ⟨m', v'⟩ := y
      obtain ⟨rfl, hv, hr⟩ := h
      have ihr := ih r' hr
      cases hv with
      | refl v =>
        cases v with
        | one v => exact ValEquiv.cons _ _ _ _ _ ⟨rfl, rfl⟩ ihr
        | star vs => exact ValEquiv.cons _ _ _ _ _ ⟨rfl, rfl⟩ ihr
        | kw kvs => exact ValEquiv.cons _ _ _ _ _ ⟨rfl, rfl⟩ (ValEquiv.append _ _ _ _ (ValEquiv.rfl' _) ihr)
      | kw l₁ l₂ h1 h2 =>
        exact ValEquiv.cons _ _ _ _ _ (dict_text_perm l₁ l₂ h1 h2)
          (ValEquiv.append _ _ _ _ (ValEquiv.of_perm l₁ l₂ h1 h2) ihr)

theorem withCtx_equiv (ctx : Ctx) (V₁ V₂ : Dict) (h : ValEquiv V₁ V₂) : ValEquiv (withCtx ctx V₁) (withCtx ctx V₂) := by
  unfold withCtx
  split
  · exact ValEquiv.append _ _ _ _ (ValEquiv.rfl' _) (ValEquiv.append _ _ _ _ h (ValEquiv.rfl' _))
  · exact ValEquiv.append _ _ _ _ (ValEquiv.append _ _ _ _ h (ValEquiv.rfl' _)) (ValEquiv.rfl' _)

theorem render_congr (t : Tmpl) (V₁ V₂ : Dict) (h : ValEquiv V₁ V₂) : render t V₁ = render t V₂ := by
  have hs : ∀ n, (get? V₁ n).isSome = (get? V₂ n).isSome := by
    intro n
    have := h n
    cases h1 : get? V₁ n <;> cases h2 : get? V₂ n <;> simp_all [OptTextEq]
  have hf : fastPath t V₁ = fastPath t V₂ := by
    simp only [fastPath, hs]
  have ht : ∀ fast n, fieldText fast V₁ n = fieldText fast V₂ n := by
    intro fast n
    have := h n
    unfold fieldText
    cases h1 : get? V₁ n <;> cases h2 : get? V₂ n <;> simp only [h1, h2, OptTextEq] at this ⊢
    cases fast
    · simpa using this.2
    · simpa using this.1
  unfold render
  rw [hf]
  congr 1
  funext n
  exact ht _ n

/-- **The order of the keyword arguments does not matter** — for every signature, template and key
context, bindable or not (the raw-kwargs fallback and the `TypeError` case included). -/
theorem cacheKey_perm_kwargs (sig : Sig) (t : Tmpl) (ctx : Ctx) (as : List PyVal) (kw₁ kw₂ : Dict)
    (hp : kw₁ ~ kw₂) (hnd : (keys kw₁).Nodup) :
    cacheKey sig t ctx ⟨as, kw₁⟩ = cacheKey sig t ctx ⟨as, kw₂⟩ := by
  have key : ∀ (o₁ o₂ : Option Bound), OptBoundRel o₁ o₂ →
      ∀ (fb₁ fb₂ : Dict), ValEquiv fb₁ fb₂ →
      (match o₁ with | some b => some (render t (withCtx ctx (valuesOf (applyDefaults sig b)))) | none => some (render t (withCtx ctx fb₁))) =
      (match o₂ with | some b => some (render t (withCtx ctx (valuesOf (applyDefaults sig b)))) | none => some (render t (withCtx ctx fb₂))) := by
    intro o₁ o₂ ho fb₁ fb₂ hfb
    cases o₁ <;> cases o₂ <;> simp only [OptBoundRel] at ho
    · exact congrArg some (render_congr t _ _ (withCtx_equiv ctx _ _ hfb))
    · exact congrArg some (render_congr t _ _ (withCtx_equiv ctx _ _ (valuesOf_equiv _ _ (applyDefaults_rel sig _ _ ho))))
  unfold cacheKey callValues
  simp only
  split
  · have hfb : ValEquiv (kw₁ ++ [(KWARGS, .dict (kw₁.filter fun kv => !isNonVarKwParam sig kv.1))])
        (kw₂ ++ [(KWARGS, .dict (kw₂.filter fun kv => !isNonVarKwParam sig kv.1))]) := by
      refine ValEquiv.append _ _ _ _ (ValEquiv.of_perm kw₁ kw₂ hp hnd) (ValEquiv.cons _ _ _ _ _ ?_ (ValEquiv.rfl' _))
      exact dict_text_perm _ _ (hp.filter _) (hnd.sublist ((filter_sublist).map _))
    have := key _ _ (bind_perm true sig as kw₁ kw₂ hp hnd) _ _ hfb
    cases h1 : bind true sig ⟨as, kw₁⟩ <;> cases h2 : bind true sig ⟨as, kw₂⟩ <;> simp only [h1, h2] at this ⊢ <;>
      simpa using this
  · have := bind_perm false sig as kw₁ kw₂ hp hnd
    cases h1 : bind false sig ⟨as, kw₁⟩ <;> cases h2 : bind false sig ⟨as, kw₂⟩ <;> simp only [h1, h2, OptBoundRel] at this ⊢
    · exact congrArg some (render_congr t _ _ (withCtx_equiv ctx _ _ (valuesOf_equiv _ _ (applyDefaults_rel sig _ _ this))))

end CashewsVerif.KeyModel
