import CashewsVerif.Model.TxSched
/- Basic facts about the TxSched model: association lists, the shape of `settle`, what a step leaves alone,
induction over schedules. -/
namespace CashewsVerif.TxSched

/-! ### association lists -/

@[simp] theorem AL.get_nil (k : Nat) : AL.get [] k = none := rfl

theorem AL.get_append (l m : AL) (k : Nat) : AL.get (l ++ m) k = (AL.get l k).or (AL.get m k) := by
  induction l with
  | nil => simp
  | cons p l ih =>
    obtain ⟨k', v⟩ := p
    by_cases h : k' = k <;> simp [AL.get, h, ih]

theorem AL.get_erase (l : AL) (k k' : Nat) : AL.get (AL.erase l k) k' = if k = k' then none else AL.get l k' := by
  induction l with
  | nil => simp [AL.erase]
  | cons p l ih =>
    obtain ⟨k0, v⟩ := p
    have ih' : AL.get (List.filter (fun p => decide (p.1 ≠ k)) l) k' = if k = k' then none else AL.get l k' := ih
    show AL.get (List.filter (fun p => decide (p.1 ≠ k)) ((k0, v) :: l)) k' = _
    by_cases h0 : k0 = k
    · subst h0
      rw [List.filter_cons_of_neg (by simp), ih']
      by_cases h1 : k0 = k' <;> simp [AL.get, h1]
    · rw [List.filter_cons_of_pos (by simp [h0])]
      by_cases h1 : k0 = k'
      · subst h1
        have : ¬ k = k0 := fun h => h0 h.symm
        simp [AL.get, this]
      · simp only [AL.get, h1, if_false]; exact ih'

theorem AL.get_put (l : AL) (k : Nat) (v : Int) (k' : Nat) :
    AL.get (AL.put l k v) k' = if k = k' then some v else AL.get l k' := by
  unfold AL.put
  rw [AL.get_append, AL.get_erase]
  by_cases h : k = k' <;> simp [AL.get, h]

theorem AL.put_ne_nil (l : AL) (k : Nat) (v : Int) : AL.put l k v ≠ [] := by
  unfold AL.put; simp

theorem AL.get_some_ne_nil {l : AL} {k : Nat} {v : Int} (h : AL.get l k = some v) : l ≠ [] := by
  intro hl; subst hl; simp at h

/-! ### `settle`: an induction principle -/

/-- To show `P (settle now prog t)`: keep a relation `R remaining task` along the locally executed commands,
and show `P` at the two ways out (end of the program, a command that cannot run locally). -/
theorem settle_ind {R : List Cmd → Task → Prop} {P : Task → Prop} (now : Nat)
    (hloc : ∀ t c rest t', R (c :: rest) t → localCmd t c = some t' → R rest t')
    (hend : ∀ t, R [] t → P (endOfProg t))
    (hpark : ∀ t c rest, R (c :: rest) t → localCmd t c = none → P (park now t c rest)) :
    ∀ prog t, R prog t → P (settle now prog t) := by
  intro prog
  induction prog with
  | nil => intro t h; exact hend t h
  | cons c rest ih =>
    intro t h
    unfold settle
    cases hl : localCmd t c with
    | some t' => exact ih t' (hloc t c rest t' h hl)
    | none => exact hpark t c rest h hl

/-! ### the locks a task believes it holds -/

/-- `_locks`, or the local copy `_unlock_updates` is working through -/
def Task.held (t : Task) : List LockKey :=
  match t.pc with
  | .unlocking ls _ => t.locks ++ ls
  | .midUnlock ls => t.locks ++ ls
  | _ => t.locks

/-! ### what a step of one task leaves alone -/

theorem runTask_tasks_ne (w : World) (tid : Nat) {i : Nat} (h : i ≠ tid) :
    (w.runTask tid).tasks i = w.tasks i := by simp [World.runTask, h]

@[simp] theorem runTask_tasks_self (w : World) (tid : Nat) :
    (w.runTask tid).tasks tid = (taskStep tid w.now w.store w.lock (w.tasks tid)).task := by simp [World.runTask]

@[simp] theorem runTask_now (w : World) (tid : Nat) : (w.runTask tid).now = w.now := rfl
@[simp] theorem runTask_store (w : World) (tid : Nat) :
    (w.runTask tid).store = (taskStep tid w.now w.store w.lock (w.tasks tid)).store := rfl
@[simp] theorem runTask_lock (w : World) (tid : Nat) :
    (w.runTask tid).lock = (taskStep tid w.now w.store w.lock (w.tasks tid)).lock := rfl
@[simp] theorem runTask_log (w : World) (tid : Nat) :
    (w.runTask tid).log = w.log ++ (taskStep tid w.now w.store w.lock (w.tasks tid)).muts.map (fun m => (tid, m)) := rfl

/-! ### `taskStep`, one equation per program counter -/

section
variable (tid now : Nat) (store : Store) (lock : Locks) (t : Task)

theorem taskStep_start (h : t.pc = .start) :
    taskStep tid now store lock t =
      { store := store, lock := lock,
        task := settle now (if t.isTx then { t with ctx := true, enterAt := now } else t).prog
                  (if t.isTx then { t with ctx := true, enterAt := now } else t) } := by
  simp only [taskStep, h]

theorem taskStep_start_tx (h : t.pc = .start) (htx : t.isTx = true) :
    taskStep tid now store lock t =
      { store := store, lock := lock, task := settle now t.prog { t with ctx := true, enterAt := now } } := by
  simp only [taskStep, h, htx, if_true]

theorem taskStep_start_plain (h : t.pc = .start) (htx : t.isTx = false) :
    taskStep tid now store lock t = { store := store, lock := lock, task := settle now t.prog t } := by
  simp [taskStep, h, htx]

theorem taskStep_lockTry_free {k left : Nat} (h : t.pc = .lockTry k left)
    (hf : lockFree lock (lockKeyOf t.mode k) now = true) :
    taskStep tid now store lock t =
      { store := store,
        lock := fun l' => if l' = lockKeyOf t.mode k then some (tid, now + t.timeout) else lock l',
        task := settle now t.prog { t with locks := insertLock (lockKeyOf t.mode k) t.locks } } := by
  simp only [taskStep, h, hf, if_true]

theorem taskStep_lockTry_busy {k left : Nat} (h : t.pc = .lockTry k left)
    (hf : lockFree lock (lockKeyOf t.mode k) now = false) :
    taskStep tid now store lock t =
      { store := store, lock := lock, task := { t with pc := .lockSleep k left (now + 4) } } := by
  simp [taskStep, h, hf]

theorem taskStep_lockSleep {k left w : Nat} (h : t.pc = .lockSleep k left w) :
    taskStep tid now store lock t = { store := store, lock := lock, task := t } := by
  simp only [taskStep, h]

theorem taskStep_bodySleep {w : Nat} (h : t.pc = .bodySleep w) :
    taskStep tid now store lock t = { store := store, lock := lock, task := t } := by
  simp only [taskStep, h]

theorem taskStep_seedGet {k : Nat} {n : Int} (h : t.pc = .seedGet k n) :
    taskStep tid now store lock t =
      { store := store, lock := lock,
        task := settle now t.prog { t with ov := t.ov.put k ((store k).getD 0 + n),
                                           results := t.results ++ [some ((store k).getD 0 + n)],
                                           reads := t.reads ++ [store k], pend := t.pend ++ [(k, n)] } } := by
  simp only [taskStep, h]

theorem taskStep_readGet {k : Nat} (h : t.pc = .readGet k) :
    taskStep tid now store lock t =
      { store := store, lock := lock,
        task := settle now t.prog { t with results := t.results ++ [store k], reads := t.reads ++ [store k] } } := by
  simp only [taskStep, h]

theorem taskStep_expGet {k : Nat} (h : t.pc = .expGet k) :
    taskStep tid now store lock t =
      { store := store, lock := lock,
        task := settle now (expBuffer t k (store k)).prog (expBuffer t k (store k)) } := by
  simp only [taskStep, h]

theorem taskStep_existsGet {k : Nat} {v : Int} {e : Bool} (h : t.pc = .existsGet k v e) :
    taskStep tid now store lock t =
      { store := store, lock := lock,
        task := settle now (setxApply { t with reads := t.reads ++ [store k] } k v e (store k).isSome).prog
                  (setxApply { t with reads := t.reads ++ [store k] } k v e (store k).isSome) } := by
  simp only [taskStep, h]

theorem taskStep_direct {c : Cmd} (h : t.pc = .direct c) :
    taskStep tid now store lock t = directStep now store lock t c := by
  simp only [taskStep, h]

theorem taskStep_commitDel (h : t.pc = .commitDel) :
    taskStep tid now store lock t =
      { store := (Mut.delMany t.del).apply store, lock := lock,
        task := if t.ov ≠ [] then { t with pc := .commitSet } else afterCommit t, muts := [.delMany t.del] } := by
  simp only [taskStep, h]

theorem taskStep_commitSet (h : t.pc = .commitSet) :
    taskStep tid now store lock t =
      { store := (Mut.setMany t.ov).apply store, lock := lock, task := afterCommit t, muts := [.setMany t.ov] } := by
  simp only [taskStep, h]

theorem taskStep_unlocking_nil {o : Outcome} (h : t.pc = .unlocking [] o) :
    taskStep tid now store lock t = { store := store, lock := lock, task := { t with pc := .finished o } } := by
  simp only [taskStep, h]

theorem taskStep_unlocking_cons {l : LockKey} {rest : List LockKey} {o : Outcome} (h : t.pc = .unlocking (l :: rest) o) :
    taskStep tid now store lock t =
      { store := store, lock := unlockOne lock l tid now,
        task := { t with pc := if rest = [] then .finished o else .unlocking rest o } } := by
  simp only [taskStep, h]

theorem taskStep_finished {o : Outcome} (h : t.pc = .finished o) :
    taskStep tid now store lock t = { store := store, lock := lock, task := t } := by
  simp only [taskStep, h]

theorem taskStep_midDel (h : t.pc = .midDel) :
    taskStep tid now store lock t =
      { store := (Mut.delMany t.del).apply store, lock := lock,
        task := if t.ov ≠ [] then { t with pc := .midSet } else afterMid now t, muts := [.delMany t.del] } := by
  simp only [taskStep, h]

theorem taskStep_midSet (h : t.pc = .midSet) :
    taskStep tid now store lock t =
      { store := (Mut.setMany t.ov).apply store, lock := lock, task := afterMid now t, muts := [.setMany t.ov] } := by
  simp only [taskStep, h]

theorem taskStep_midUnlock_nil (h : t.pc = .midUnlock []) :
    taskStep tid now store lock t = { store := store, lock := lock, task := settle now t.prog t } := by
  simp only [taskStep, h]

theorem taskStep_midUnlock_cons {l : LockKey} {rest : List LockKey} (h : t.pc = .midUnlock (l :: rest)) :
    taskStep tid now store lock t =
      { store := store, lock := unlockOne lock l tid now,
        task := if rest = [] then settle now t.prog t else { t with pc := .midUnlock rest } } := by
  simp only [taskStep, h]

end

/-! ### induction over schedules -/

theorem run_nil (w : World) : w.run [] = w := rfl
theorem run_cons (w : World) (a : Act) (s : List Act) : w.run (a :: s) = (w.step a).run s := rfl

theorem run_append (w : World) (p q : List Act) : w.run (p ++ q) = (w.run p).run q := by
  simp [World.run, List.foldl_append]

/-- invariants that need nothing from the schedule -/
theorem run_invariant {P : World → Prop} (hstep : ∀ w a, P w → P (w.step a)) :
    ∀ (sched : List Act) (w : World), P w → P (w.run sched) := by
  intro sched
  induction sched with
  | nil => intro w h; exact h
  | cons a s ih => intro w h; exact ih _ (hstep w a h)

/-- invariants that hold as long as every state passed through satisfies `S` (e.g. "within the timeout") -/
theorem run_invariant_under {P S : World → Prop} (hstep : ∀ w a, P w → S w → P (w.step a)) :
    ∀ (sched : List Act) (w : World), P w → (∀ p, p <+: sched → S (w.run p)) → P (w.run sched) := by
  intro sched
  induction sched with
  | nil => intro w h _; exact h
  | cons a s ih =>
    intro w h hs
    have h0 : S w := hs [] (List.nil_prefix)
    refine ih _ (hstep w a h h0) ?_
    intro p hp
    have : (a :: p) <+: (a :: s) := by
      obtain ⟨q, hq⟩ := hp
      exact ⟨q, by simp [← hq]⟩
    exact hs (a :: p) this

end CashewsVerif.TxSched
