import CashewsVerif.Model.TxFault
/-
Helper lemmas for C16: association lists, a small relational program logic for the monad `M`
(`Rel R m`: every run of `m` relates the world before to the world after by the preorder `R`,
whatever the outcome), and the frame facts of the primitives.
-/
namespace CashewsVerif.TxFault

/-! ### association lists -/
section AL
variable {κ ε : Type} [DecidableEq κ]

@[simp] theorem alLookup_nil (k : κ) : alLookup ([] : List (κ × ε)) k = none := rfl

@[simp] theorem alLookup_erase_self (s : List (κ × ε)) (k : κ) : alLookup (alErase s k) k = none := by
  induction s with
  | nil => rfl
  | cons p s ih =>
    obtain ⟨k', e⟩ := p
    by_cases h : k' = k <;> simp [alErase, alLookup, h, ih]

theorem alLookup_erase_ne (s : List (κ × ε)) {k k' : κ} (h : k ≠ k') :
    alLookup (alErase s k) k' = alLookup s k' := by
  induction s with
  | nil => rfl
  | cons p s ih =>
    obtain ⟨k0, e⟩ := p
    by_cases h0 : k0 = k
    · subst h0; simp [alErase, alLookup, h, ih]
    · by_cases h1 : k0 = k'
      · subst h1; simp [alErase, alLookup, h0]
      · simp [alErase, alLookup, h0, h1, ih]

theorem alLookup_append (s t : List (κ × ε)) (k : κ) :
    alLookup (s ++ t) k = (alLookup s k).or (alLookup t k) := by
  induction s with
  | nil => simp
  | cons p s ih =>
    obtain ⟨k0, e⟩ := p
    by_cases h0 : k0 = k <;> simp [alLookup, h0, ih]

theorem alLookup_put (s : List (κ × ε)) (k k' : κ) (e : ε) :
    alLookup (alPut s k e) k' = if k = k' then some e else alLookup s k' := by
  unfold alPut
  rw [alLookup_append]
  by_cases h : k = k'
  · subst h; simp [alLookup]
  · simp [alLookup_erase_ne s h, alLookup, h]

theorem alLookup_erase (s : List (κ × ε)) (k k' : κ) :
    alLookup (alErase s k) k' = if k = k' then none else alLookup s k' := by
  by_cases h : k = k'
  · subst h; simp
  · simp [alLookup_erase_ne s h, h]

end AL

theorem inheritDl_live {κ} [DecidableEq κ] (now : Nat) (s : List (κ × DEntry)) (k : κ) :
    liveAt (inheritDl now s k) now = true := by
  unfold inheritDl
  cases alLookup s k with
  | none => rfl
  | some e =>
    simp only
    by_cases h : liveAt e.dl now = true
    · rw [if_pos h]; exact h
    · rw [if_neg h]; rfl

/-- a TTL-less `_set` followed by a `_get` at the same instant returns the value written -/
theorem memGet_memSet {κ} [DecidableEq κ] (now : Nat) (s : List (κ × DEntry)) (k : κ) (v : Int) :
    (memGet now (memSet now s k v none) k).2 = some v := by
  have hd : deadlineOf now none = none := rfl
  unfold memSet memGet
  simp only [hd, Option.none_or, alLookup_put, if_true]
  rw [if_pos (inheritDl_live now s k)]

/-! ### the monad -/

@[simp] theorem pure_eq {α} (a : α) : (pure a : M α) = M.pure a := rfl
@[simp] theorem bind_eq {α β} (m : M α) (f : α → M β) : (m >>= f) = M.bind m f := rfl

/-- a preorder on worlds -/
structure Pre (R : FWorld → FWorld → Prop) : Prop where
  refl : ∀ w, R w w
  trans : ∀ {a b c}, R a b → R b c → R a c

/-- every run of `m` takes a world to an `R`-related one, whether it returns or raises -/
def Rel (R : FWorld → FWorld → Prop) {α} (m : M α) : Prop := ∀ w, R w (m w).2

namespace Rel
variable {R : FWorld → FWorld → Prop} {α β : Type}

theorem pure (h : Pre R) (a : α) : Rel R (M.pure a) := fun w => h.refl w

theorem throw (h : Pre R) (e : Err) : Rel R (throw e : M α) := fun w => h.refl w

theorem getW (h : Pre R) : Rel R getW := fun w => h.refl w

theorem modW (f : FWorld → FWorld) (hf : ∀ w, R w (f w)) : Rel R (modW f) := fun w => hf w

theorem bind (h : Pre R) {m : M α} {f : α → M β} (hm : Rel R m) (hf : ∀ a, Rel R (f a)) :
    Rel R (M.bind m f) := by
  intro w
  have h1 := hm w
  unfold M.bind
  split
  · rename_i a w1 heq
    rw [heq] at h1
    exact h.trans h1 (hf a w1)
  · rename_i e w1 heq
    rw [heq] at h1
    exact h1

theorem tryFinally (h : Pre R) {m : M α} {fin : M Unit} (hm : Rel R m) (hf : Rel R fin) :
    Rel R (tryFinally m fin) := by
  intro w
  have h1 := hm w
  unfold TxFault.tryFinally
  cases hmw : m w with
  | mk r1 w1 =>
    rw [hmw] at h1
    have h2 := hf w1
    simp only
    cases hfw : fin w1 with
    | mk r2 w2 =>
      rw [hfw] at h2
      cases r2 <;> exact h.trans h1 h2

end Rel

/-! ### the primitives -/

/-- commands that leave the data of every backend alone -/
def BCmd.noData : BCmd → Prop
  | .get _ => True
  | .setLock _ _ => True
  | .unlock _ => True
  | .has _ => True
  | _ => False

/-- commands that take no lock -/
def BCmd.noLock : BCmd → Prop
  | .setLock _ _ => False
  | _ => True

theorem applyCmd_counter (b : Nat) (c : BCmd) (w : FWorld) : (applyCmd b c w).2.counter = w.counter := by
  unfold applyCmd
  split <;> (try rfl) <;> (repeat' split) <;> rfl

theorem applyCmd_log (b : Nat) (c : BCmd) (w : FWorld) : (applyCmd b c w).2.log = w.log := by
  unfold applyCmd
  split <;> (try rfl) <;> (repeat' split) <;> rfl

theorem applyCmd_now (b : Nat) (c : BCmd) (w : FWorld) : (applyCmd b c w).2.now = w.now := by
  unfold applyCmd
  split <;> (try rfl) <;> (repeat' split) <;> rfl

theorem applyCmd_ctx (b : Nat) (c : BCmd) (w : FWorld) : (applyCmd b c w).2.ctx = w.ctx := by
  unfold applyCmd
  split <;> (try rfl) <;> (repeat' split) <;> rfl

theorem applyCmd_objs (b : Nat) (c : BCmd) (w : FWorld) : (applyCmd b c w).2.objs = w.objs := by
  unfold applyCmd
  split <;> (try rfl) <;> (repeat' split) <;> rfl

theorem applyCmd_outs (b : Nat) (c : BCmd) (w : FWorld) : (applyCmd b c w).2.outs = w.outs := by
  unfold applyCmd
  split <;> (try rfl) <;> (repeat' split) <;> rfl

theorem applyCmd_data (b : Nat) (c : BCmd) (w : FWorld) (hc : c.noData) : (applyCmd b c w).2.data = w.data := by
  unfold applyCmd
  cases c <;> simp [BCmd.noData] at hc <;> simp only <;> (repeat' split) <;> rfl

/-- without `set_lock`, the lock stores only lose entries -/
theorem applyCmd_locks_shrink (b : Nat) (c : BCmd) (w : FWorld) (hc : c.noLock) (key : Nat × Nat) (e : LEntry)
    (h : alLookup (applyCmd b c w).2.locks key = some e) : alLookup w.locks key = some e := by
  unfold applyCmd at h
  cases c with
  | setLock lk ttl => simp [BCmd.noLock] at hc
  | unlock lk =>
    simp only at h
    split at h
    · exact h
    · split at h
      · simp only [alLookup_erase] at h
        split at h <;> simp_all
      · split at h
        · simp only [alLookup_erase] at h
          split at h <;> simp_all
        · exact h
  | get k => exact h
  | set k v => exact h
  | deleteMany ks => exact h
  | setMany kvs ttl => exact h
  | has k => exact h

/-! ### the environment only ever removes foreign lock entries -/

theorem relOne_sub (locks : List ((Nat × Nat) × LEntry)) (key k' : Nat × Nat) (e : LEntry)
    (h : alLookup (relOne locks key) k' = some e) : alLookup locks k' = some e := by
  unfold relOne at h
  split at h
  · split at h
    · exact h
    · rw [alLookup_erase] at h
      split at h
      · cases h
      · exact h
  · exact h

theorem envRel_sub (keys : List (Nat × Nat)) (locks : List ((Nat × Nat) × LEntry)) (k' : Nat × Nat) (e : LEntry)
    (h : alLookup (envRel keys locks) k' = some e) : alLookup locks k' = some e := by
  induction keys generalizing locks with
  | nil => exact h
  | cons key rest ih => exact relOne_sub locks key k' e (ih _ h)

/-- an entry carrying the victim's token is never released by the environment -/
theorem relOne_mine (locks : List ((Nat × Nat) × LEntry)) (key k' : Nat × Nat) (e : LEntry)
    (h : alLookup locks k' = some e) (hm : e.mine = true) : alLookup (relOne locks key) k' = some e := by
  unfold relOne
  split
  · rename_i e0 h0
    split
    · exact h
    · rename_i hne
      rw [alLookup_erase]
      split
      · rename_i heq
        subst heq
        rw [h0] at h
        cases h
        exact absurd hm hne
      · exact h
  · exact h

theorem envRel_mine (keys : List (Nat × Nat)) (locks : List ((Nat × Nat) × LEntry)) (k' : Nat × Nat) (e : LEntry)
    (h : alLookup locks k' = some e) (hm : e.mine = true) : alLookup (envRel keys locks) k' = some e := by
  induction keys generalizing locks with
  | nil => exact h
  | cons key rest ih => exact ih _ (relOne_mine locks key k' e h hm)

/-- the world right after the bookkeeping of command number `w.counter` (the environment has moved) -/
def logged (cfg : Cfg) (b : Nat) (c : BCmd) (w : FWorld) : FWorld :=
  { w with counter := w.counter + 1, log := w.log ++ [⟨w.counter, b, c, cfg.fails w.counter⟩],
           locks := envRel (cfg.env w.counter) w.locks }

theorem logged_locks_sub (cfg : Cfg) (b : Nat) (c : BCmd) (w : FWorld) (key : Nat × Nat) (e : LEntry)
    (h : alLookup (logged cfg b c w).locks key = some e) : alLookup w.locks key = some e :=
  envRel_sub _ _ _ _ h

theorem backendCmd_fail (cfg : Cfg) (b : Nat) (c : BCmd) (w : FWorld) (h : cfg.fails w.counter = true) :
    backendCmd cfg b c w = (.err (.fault w.counter (cfg.kindAt w.counter)), logged cfg b c w) := by
  simp [backendCmd, logged, h]

theorem backendCmd_ok (cfg : Cfg) (b : Nat) (c : BCmd) (w : FWorld) (h : cfg.fails w.counter = false) :
    backendCmd cfg b c w = (.ok (applyCmd b c (logged cfg b c w)).1, (applyCmd b c (logged cfg b c w)).2) := by
  simp [backendCmd, logged, h]


/-! ### where the world goes (second components), independent of outcomes -/

theorem tryFinally_snd {α} (m : M α) (fin : M Unit) (w : FWorld) :
    (tryFinally m fin w).2 = (fin (m w).2).2 := by
  unfold tryFinally
  cases m w with
  | mk r w1 =>
    simp only
    cases fin w1 with
    | mk r2 w2 => cases r2 <;> rfl

theorem gatherUnlock_snd (cfg : Cfg) (b lk : Nat) (rest : List Nat) (w : FWorld) :
    (gatherUnlock cfg b (lk :: rest) w).2 = (gatherUnlock cfg b rest (backendCmd cfg b (.unlock lk) w).2).2 := by
  simp only [gatherUnlock]
  generalize backendCmd cfg b (.unlock lk) w = p
  obtain ⟨r, w1⟩ := p
  cases r <;> rfl

/-- `_rollback` after one backend: it goes on with the rest, or — the backend's rollback ended with a BaseException and
the loop is the OLD one (`except Exception` only, `rbAll = false`) — it is left there -/
theorem rollbackList_snd (cfg : Cfg) (t : TxB) (rest : List TxB) (w : FWorld) :
    (rollbackList cfg (t :: rest) w).2 = (rollbackList cfg rest (rollbackOne cfg t w).2).2 ∨
    ((rollbackList cfg (t :: rest) w).2 = (rollbackOne cfg t w).2 ∧ cfg.rbAll = false ∧
      ∃ e, (rollbackOne cfg t w).1 = .err e ∧ e.isBase = true) := by
  simp only [rollbackList]
  generalize rollbackOne cfg t w = p
  obtain ⟨r, w1⟩ := p
  cases r with
  | ok a => exact Or.inl rfl
  | err e =>
    simp only
    cases hb : e.isBase with
    | false =>
      simp only [Bool.false_eq_true, if_false]
      generalize rollbackList cfg rest w1 = q
      obtain ⟨r2, w2⟩ := q
      cases r2 <;> exact Or.inl rfl
    | true =>
      simp only [if_true]
      cases hr : cfg.rbAll with
      | true => exact Or.inl (by simp)
      | false => exact Or.inr ⟨by simp, rfl, e, rfl, hb⟩

/-- with the loop of /repo every backend is rolled back -/
theorem rollbackList_snd_all (cfg : Cfg) (hall : cfg.rbAll = true) (t : TxB) (rest : List TxB) (w : FWorld) :
    (rollbackList cfg (t :: rest) w).2 = (rollbackList cfg rest (rollbackOne cfg t w).2).2 := by
  rcases rollbackList_snd cfg t rest w with h | ⟨_, h, _⟩
  · exact h
  · rw [hall] at h; cases h

theorem txRollback_snd (cfg : Cfg) (ts : List TxB) (w : FWorld) :
    (txRollback cfg ts w).2 = (rollbackList cfg ts w).2 := by
  unfold txRollback
  generalize rollbackList cfg ts w = p
  obtain ⟨r, w1⟩ := p
  cases r with
  | ok e => cases e <;> rfl
  | err e => rfl

/-- after a backend's commit the loop either goes on committing or rolls the rest back -/
theorem commitLoop_snd (cfg : Cfg) (t : TxB) (rest : List TxB) (w : FWorld) :
    (commitLoop cfg (t :: rest) w).2 = (commitLoop cfg rest (commitOne cfg t w).2).2 ∨
    (commitLoop cfg (t :: rest) w).2 = (rollbackList cfg rest (commitOne cfg t w).2).2 := by
  simp only [commitLoop]
  generalize commitOne cfg t w = p
  obtain ⟨r, w1⟩ := p
  cases r
  · exact Or.inl rfl
  · right
    simp only
    generalize rollbackList cfg rest w1 = q
    obtain ⟨r2, w2⟩ := q
    cases r2 <;> rfl

end CashewsVerif.TxFault
