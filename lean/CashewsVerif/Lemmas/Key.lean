import CashewsVerif.Model.Key
import Std.Data.String.ToInt
/-
Lemmas for C08: binding (a call that `bind` accepts is bound the same way by `bind_partial`),
rendering of separated templates (the first ':' after a field belongs to the separator),
per-type injectivity of the value rendering.
-/
namespace CashewsVerif.KeyModel

/-! ## lookups -/

theorem get?_append {α : Type} (l₁ l₂ : List (Str × α)) (n : Str) :
    get? (l₁ ++ l₂) n = (get? l₁ n).or (get? l₂ n) := by
  induction l₁ with
  | nil => simp [get?]
  | cons x r ih =>
    obtain ⟨k, v⟩ := x
    simp only [List.cons_append, get?]
    split <;> simp [ih]

/-! ## binding: `bind` succeeds ⇒ `bind_partial` succeeds with the same arguments -/

theorem bindPos_partial (kw : Dict) (ps : List Param) (as : List PyVal) (r : Bound × List Param)
    (h : bindPos false kw ps as = some r) : bindPos true kw ps as = some r := by
  induction ps generalizing as r with
  | nil => cases as <;> simp_all [bindPos]
  | cons p rest ih =>
    cases as with
    | nil =>
      simp only [bindPos] at h ⊢
      by_cases hk : p.kind = .varPos
      · simpa [hk] using h
      · simp only [hk, if_false] at h ⊢
        split at h
        · simpa using h
        · simp at h
    | cons a as' =>
      simp only [bindPos] at h ⊢
      split
      all_goals (rename_i hk; simp only [hk] at h)
      · exact h
      · exact h
      · exact h
      · split at h
        · simp at h
        · rename_i hg
          rw [if_neg hg]
          cases hb : bindPos false kw rest as' with
          | none => simp [hb] at h
          | some br =>
            rw [ih as' br hb]
            simpa [hb] using h

theorem bindKw_partial (ps : List Param) (kw : Dict) (kp : Option Str) (r : Bound × Dict × Option Str)
    (h : bindKw false ps kw kp = some r) : bindKw true ps kw kp = some r := by
  induction ps generalizing kw kp r with
  | nil => simpa [bindKw] using h
  | cons p rest ih =>
    unfold bindKw at h ⊢
    split
    · rename_i hk
      simp only [hk] at h
      exact ih _ _ _ h
    · rename_i hk
      simp only [hk] at h
      exact ih _ _ _ h
    · rename_i hk1 hk2
      split at h
      · exact absurd ‹_› hk1
      · exact absurd ‹_› hk2
      · split
        · rename_i v hv
          simp only [hv] at h
          cases hb : bindKw false rest (erase kw p.name) kp with
          | none => simp [hb] at h
          | some br =>
            rw [ih _ _ br hb]
            simpa [hb] using h
        · rename_i hv
          simp only [hv] at h
          split at h
          · simp at h
          · simp only [Bool.not_true, Bool.false_and, Bool.false_eq_true, if_false]
            exact ih _ _ _ h

theorem bind_partial_of_bind (sig : Sig) (c : Call) (b : Bound) (h : bind false sig c = some b) :
    bind true sig c = some b := by
  unfold bind at h ⊢
  cases h1 : bindPos false c.kwargs sig c.args with
  | none => simp [h1] at h
  | some r1 =>
    obtain ⟨b1, rest⟩ := r1
    rw [bindPos_partial _ _ _ _ h1]
    simp only [h1] at h
    simp only
    cases h2 : bindKw false rest c.kwargs none with
    | none => simp [h2] at h
    | some r2 =>
      obtain ⟨b2, left, kp⟩ := r2
      rw [bindKw_partial _ _ _ _ h2]
      simp only [h2] at h
      exact h

/-- the value dict the key is rendered from, for a call that binds -/
theorem callValues_of_bind (sig : Sig) (c : Call) (b : Bound) (h : bind false sig c = some b) :
    callValues sig c = some (valuesOf (applyDefaults sig b)) := by
  unfold callValues
  split
  · rw [bind_partial_of_bind sig c b h]
  · rw [h]; rfl

/-! ## separated templates -/

/-- the first occurrence of the separator determines the split -/
theorem first_sep_unique (c : Char) (a b x y : Str) (ha : c ∉ a) (hb : c ∉ b)
    (h : a ++ c :: x = b ++ c :: y) : a = b ∧ x = y := by
  induction a generalizing b with
  | nil =>
    cases b with
    | nil => simpa using h
    | cons d b' =>
      simp only [List.nil_append, List.cons_append, List.cons.injEq] at h
      exact absurd (h.1 ▸ List.mem_cons_self) hb
  | cons d a' ih =>
    cases b with
    | nil =>
      simp only [List.nil_append, List.cons_append, List.cons.injEq] at h
      exact absurd (h.1 ▸ List.mem_cons_self) ha
    | cons e b' =>
      simp only [List.cons_append, List.cons.injEq] at h
      have := ih b' (fun m => ha (List.mem_cons_of_mem _ m)) (fun m => hb (List.mem_cons_of_mem _ m)) h.2
      exact ⟨by rw [h.1, this.1], this.2⟩

theorem sep_core (f g : Str → Str) (t : Tmpl)
    (hf : ∀ n ∈ t.fields, ':' ∉ f n) (hg : ∀ n ∈ t.fields, ':' ∉ g n) :
    (sepAux false t = true → renderWith f t = renderWith g t → ∀ n ∈ t.fields, f n = g n) ∧
    (sepAux true t = true → ∀ a₁ a₂ : Str, ':' ∉ a₁ → ':' ∉ a₂ →
      a₁ ++ renderWith f t = a₂ ++ renderWith g t → a₁ = a₂ ∧ ∀ n ∈ t.fields, f n = g n) := by
  induction t with
  | nil =>
    refine ⟨fun _ _ n hn => by simp [Tmpl.fields] at hn, fun _ a₁ a₂ _ _ h => ⟨by simpa [renderWith] using h, fun n hn => by simp [Tmpl.fields] at hn⟩⟩
  | cons it r ih =>
    cases it with
    | lit s =>
      have hf' : ∀ n ∈ Tmpl.fields r, ':' ∉ f n := fun n hn => hf n (by simpa [Tmpl.fields] using hn)
      have hg' : ∀ n ∈ Tmpl.fields r, ':' ∉ g n := fun n hn => hg n (by simpa [Tmpl.fields] using hn)
      obtain ⟨ihP, ihQ⟩ := ih hf' hg'
      constructor
      · intro hs h n hn
        simp only [sepAux, Bool.false_and] at hs
        simp only [renderWith, List.append_cancel_left_eq] at h
        exact ihP hs h n (by simpa [Tmpl.fields] using hn)
      · intro hs a₁ a₂ h₁ h₂ h
        simp only [sepAux, Bool.true_and] at hs
        simp only [renderWith] at h
        by_cases hc : ':' ∈ s
        · obtain ⟨s₀, s₁, hs01, hs0⟩ := List.eq_append_cons_of_mem hc
          have hcont : s.contains ':' = true := List.contains_iff_mem.mpr hc
          simp only [hcont, Bool.not_true] at hs
          subst hs01
          have h' : (a₁ ++ s₀) ++ ':' :: (s₁ ++ renderWith f r) = (a₂ ++ s₀) ++ ':' :: (s₁ ++ renderWith g r) := by
            simpa [List.append_assoc] using h
          have key := first_sep_unique ':' (a₁ ++ s₀) (a₂ ++ s₀) _ _
            (by simp [h₁, hs0]) (by simp [h₂, hs0]) h'
          refine ⟨List.append_cancel_right key.1, ?_⟩
          intro n hn
          exact ihP hs (List.append_cancel_left key.2) n (by simpa [Tmpl.fields] using hn)
        · have hcont : s.contains ':' = false := by
            cases hcc : s.contains ':' with
            | false => rfl
            | true => exact absurd (List.contains_iff_mem.mp hcc) hc
          simp only [hcont, Bool.not_false] at hs
          have h' : (a₁ ++ s) ++ renderWith f r = (a₂ ++ s) ++ renderWith g r := by
            simpa [List.append_assoc] using h
          have key := ihQ hs (a₁ ++ s) (a₂ ++ s) (by simp [h₁, hc]) (by simp [h₂, hc]) h'
          exact ⟨List.append_cancel_right key.1, fun n hn => key.2 n (by simpa [Tmpl.fields] using hn)⟩
    | field m =>
      have hf' : ∀ n ∈ Tmpl.fields r, ':' ∉ f n := fun n hn => hf n (by simp [Tmpl.fields, hn])
      have hg' : ∀ n ∈ Tmpl.fields r, ':' ∉ g n := fun n hn => hg n (by simp [Tmpl.fields, hn])
      obtain ⟨_, ihQ⟩ := ih hf' hg'
      constructor
      · intro hs h n hn
        simp only [sepAux, Bool.not_false, Bool.true_and] at hs
        simp only [renderWith] at h
        have key := ihQ hs (f m) (g m) (hf m (by simp [Tmpl.fields])) (hg m (by simp [Tmpl.fields])) h
        simp only [Tmpl.fields, List.mem_cons] at hn
        rcases hn with rfl | hn
        · exact key.1
        · exact key.2 n hn
      · intro hs
        simp [sepAux] at hs

/-- on a separated template, ':'-free field texts can be read back from the rendered key -/
theorem renderWith_injective (f g : Str → Str) (t : Tmpl) (hs : separated t = true)
    (hf : ∀ n ∈ t.fields, ':' ∉ f n) (hg : ∀ n ∈ t.fields, ':' ∉ g n)
    (h : renderWith f t = renderWith g t) : ∀ n ∈ t.fields, f n = g n :=
  (sep_core f g t hf hg).1 hs h

/-! ## generated templates -/

theorem sepAux_autoItems (excl : List Str) (sig : Sig) (pend : Bool) :
    sepAux pend (autoItems excl sig) = true := by
  induction sig generalizing pend with
  | nil => simp [autoItems, sepAux]
  | cons p rest ih =>
    unfold autoItems
    split
    · exact ih pend
    · split <;> simp [sepAux, ih]

theorem fields_autoItems_nil (sig : Sig) : Tmpl.fields (autoItems [] sig) = sig.map paramKey := by
  induction sig with
  | nil => simp [autoItems, Tmpl.fields]
  | cons p rest ih =>
    unfold autoItems
    simp only [List.not_mem_nil, if_false, List.map_cons]
    cases hk : p.kind <;> simp [Tmpl.fields, ih, paramKey, hk]

/-! ## rendering looks only at the fields of the template -/

theorem renderWith_congr_fields (f g : Str → Str) (t : Tmpl) (h : ∀ n ∈ t.fields, f n = g n) :
    renderWith f t = renderWith g t := by
  induction t with
  | nil => rfl
  | cons it r ih =>
    cases it with
    | lit s =>
      simp only [renderWith]
      rw [ih (fun n hn => h n (by simpa [Tmpl.fields] using hn))]
    | field m =>
      simp only [renderWith]
      rw [h m (by simp [Tmpl.fields]), ih (fun n hn => h n (by simp [Tmpl.fields, hn]))]

theorem render_congr_fields (t : Tmpl) (V₁ V₂ : Dict) (h : ∀ n ∈ t.fields, get? V₁ n = get? V₂ n) :
    render t V₁ = render t V₂ := by
  have hf : fastPath t V₁ = fastPath t V₂ := by
    simp only [fastPath]
    rw [Bool.eq_iff_iff]
    simp only [List.all_eq_true]
    constructor
    · intro H n hn
      rw [← h n hn]; exact H n hn
    · intro H n hn
      rw [h n hn]; exact H n hn
  unfold render
  rw [hf]
  apply renderWith_congr_fields
  intro n hn
  simp only [fieldText, h n hn]

/-! ## per-type injectivity of the value rendering -/

theorem intText_injective (i j : Int) (h : intText i = intText j) : i = j :=
  Int.repr_injective (String.toList_inj.mp h)

theorem hexDigit_injective (m n : Nat) (hm : m < 16) (hn : n < 16) (h : hexDigit m = hexDigit n) : m = n := by
  have : ∀ a, a < 16 → ∀ b, b < 16 → hexDigit a = hexDigit b → a = b := by decide
  exact this m hm n hn h

theorem hexOf_injective (xs ys : List Nat) (hx : ∀ b ∈ xs, b < 256) (hy : ∀ b ∈ ys, b < 256)
    (h : hexOf xs = hexOf ys) : xs = ys := by
  induction xs generalizing ys with
  | nil => cases ys <;> simp_all [hexOf]
  | cons x xs ih =>
    cases ys with
    | nil => simp [hexOf] at h
    | cons y ys =>
      simp only [hexOf, List.cons.injEq] at h
      have hx' := hx x (by simp)
      have hy' := hy y (by simp)
      have h1 := hexDigit_injective _ _ (by omega) (by omega) h.1
      have h2 := hexDigit_injective _ _ (by omega) (by omega) h.2.1
      have := ih ys (fun b hb => hx b (by simp [hb])) (fun b hb => hy b (by simp [hb])) h.2.2
      subst this
      have : x = y := by omega
      rw [this]

end CashewsVerif.KeyModel
