import CashewsVerif.Driver.TxRead
/- Driver for C03 (shared with C04): see CashewsVerif/Driver/Tx.lean for the protocol and Driver/TxRead.lean for
   the reads with a caller-supplied default (`get <k> d=<val>`). -/
def main : IO Unit := CashewsVerif.TxDriver.runD
