/- placeholder driver for C03: replaced when the check for C03 is built -/
def main : IO Unit := IO.println "not-built"
