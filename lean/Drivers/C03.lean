import CashewsVerif.Driver.Tx
/- Driver for C03 (shared with C04): see CashewsVerif/Driver/Tx.lean for the protocol. -/
def main : IO Unit := CashewsVerif.TxDriver.run
