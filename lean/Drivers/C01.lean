import CashewsVerif.Driver.Proto
import CashewsVerif.Model.Mem
import CashewsVerif.Model.Lru
import CashewsVerif.Spec.TtlMap
import CashewsVerif.Model.Fine
/- Driver for C01 / C11: runs the same command line on the `Mem` model and the `TtlMap` spec.
For C11 it also runs the ghost-instrumented `Lru` model (same store, plus use log / eviction records /
`gone` list) and answers the extra request words `keys`, `uselog`, `victims`, `gone`, `push`, `pop`. -/
open CashewsVerif CashewsVerif.Proto

structure St where
  mem : Mem
  spec : TtlMap
  lru : Lru := Lru.init 1000
  res : Nat := 8                            -- ticks per second (`case <cap> <res>`): only `getexpire` looks at it
  stack : List (Mem × TtlMap × Lru) := []   -- `push` / `pop`: depth-first enumeration of histories (C11)

def parseKv? (s : String) : Option (Nat × Val) :=
  match s.splitOn "=" with
  | [k, v] => do let k ← k.toNat?; let v ← parseVal? v; pure (k, v)
  | _ => none

def parseOp? : List String → Option Op
  | ["set", k, v, ttl, c] => do
    pure (.set (← k.toNat?) (← parseVal? v) (← parseTtl? ttl) (← parseCond? c))
  | "setmany" :: ttl :: kvs => do
    pure (.setMany (← allSome (kvs.map parseKv?)) (← parseTtl? ttl))
  | ["get", k] => do pure (.get (← k.toNat?))
  | "getmany" :: ks => do pure (.getMany (← allSome (ks.map String.toNat?)))
  | ["exists", k] => do pure (.exists_ (← k.toNat?))
  | ["incr", k, b, ttl] => do pure (.incr (← k.toNat?) (← b.toInt?) (← parseTtl? ttl))
  | ["delete", k] => do pure (.delete (← k.toNat?))
  | "delmany" :: ks => do pure (.deleteMany (← allSome (ks.map String.toNat?)))
  | ["expire", k, ttl] => do pure (.expire (← k.toNat?) (← parseTtl? ttl))
  | ["getexpire", k] => do pure (.getExpire (← k.toNat?))
  | ["clear"] => some .clear
  | ["adv", dt] => do pure (.adv (← dt.toNat?))
  | ["purge"] => some .purge
  | _ => none

/-- C11, larger alphabet (Model/Lru.lean `XOp`): commands of `Memory` beyond the regular ones.  They run on the
ghost-instrumented model only (`mem` is kept equal to its store); the `TtlMap` spec does not know them. -/
def parseXOp? : List String → Option XOp
  | ["setlock", k, v, ttl] => do pure (.setLock (← k.toNat?) (← parseVal? v) (← parseTtl? ttl))
  | ["islocked", k] => do pure (.isLocked (← k.toNat?))
  | ["unlock", k, v] => do pure (.unlock (← k.toNat?) (← parseVal? v))
  | ["setadd", k, ttl] => do pure (.setAdd (← k.toNat?) (← parseTtl? ttl))
  | ["setremove", k] => do pure (.setRemove (← k.toNat?))
  | ["setpop", k] => do pure (.setPop (← k.toNat?))
  | ["sliceincr", k, ttl] => do pure (.sliceIncr (← k.toNat?) (← parseTtl? ttl))
  | ["incrbits", k] => do pure (.incrBits (← k.toNat?))
  | ["getbits", k] => do pure (.getBits (← k.toNat?))
  | ["getraw", k] => do pure (.getRaw (← k.toNat?))
  | ["getmatch"] => some .getMatch
  | ["delmatch"] => some .delMatch
  | _ => none

def showKeys (ks : List Nat) : String := ",".intercalate (ks.map toString)

def step (st : St) (line : String) : St × String :=
  match words line with
  | ["case", cap] =>
    match cap.toNat? with
    | some c => ({ mem := Mem.init c, spec := TtlMap.init, lru := Lru.init c }, "ok")
    | none => (st, "bad-op")
  -- a history on a finer clock: `res` ticks per second (Model/Fine.lean; `res = 8` is the plain `case <cap>`)
  | ["case", cap, res] =>
    match cap.toNat?, res.toNat? with
    | some c, some r =>
      if r = 0 then (st, "bad-op") else ({ mem := Mem.init c, spec := TtlMap.init, lru := Lru.init c, res := r }, "ok")
    | _, _ => (st, "bad-op")
  | ["keys"] => (st, "keys=" ++ showKeys st.mem.store.keys)   -- store order, for C11 probes
  -- C11 ghost observables: use log (most recent first), victims of all evictions so far (latest first),
  -- keys that left for an accepted reason since their last use
  | ["uselog"] => (st, "log=" ++ showKeys st.lru.log)
  | ["victims"] => (st, "victims=" ++ showKeys (st.lru.evs.map (·.1)))
  | ["gone"] => (st, "gone=" ++ showKeys st.lru.gone)
  | ["push"] => ({ st with stack := (st.mem, st.spec, st.lru) :: st.stack }, "ok")
  | ["pop"] =>
    match st.stack with
    | (m, t, l) :: rest => ({ mem := m, spec := t, lru := l, stack := rest }, "ok")
    | [] => (st, "bad-op")
  | ws =>
    match parseOp? ws with
    | none =>
      match parseXOp? ws with
      | none => (st, "bad-op")
      | some xop =>
        let (l', o) := st.lru.xstep xop
        ({ st with mem := l'.mem, lru := l' }, s!"model={showOut o} spec=-")
    | some op =>
      let (m', o) := st.mem.step op
      let (t', o') := st.spec.step op
      let (l', _) := st.lru.step op
      -- the TTL query answers whole seconds: at the case's resolution (`getExpireR 8 = getExpire`, Lemmas/Fine.lean)
      let (o, o') := match op with
        | .getExpire k => (Out.int (st.mem.getExpireR st.res k), Out.int (st.spec.getExpireR st.res k))
        | _ => (o, o')
      ({ st with mem := m', spec := t', lru := l' }, s!"model={showOut o} spec={showOut o'}")

def main : IO Unit := mainLoop step { mem := Mem.init 1000, spec := TtlMap.init }
