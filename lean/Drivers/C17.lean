import CashewsVerif.Driver.Proto
import CashewsVerif.Model.DisableCompose
/- Driver for C17: a history of registrations, control operations and public commands (through the
default middleware stack), one answer per request line.

Strings: `-` = "", otherwise code points joined by `.` (e.g. `97.58` = "a:").
Command sets: `-` = none given, otherwise `Command.value`s joined by `,`. -/
open CashewsVerif CashewsVerif.Proto CashewsVerif.Route CashewsVerif.Disable

structure St where
  /-- routing table, control state, initialised backends, contexts inside invalidate_further() -/
  s : Sys
  /-- decorated functions with overlapping calls: id ↦ (protected, state) -/
  fns : List (Nat × Bool × CSt)

def St.fresh : St := ⟨Sys.fresh, []⟩

def St.t (st : St) : Table := st.s.t
def St.w (st : St) : World := st.s.w

/-- one operation of the history model; the answer line of an operation that answers `ok` / `NC` -/
def St.hop (st : St) (op : HOp) : St × String :=
  let r := hstep st.s op
  ({ st with s := r.1 },
    match r.2 with
    | .done => "ok"
    | .ctl nc => if nc then "NC" else "ok"
    | .cmd _ => "?")

def St.fn? (st : St) (fid : Nat) : Option (Bool × CSt) :=
  (st.fns.find? fun x => x.1 == fid).map fun x => x.2

def St.setFn (st : St) (fid : Nat) (prot : Bool) (cs : CSt) : St :=
  { st with fns := (fid, prot, cs) :: st.fns.filter fun x => x.1 != fid }

def parseStr? (s : String) : Option (List Nat) :=
  if s = "-" then some [] else allSome ((s.splitOn ".").map String.toNat?)

def showStr (s : List Nat) : String :=
  if s.isEmpty then "-" else ".".intercalate (s.map toString)

def parseCmd? (s : String) : Option Cmd := Cmd.all.find? fun c => c.name == s

def parseCmds? (s : String) : Option (List Cmd) :=
  if s = "-" then some [] else allSome ((s.splitOn ",").map parseCmd?)

def showBool (b : Bool) : String := if b then "T" else "F"

def showTarget : Target → String
  | .raw b => s!"raw{b}"
  | .tx b => s!"tx{b}"

def showCall (c : Call) : String :=
  s!"{showTarget c.target}:{c.cmd.name}:" ++ "+".intercalate (c.keys.map showStr)

def showCalls (cs : List Call) : String :=
  if cs.isEmpty then "-" else ";".intercalate (cs.map showCall)

def showBCall : BCall → String
  | .cmd c => showCall c
  | .init tg => s!"{showTarget tg}:init:"

def showBCalls (cs : List BCall) : String :=
  if cs.isEmpty then "-" else ";".intercalate (cs.map showBCall)

def showSlot : Slot → String
  | .dflt => "D"
  | .resp c p => s!"r{c}.{p}"
  | .missing => "X"

def showRes : Res → String
  | .dflt => "D"
  | .none_ => "N"
  | .emptyStream => "E"
  | .resp c => s!"R{c}"
  | .stream c => s!"S{c}"
  | .many slots => "M[" ++ ",".intercalate (slots.map showSlot) ++ "]"
  | .sum cs => "SUM[" ++ "+".intercalate (cs.map toString) ++ "]"

def showOptNat : Option Nat → String
  | none => "NC"
  | some b => toString b

/-- the specification's routing: longest matching prefix by a scan, then the dict -/
def specRoute (t : Table) (key : List Nat) : Option Nat :=
  (longestMatch t.prefixes key).bind fun p => dictGet p t.regs

def parseFCmd? (name : String) (args : List String) : Option FCmd :=
  match name, args with
  | "get_many", ks => (allSome (ks.map parseStr?)).map .getMany
  | "set_many", ks => (allSome (ks.map parseStr?)).map .setMany
  | "delete_many", ks => (allSome (ks.map parseStr?)).map .deleteMany
  | "clear", [] => some .clear
  | "get_keys_count", [] => some .keysCount
  | n, [k] => do
    let c ← parseCmd? n
    let k ← parseStr? k
    pure (.keyed c k)
  | _, _ => none

def showPairs (ps : List (Nat × Nat)) : String :=
  if ps.isEmpty then "-" else ",".intercalate (ps.map fun p => s!"{p.1}:{p.2}")

/-- what the events since `old` did: calls that ended (call:execution), backend commands issued -/
def showDelta (old new : CSt) : String :=
  s!"done={showPairs (new.results.drop old.results.length)} calls={showCalls (new.calls.drop old.calls.length)}"

def showStart (old new : CSt) : String :=
  let what :=
    if new.nc.length > old.nc.length then "NC"
    else if new.results.length > old.results.length then
      match new.results.getLast? with
      | some p => s!"hit:{p.2}"
      | none => "?"
    else match new.flights.getLast? with
      | some ⟨_, _, .bypass e⟩ => s!"bypass:{e}"
      | some ⟨_, _, .own e _ _⟩ => s!"own:{e}"
      | some ⟨_, _, .joined l⟩ => s!"join:{l}"
      | none => "?"
  s!"start={what} calls={showCalls (new.calls.drop old.calls.length)}"

/-- a list of strings: `~` = none, otherwise encoded strings joined by `+` -/
def parseStrs? (s : String) : Option (List (List Nat)) :=
  if s = "~" then some [] else allSome ((s.splitOn "+").map parseStr?)

/-- one (abstracted) backend answer: N(one) D(efault) F(alsy) T(ruthy) X(raised) K<members> -/
def parseAns? (s : String) : Option Ans :=
  if s = "N" then some .none_ else if s = "D" then some .dflt else if s = "F" then some .falsy
  else if s = "T" then some .truthy else if s = "X" then some .raised
  else if s = "K" then some (.keys [])
  else if s.startsWith "K" then (parseStrs? (s.drop 1).toString).map .keys
  else none

def parseAnsList? (s : String) : Option (List Ans) :=
  if s = "~" then some [] else allSome ((s.splitOn ",").map parseAns?)

/-- `<call index>:<invocation>/<invocation>...`, an invocation = the tags of its keys joined by `+` -/
def parseCbEntry? (s : String) : Option (Nat × List (List (List Nat))) :=
  match s.splitOn ":" with
  | [i, invs] => do
    let i ← i.toNat?
    let invs ← allSome ((invs.splitOn "/").map parseStrs?)
    pure (i, invs)
  | _ => none

def parseCb? (s : String) : Option (List (Nat × List (List (List Nat)))) :=
  if s = "~" then some [] else allSome ((s.splitOn ";").map parseCbEntry?)

def mkEnv (ans : List Ans) (cb : List (Nat × List (List (List Nat)))) : Env :=
  ⟨fun n => ans.getD n .none_, fun n => ((cb.find? fun x => x.1 == n).map fun x => x.2).getD []⟩

def parseComp? (name : String) (keys tags : List (List Nat)) : Option Comp :=
  match name, keys with
  | "set_tags", [k] => some (.setTagged k tags)
  | "incr_tags", [k] => some (.incrTagged k tags)
  | "get_or_set", [k] => some (.getOrSet k)
  | "delete_tags", [] => some (.deleteTags tags 8)
  | "lock", [k] => some (.lock k false 64)
  | "lock_wait", [k] => some (.lock k true 64)
  | "invalidate", [k] => some (.invalidate k)
  | n, ks =>
    if n.startsWith "one:" then
      let cmd := (n.drop 4).toString
      match cmd, ks with
      | "get_many", ks => some (.one (.getMany ks))
      | "set_many", ks => some (.one (.setMany ks))
      | "delete_many", ks => some (.one (.deleteMany ks))
      | "clear", [] => some (.one .clear)
      | "get_keys_count", [] => some (.one .keysCount)
      | c, [k] => (parseCmd? c).map fun c => .one (.keyed c k)
      | _, _ => none
    else none

def showOut : POut → String
  | .ret _ => "ret"
  | .locked => "locked"
  | .notConfigured => "NC"
  | .raised => "raised"
  | .outOfFuel => "fuel"

def seqOf : List PEv → List String
  | [] => []
  | .sub _ calls _ :: r => calls.map showBCall ++ seqOf r
  | .body :: r => "B" :: seqOf r

def showSeq (l : List String) : String := if l.isEmpty then "-" else ";".intercalate l

def parseTx? (s : String) : Option Bool :=
  if s = "0" then some false else if s = "1" then some true else none

def step (st : St) (line : String) : St × String :=
  match words line with
  | ["case"] => (St.fresh, "ok")
  | ["cmds"] => (st, ",".intercalate (Cmd.all.map Cmd.name))
  | ["reg", p, b] =>
    -- `cache.setup(url, prefix=p)` by task 0 followed by `await backend.init()`
    match parseStr? p, b.toNat? with
    | some p, some b => ((st.hop (.setup 0 p b false)).1.hop (.initB b))
    | _, _ => (st, "bad-op")
  | ["setup", c, p, b, dis, lazy_] =>
    -- `cache.setup(url, prefix=p, disable=dis)` by task c; lazy=0: followed by `await backend.init()`
    match c.toNat?, parseStr? p, b.toNat?, parseTx? dis, parseTx? lazy_ with
    | some c, some p, some b, some dis, some lazy_ =>
      let st' := (st.hop (.setup c p b dis)).1
      if lazy_ then (st', "ok") else st'.hop (.initB b)
    | _, _, _, _, _ => (st, "bad-op")
  | ["inv", c, on] =>
    match c.toNat?, parseTx? on with
    | some c, some on => st.hop (if on then .invEnter c else .invExit c)
    | _, _ => (st, "bad-op")
  | ["stack"] => (st, "stack=" ++ ",".intercalate ((chainOf defaultMws).map fun m =>
      match m with
      | .autoInit => "auto_init" | .invalidate => "invalidate" | .callbacks => "callbacks" | .disable => "disable"))
  | ["sorted"] => (st, "sorted=" ++ ",".intercalate (st.t.sorted.map showStr))
  | ["route", k] =>
    match parseStr? k with
    | some k => (st, s!"model={showOptNat (st.t.getBackend k)} spec={showOptNat (specRoute st.t k)}")
    | none => (st, "bad-op")
  | ["fork", p, c] =>
    match p.toNat?, c.toNat? with
    | some p, some c => st.hop (.ctl (.fork p c))
    | _, _ => (st, "bad-op")
  | ["dec", c, key, n] =>
    -- n calls of a function decorated with @cache (fresh decorator state)
    match c.toNat?, parseStr? key, n.toNat? with
    | some c, some key, some n =>
      match decoratedCalls st.t st.w c key n DecSt.init with
      | none => (st, "NC")
      | some d => (st, s!"execs={d.execs} calls={showCalls d.calls}")
    | _, _, _ => (st, "bad-op")
  | ["cdef", fid, prot] =>
    match fid.toNat?, parseTx? prot with
    | some fid, some prot => (st.setFn fid prot CSt.init, "ok")
    | _, _ => (st, "bad-op")
  | ["cstart", fid, call, c, key] =>
    match fid.toNat?, call.toNat?, c.toNat?, parseStr? key with
    | some fid, some call, some c, some key =>
      match st.fn? fid with
      | none => (st, "bad-op")
      | some (prot, cs) =>
        let cs' := cstart st.t prot st.w cs call c key
        (st.setFn fid prot cs', showStart cs cs')
    | _, _, _, _ => (st, "bad-op")
  | ["cfin", fid, call] =>
    match fid.toNat?, call.toNat? with
    | some fid, some call =>
      match st.fn? fid with
      | none => (st, "bad-op")
      | some (prot, cs) =>
        let cs' := cfinish cs call
        (st.setFn fid prot cs', showDelta cs cs')
    | _, _ => (st, "bad-op")
  | ["cdrain", fid] =>
    match fid.toNat? with
    | some fid =>
      match st.fn? fid with
      | none => (st, "bad-op")
      | some (prot, cs) =>
        let cs' := cdrain cs
        (st.setFn fid prot cs', showDelta cs cs' ++ s!" left={cs'.flights.length} execs={cs'.execs}")
    | none => (st, "bad-op")
  | ["disable", c, p, cmds] =>
    match c.toNat?, parseStr? p, parseCmds? cmds with
    | some c, some p, some cmds => st.hop (.ctl (.disable c cmds p))
    | _, _, _ => (st, "bad-op")
  | ["enable", c, p, cmds] =>
    match c.toNat?, parseStr? p, parseCmds? cmds with
    | some c, some p, some cmds => st.hop (.ctl (.enable c cmds p))
    | _, _, _ => (st, "bad-op")
  | ["exitdis", c, p, cmds] =>
    match c.toNat?, parseStr? p, parseCmds? cmds with
    | some c, some p, some cmds => st.hop (.ctl (.exitDisabling c cmds p))
    | _, _, _ => (st, "bad-op")
  | ["isdis", c, p, cmds] =>
    match c.toNat?, parseStr? p, parseCmds? cmds with
    | some c, some p, some cmds =>
      match facadeIsDisable st.t st.w c cmds p with
      | none => (st, "NC")
      | some b => (st, showBool b)
    | _, _, _ => (st, "bad-op")
  | ["isfull", c] =>
    match c.toNat? with
    | some c => (st, showBool (facadeFullDisable st.t st.w c))
    | none => (st, "bad-op")
  | "cmd" :: c :: tx :: name :: args =>
    match c.toNat?, parseTx? tx, parseFCmd? name args with
    | some c, some tx, some f =>
      let r := hstep st.s (.cmd c tx f)
      match r.2 with
      | .cmd none => ({ st with s := r.1 }, "NC")
      | .cmd (some (res, cs)) => ({ st with s := r.1 }, s!"res={showRes res} calls={showBCalls cs}")
      | _ => (st, "bad-op")
    | _, _, _ => (st, "bad-op")
  | ["comp", c, tx, name, keys, tags, ans, cb] =>
    -- a composite command of the facade; `ans` / `cb` describe what the backends did (see `mkEnv`)
    match c.toNat?, parseTx? tx, parseStrs? keys, parseStrs? tags, parseAnsList? ans, parseCb? cb with
    | some c, some tx, some keys, some tags, some ans, some cb =>
      match parseComp? name keys tags with
      | none => (st, "bad-op")
      | some cm =>
        let r := compStep st.s c tx (mkEnv ans cb) cm
        ({ st with s := r.1 },
          s!"out={showOut r.2.2} seq={showSeq (seqOf r.2.1)} cbs={showCalls (PEv.cbcalls r.2.1)}")
    | _, _, _, _, _, _ => (st, "bad-op")
  | _ => (st, "bad-op")

def main : IO Unit := mainLoop step St.fresh
