/- placeholder driver for C17: replaced when the check for C17 is built -/
def main : IO Unit := IO.println "not-built"
