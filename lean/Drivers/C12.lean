/- placeholder driver for C12: replaced when the check for C12 is built -/
def main : IO Unit := IO.println "not-built"
