import CashewsVerif.Driver.Proto
import CashewsVerif.Model.Tags
/- Driver for C12: runs tagged command histories on the `Tags` model.

  case <batch> <nkeys> <reg>      reg = `-` or `k:t+t;k:t;...` (what `get_key_tags` yields per key)
  set K V TTL COND TAGS | incr K BY TTL TAGS | call K V TTL TAGS      TAGS = `-` or `t+t`
  get K | exists K | delete K | delmany K.. | delmatch K.. | deltags T.. | adv N | purge
  early K LK X TTL E TAGS RUN | soft K X TTL S TAGS RUN | hit K KC X TTL TAGS CACHE_HITS UPDATE_AFTER RUN | scall K V TTL TAGS RUN
                                  RUN = `D A AR`: ticks the body takes, condition accepts a computed result (0/1), a re-written one (0/1)
                                  (a call of a function decorated with early / soft / hit: `Tags.earlyCall`, `softCall`,
                                   `hitCall` decide from the model state which wrapper commands the decorator issues;
                                   X = number of the token the body returns, LK / KC = lock / counter key)
  reg <reg>                       (a late register_tag: the registry's table from now on; the state is kept)
  dump                            (debugging only)

Answer: `model=<out>`; for `deltags` additionally the ghost verdict of the property on the state before
the command: `die=` keys whose latest write carried one of the tags, `stay=` keys that carried none of
them since their last explicit deletion. -/
open CashewsVerif CashewsVerif.Proto CashewsVerif.Tags

structure DSt where
  cfg : Cfg
  st : St

def parseTags? (s : String) : Option (List Nat) :=
  if s = "-" then some [] else allSome ((s.splitOn "+").map String.toNat?)

def parseReg? (s : String) : Option (List (Nat × List Nat)) :=
  if s = "-" then some []
  else allSome ((s.splitOn ";").map fun ent =>
    match ent.splitOn ":" with
    | [k, ts] => do pure ((← k.toNat?), (← parseTags? ts))
    | _ => none)

def regFun (tbl : List (Nat × List Nat)) (k : Nat) : List Nat :=
  match tbl.find? (·.1 = k) with
  | some (_, ts) => ts
  | none => []

def parseNats? (ws : List String) : Option (List Nat) := allSome (ws.map String.toNat?)

def parseOp? : List String → Option TOp
  | ["set", k, v, ttl, c, tags] => do
    pure (.set (← k.toNat?) (← parseVal? v) (← parseTtl? ttl) (← parseCond? c) (← parseTags? tags))
  | ["incr", k, b, ttl, tags] => do pure (.incr (← k.toNat?) (← b.toInt?) (← parseTtl? ttl) (← parseTags? tags))
  | ["call", k, v, ttl, tags] => do pure (.call (← k.toNat?) (← parseVal? v) (← parseTtl? ttl) (← parseTags? tags))
  | ["get", k] => do pure (.get (← k.toNat?))
  | ["exists", k] => do pure (.exists_ (← k.toNat?))
  | ["delete", k] => do pure (.delete (← k.toNat?))
  | "delmany" :: ks => do pure (.deleteMany (← parseNats? ks))
  | "delmatch" :: ks => do pure (.deleteMatch (← parseNats? ks))
  | "deltags" :: ts => do pure (.deleteTags (← parseNats? ts))
  | ["adv", dt] => do pure (.adv (← dt.toNat?))
  | ["purge"] => some .purge
  | _ => none

/-- decorated calls of the re-writing strategies: the commands they issue in state `s`, and the caller's answer -/
def parseBool? (s : String) : Option Bool := if s = "1" then some true else if s = "0" then some false else none

/-- `D A AR`: ticks the body takes, does the condition accept a computed / a re-written result -/
def parseRun? (d a ar : String) : Option Run := do pure ⟨(← d.toNat?), (← parseBool? a), (← parseBool? ar)⟩

def parseDecor? (cfg : Cfg) (s : St) : List String → Option (List TOp × Out)
  | ["early", k, lk, x, ttl, e, tags, d, a, ar] => do
    pure (earlyCall cfg s (← k.toNat?) (← lk.toNat?) (← x.toNat?) (← parseTtl? ttl) (← e.toNat?) (← parseTags? tags) (← parseRun? d a ar))
  | ["soft", k, x, ttl, e, tags, d, a, ar] => do
    pure (softCall cfg s (← k.toNat?) (← x.toNat?) (← parseTtl? ttl) (← e.toNat?) (← parseTags? tags) (← parseRun? d a ar))
  | ["hit", k, kc, x, ttl, tags, ch, ua, d, a, ar] => do
    pure (hitCall cfg s (← k.toNat?) (← kc.toNat?) (← x.toNat?) (← parseTtl? ttl) (← parseTags? tags) (← ch.toNat?) (← ua.toNat?) (← parseRun? d a ar))
  | ["scall", k, v, ttl, tags, d, a, ar] => do
    pure (simpleCall cfg s (← k.toNat?) (← parseVal? v) (← parseTtl? ttl) (← parseTags? tags) (← parseRun? d a ar))
  | _ => none

def showNats (ks : List Nat) : String := ",".intercalate (ks.map toString)

def showDl : Option Nat → String
  | none => "-"
  | some d => toString d

def dump (d : DSt) : String :=
  let kvs := d.cfg.keys.filterMap fun k => (d.st.kv k).map fun e => s!"{k}={showVal e.val}@{showDl e.dl}"
  let tss := (List.range 16).filterMap fun t => (d.st.ts t).map fun e => s!"{t}={showVal e.val}@{showDl e.dl}"
  s!"now={d.st.now} kv[{" ".intercalate kvs}] ts[{" ".intercalate tss}]"

def step' (d : DSt) (line : String) : DSt × String :=
  match words line with
  | ["case", batch, nkeys, reg] =>
    match batch.toNat?, nkeys.toNat?, parseReg? reg with
    | some b, some n, some tbl =>
      ({ cfg := { tagOf := regFun tbl, batch := b, keys := List.range n }, st := Tags.init }, "ok")
    | _, _, _ => (d, "bad-op")
  | ["reg", reg] =>
    -- a register_tag call made while the cache is in use: from now on `get_key_tags` answers by the new table
    match parseReg? reg with
    | some tbl => ({ d with cfg := { d.cfg with tagOf := regFun tbl } }, "model=U")
    | none => (d, "bad-op")
  | ["dump"] => (d, dump d)
  | ws =>
    match parseOp? ws with
    | none =>
      match parseDecor? d.cfg d.st ws with
      | some (ops, out) => ({ d with st := Tags.exec d.cfg d.st ops }, s!"model={showOut out}")
      | none => (d, "bad-op")
    | some op =>
      let r := Tags.step d.cfg d.st op
      let extra := match op with
        | .deleteTags tl =>
          let die := d.cfg.keys.filter fun k => tl.any fun t => (d.st.last k).contains t
          let stay := d.cfg.keys.filter fun k => tl.all fun t => !(d.st.since k).contains t
          s!" die={showNats die} stay={showNats stay}"
        | _ => ""
      ({ d with st := r.1 }, s!"model={showOut r.2}{extra}")

def main : IO Unit :=
  mainLoop step' { cfg := { tagOf := fun _ => [], batch := 100, keys := [] }, st := Tags.init }
