import CashewsVerif.Driver.SerialDrv
/- Driver for C09 (serialization round trip): the shared serializer protocol of `Driver/SerialDrv.lean`
   over the model `Model/Serial.lean`. -/
def main : IO Unit := CashewsVerif.Proto.mainLoop CashewsVerif.SerialDrv.step ()
