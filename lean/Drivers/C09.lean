/- placeholder driver for C09: replaced when the check for C09 is built -/
def main : IO Unit := IO.println "not-built"
