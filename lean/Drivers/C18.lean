/- placeholder driver for C18: replaced when the check for C18 is built -/
def main : IO Unit := IO.println "not-built"
