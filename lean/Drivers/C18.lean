import CashewsVerif.Driver.Proto
import CashewsVerif.Model.Bits
import CashewsVerif.Model.Indexes
import CashewsVerif.Model.Bloom
import CashewsVerif.Spec.Counters
/-
Driver for C18.  One request line → one answer line.

stateless (array given as a decimal integer):
  get A I W                → v=N
  set A I V W              → a=N
  incr A I W BY            → a=N v=N                      (v = field I afterwards)
history on one key of the TTL store at a fixed width (model `Bits.tstep` - lazy deletion of a run-out
entry - and ideal eagerly expiring counter array `Counters.tstep` side by side; time in ticks):
  bits W                   → ok                           (key absent, now = 0)
  getbits L                → model=L spec=L               (L = comma list, `-` = empty)
  incrbits BY L            → model=L spec=L
  expire T                 → model=- spec=-               (`expire(key, T ticks)`)
  del                      → model=B spec=B               (B = 1/0: what `delete` answered)
  touch                    → model=B spec=B               (`exists(key)`)
  adv D                    → model=- spec=-               (D ticks pass)
  val                      → a=N stored=T|F               (the array the key logically holds; is an entry physically stored)
history over SEVERAL keys of the TTL store (model `Bits.mstep` and ideal per-key arrays `Counters.mstep` side by side):
  mbits W                  → ok                           (every key absent, now = 0)
  on K getbits L | on K incrbits BY L | on K expire T | on K del | on K touch   → model=L spec=L
  madv D                   → model=- spec=-
  copy SRC DST T           → model=B spec=B               (`v = get(SRC); if v is not None: set(DST, v, expire=T ticks)`)
index derivation (hash values are DATA supplied by the harness: for algorithm a, the values of
`algorithms[a](f"{key}_{j}".encode())` for j = 0 .. K+FUEL-1; crc32 stays uninterpreted):
  idx REG KEYHEX K M FUEL T0;T1;…   → assert | nofuel | S=L re=MAXREPROBES   (stores S in register REG)
Bloom filter (index lists are `L` or `$REG`); the filter's key lives in the same TTL store:
  bloom                    → ok
  badd R L                 → ok                           (R = T/F: result of the wrapped function)
  bquery CHK UNDER L       → ans=T|F calls=T|F
  bqueryoff UNDER          → ans=T|F calls=T              (`get_bits` answered None: the wrapped function is asked, the filter untouched)
  bexpire T | bdel | btouch | badv D → ok                 (commands on the filter's key, passage of time)
  dual                     → ok
  dcall NOCOLL UNDER LT LF → ans=T|F calls=T|F
-/
open CashewsVerif CashewsVerif.Proto

structure St where
  w : Nat := 1
  t : Bits.TState := ⟨0, none⟩
  c : Counters.TCounters := Counters.fresh 0
  filt : Bits.TState := ⟨0, none⟩
  mm : Bits.MState := fun _ => ⟨0, none⟩
  mc : Counters.MCounters := fun _ => Counters.fresh 0
  dual : Bloom.Dual := ⟨0, 0⟩
  regs : List (String × List Nat) := []

def parseList? (s : String) : Option (List Nat) :=
  if s = "-" then some [] else allSome ((s.splitOn ",").map String.toNat?)

def showList (l : List Nat) : String :=
  if l.isEmpty then "-" else ",".intercalate (l.map toString)

def parseBool? (s : String) : Option Bool :=
  if s = "T" then some true else if s = "F" then some false else none

def showBool (b : Bool) : String := if b then "T" else "F"

def hexVal? (c : Char) : Option Nat :=
  if '0' ≤ c ∧ c ≤ '9' then some (c.toNat - '0'.toNat)
  else if 'a' ≤ c ∧ c ≤ 'f' then some (c.toNat - 'a'.toNat + 10)
  else none

def hexBytes? : List Char → Option (List UInt8)
  | [] => some []
  | [_] => none
  | h :: l :: rest => do
    let x ← hexVal? h
    let y ← hexVal? l
    let r ← hexBytes? rest
    pure ((x * 16 + y).toUInt8 :: r)

/-- `-` = the empty key -/
def parseKey? (s : String) : Option (List UInt8) :=
  if s = "-" then some [] else hexBytes? s.toList

def lookupBytes (t : List (List UInt8 × Nat)) (bs : List UInt8) : Nat :=
  match t.find? (fun p => p.1 == bs) with
  | some p => p.2
  | none => 0   -- never reached: the table covers every probe the model can make (`indexes_depend_only_on_probes`)

def idxArg? (st : St) (s : String) : Option (List Nat) :=
  if s.startsWith "$" then (st.regs.find? (fun p => p.1 == s.drop 1)).map (·.2) else parseList? s

def doIdx (st : St) (reg key k m fuel tabs : String) : St × String :=
  match parseKey? key, k.toNat?, m.toNat?, fuel.toNat?, allSome ((tabs.splitOn ";").map parseList?) with
  | some key, some k, some m, some fuel, some tabs =>
    if tabs.isEmpty ∨ tabs.any (fun t => t.length ≠ k + fuel) then (st, "bad-op")
    else if m < k then (st, "assert")       -- `assert max_index >= number_of_buckets`
    else
      let nalg := tabs.length
      let tables := tabs.map fun t => (List.range (k + fuel)).zip t |>.map fun p => (Indexes.probeBytes key p.1, p.2)
      let hash : Nat → List UInt8 → Nat := fun a bs => lookupBytes (tables.getD a []) bs
      match Indexes.getIndexes hash nalg key k m fuel with
      | none => (st, "nofuel")
      | some S =>
        let re := (List.range k).foldl (fun mx b => max mx (Indexes.reprobes hash nalg key m fuel S b)) 0
        ({ st with regs := (reg, S) :: st.regs.filter (fun p => p.1 != reg) }, s!"S={showList S} re={re}")
  | _, _, _, _, _ => (st, "bad-op")

/-- one command on the history key: model and ideal array side by side -/
def tcmd (st : St) (op : Bits.TOp) : St × String :=
  let r := Bits.tstep st.w st.t op
  let r' := Counters.tstep st.w st.c op
  ({ st with t := r.1, c := r'.1 }, s!"model={showList r.2} spec={showList r'.2}")

/-- one command on the several-key store: model and ideal arrays side by side -/
def mcmd (st : St) (op : Bits.MOp) : St × String :=
  let r := Bits.mstep st.w st.mm op
  let r' := Counters.mstep st.w st.mc op
  ({ st with mm := r.1, mc := r'.1 }, s!"model={showList r.2} spec={showList r'.2}")

def parseTOp? : List String → Option Bits.TOp
  | ["getbits", l] => (parseList? l).map .getBits
  | ["incrbits", b, l] => do
    let b ← b.toInt?
    let l ← parseList? l
    pure (.incrBits l b)
  | ["expire", t] => t.toNat?.map .expire
  | ["del"] => some .delete
  | ["touch"] => some .touch
  | _ => none

def step (st : St) (line : String) : St × String :=
  match words line with
  | ["get", a, i, w] =>
    match a.toNat?, i.toNat?, w.toNat? with
    | some a, some i, some w => (st, s!"v={Bits.get a i w}")
    | _, _, _ => (st, "bad-op")
  | ["set", a, i, v, w] =>
    match a.toNat?, i.toNat?, v.toNat?, w.toNat? with
    | some a, some i, some v, some w => (st, s!"a={Bits.set a i v w}")
    | _, _, _, _ => (st, "bad-op")
  | ["incr", a, i, w, b] =>
    match a.toNat?, i.toNat?, w.toNat?, b.toInt? with
    | some a, some i, some w, some b =>
      let a' := Bits.incr a i w b
      (st, s!"a={a'} v={Bits.get a' i w}")
    | _, _, _, _ => (st, "bad-op")
  | ["bits", w] =>
    match w.toNat? with
    | some w => ({ st with w := w, t := ⟨0, none⟩, c := Counters.fresh 0 }, "ok")
    | none => (st, "bad-op")
  | ["getbits", l] =>
    match parseList? l with
    | some l => tcmd st (.getBits l)
    | none => (st, "bad-op")
  | ["incrbits", b, l] =>
    match b.toInt?, parseList? l with
    | some b, some l => tcmd st (.incrBits l b)
    | _, _ => (st, "bad-op")
  | ["expire", t] =>
    match t.toNat? with
    | some t => tcmd st (.expire t)
    | none => (st, "bad-op")
  | ["del"] => tcmd st .delete
  | ["touch"] => tcmd st .touch
  | ["adv", d] =>
    match d.toNat? with
    | some d => tcmd st (.adv d)
    | none => (st, "bad-op")
  | ["mbits", w] =>
    match w.toNat? with
    | some w => ({ st with w := w, mm := fun _ => ⟨0, none⟩, mc := fun _ => Counters.fresh 0 }, "ok")
    | none => (st, "bad-op")
  | "on" :: k :: rest =>
    match k.toNat?, parseTOp? rest with
    | some k, some op => mcmd st (.on k op)
    | _, _ => (st, "bad-op")
  | ["madv", d] =>
    match d.toNat? with
    | some d => mcmd st (.adv d)
    | none => (st, "bad-op")
  | ["copy", a, b, t] =>
    match a.toNat?, b.toNat?, t.toNat? with
    | some a, some b, some t => mcmd st (.copy a b t)
    | _, _, _ => (st, "bad-op")
  | ["val"] => (st, s!"a={(st.t.view.map (·.a)).getD 0} stored={showBool st.t.slot.isSome}")
  | ["idx", reg, key, k, m, fuel, tabs] => doIdx st reg key k m fuel tabs
  | ["bloom"] => ({ st with filt := ⟨0, none⟩ }, "ok")
  | ["badd", r, l] =>
    match parseBool? r, idxArg? st l with
    | some r, some l => ({ st with filt := Bloom.fstep st.filt (.add l r) }, "ok")
    | _, _ => (st, "bad-op")
  | ["bquery", chk, under, l] =>
    match parseBool? chk, parseBool? under, idxArg? st l with
    | some chk, some under, some l =>
      ({ st with filt := Bloom.fstep st.filt (.query l) },
        s!"ans={showBool (Bloom.tquery st.filt l chk under)} calls={showBool (Bloom.tqueryCalls st.filt l chk)}")
    | _, _, _ => (st, "bad-op")
  | ["bqueryoff", under] =>
    match parseBool? under with
    | some under => (st, s!"ans={showBool (Bloom.queryOff under).1} calls={showBool (Bloom.queryOff under).2}")
    | none => (st, "bad-op")
  | ["bexpire", t] =>
    match t.toNat? with
    | some t => ({ st with filt := Bloom.fstep st.filt (.expire t) }, "ok")
    | none => (st, "bad-op")
  | ["bdel"] => ({ st with filt := Bloom.fstep st.filt .delete }, "ok")
  | ["btouch"] => ({ st with filt := Bloom.fstep st.filt .touch }, "ok")
  | ["badv", d] =>
    match d.toNat? with
    | some d => ({ st with filt := Bloom.fstep st.filt (.adv d) }, "ok")
    | none => (st, "bad-op")
  | ["dual"] => ({ st with dual := ⟨0, 0⟩ }, "ok")
  | ["dcall", nc, under, lt, lf] =>
    match parseBool? nc, parseBool? under, idxArg? st lt, idxArg? st lf with
    | some nc, some under, some lt, some lf =>
      let r := Bloom.dualCall st.dual lt lf nc under
      ({ st with dual := r.1 }, s!"ans={showBool r.2.1} calls={showBool r.2.2}")
    | _, _, _, _ => (st, "bad-op")
  | _ => (st, "bad-op")

def main : IO Unit := mainLoop step {}
