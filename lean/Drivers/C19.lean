/- placeholder driver for C19: replaced when the check for C19 is built -/
def main : IO Unit := IO.println "not-built"
