import CashewsVerif.Driver.RedisProto
import CashewsVerif.Model.RedisLock
/-
Driver for C19 (interactive: one answer line per request line, flushed).

  reset <suppress 0|1>          new stub server, new model world, new reference
  enc <hex>…                    payloads the serializer decodes (parameter `isEnc`)
  down <a>-<b>…                 client-call indices [a,b) at which the connection is down (model world)
  srv <tok>…                    a wire-level command array from the stub redis package → reply (the Lean model IS the server)
  srvadv <ms>                   time passes on the stub's server
  op <cashews command>          model backend over its own server copy, and the reference:  model=… spec=… wire=… calls=…
  envcall <tok>…                a client call made by SOMEBODY ELSE (the holder of a lock) on the model world - the `env` of the lock
                                theorems: the server executes it (unless the connection is down at that call), the call counter moves on
  lockwait <hexkey> <tok> <ms> <wait 0|1> <fuel>
                                `_BackendInterface.lock()` of a caller on the model world, nobody else acting, at most <fuel> small steps:
                                out=acquired|unprotected|lockedError|raise|raiseOther|waiting wire=… calls=…
  txlockwait <hexkey> <tok> <ms> <rounds>
                                `LockTransactionBackend._lock_updates`:  out=acquired|lockedError|raise|raiseOther wire=… calls=…
  dump                          visible keyspace of stub server / model server / reference
  shas                          the SHA1s the script models are pinned to
-/
open CashewsVerif CashewsVerif.Redis CashewsVerif.Redis.Proto

structure St where
  stub : Srv
  world : World
  ref : KS
  suppress : Bool
  encs : List String
  downs : List (Nat × Nat)

def St.init : St := { stub := Srv.init, world := World.init, ref := KS.init, suppress := true, encs := [], downs := [] }

def St.cfg (st : St) : Cfg :=
  { suppress := st.suppress,
    down := fun n => st.downs.any fun ab => ab.1 ≤ n && n < ab.2,
    isEnc := fun h => st.encs.contains h }

def parseIv? (s : String) : Option (Nat × Nat) :=
  match s.splitOn "-" with
  | [a, b] => do pure (← a.toNat?, ← b.toNat?)
  | _ => none

/-- reading a bit array (or any non-text string) as text is outside the model -/
def touchesBits (s : Srv) : Cmd → Bool
  | .get k => match s.ks.find k with | some ⟨.bits _, _⟩ => true | _ => false
  | .mget ks => ks.any fun k => match s.ks.find k with | some ⟨.bits _, _⟩ => true | _ => false
  | .evalsha _ k _ => match s.ks.find k with | some ⟨.bits _, _⟩ => true | _ => false
  | .incrby k _ => match s.ks.find k with | some ⟨.bits _, _⟩ => true | _ => false
  | .bitfield k _ => match s.ks.find k with | some ⟨.str _, _⟩ => true | _ => false
  | _ => false

def step (st : St) (line : String) : St × String :=
  match words line with
  | ["reset", s] => ({ St.init with suppress := s == "1" }, "ok")
  | "enc" :: hs => ({ st with encs := hs ++ st.encs }, "ok")
  | "down" :: ivs =>
    match allSome (ivs.map parseIv?) with
    | some l => ({ st with downs := l }, "ok")
    | none => (st, "bad-op")
  | "srv" :: toks =>
    match parseWire? toks with
    | none => (st, "bad-op")
    | some c =>
      if touchesBits st.stub c then (st, "unmodelled")
      else
        let (s', r) := st.stub.exec c
        ({ st with stub := s' }, showReply r)
  | ["srvadv", ms] =>
    match ms.toNat? with
    | some n => ({ st with stub := st.stub.adv n }, "ok")
    | none => (st, "bad-op")
  | "op" :: ws =>
    match parseOp? ws with
    | none => (st, "bad-op")
    | some op =>
      let cfg := st.cfg
      let w0 := { st.world with log := [] }
      let (w', o) := Redis.step cfg w0 op
      let idx := (List.range (w'.calls - w0.calls)).map (· + w0.calls)
      let anyDown := idx.any cfg.down
      let allDown := !idx.isEmpty && idx.all cfg.down
      let (t', o') := Ref.step cfg st.ref op
      -- after a connection fault the reference restarts from the server's actual keyspace
      let ref' := if anyDown then w'.srv.ks else t'
      let spec := if anyDown then "~" else showOut o'
      let b := fun (x : Bool) => if x then "T" else "F"
      ({ st with world := w', ref := ref' },
        s!"model={showOut o} spec={spec} wire={"|".intercalate (w'.log.map showReq)} calls={w'.calls} anydown={b anyDown} alldown={b allDown} fv={showOut (Ref.failureValue op)}")
  | "envcall" :: toks =>
    match parseWire? toks with
    | none => (st, "bad-op")
    | some c =>
      let w := st.world
      let w' := if st.cfg.down w.calls then { w with calls := w.calls + 1 }
                else { w with calls := w.calls + 1, srv := (w.srv.exec c).1 }
      ({ st with world := w' }, s!"ok calls={w'.calls}")
  | ["lockwait", k, tok, ms, wait, fuel] =>
    match key? k, parseBytes? tok, ms.toNat?, fuel.toNat? with
    | some key, some t, some m, some f =>
      let w0 := { st.world with log := [] }
      let (w', o) := lockRun st.cfg key t m (wait == "1") envId f .atSetLock w0
      let out := match o with
        | none => "waiting"
        | some .acquired => "acquired"
        | some .unprotected => "unprotected"
        | some .lockedError => "lockedError"
        | some .raise => "raise"
        | some .raiseOther => "raiseOther"
      ({ st with world := w' }, s!"out={out} wire={"|".intercalate (w'.log.map showReq)} calls={w'.calls}")
    | _, _, _, _ => (st, "bad-op")
  | ["txlockwait", k, tok, ms, rounds] =>
    match key? k, parseBytes? tok, ms.toNat?, rounds.toNat? with
    | some key, some t, some m, some r =>
      let w0 := { st.world with log := [] }
      let (w', o) := txLockRun st.cfg key t m envId r w0
      let out := match o with
        | .acquired => "acquired"
        | .lockedError => "lockedError"
        | .raise => "raise"
        | .raiseOther => "raiseOther"
      ({ st with world := w' }, s!"out={out} wire={"|".intercalate (w'.log.map showReq)} calls={w'.calls}")
    | _, _, _, _ => (st, "bad-op")
  | ["dump"] => (st, s!"stub={dumpKS st.stub.ks} model={dumpKS st.world.srv.ks} spec={dumpKS st.ref}")
  | ["shas"] => (st, s!"unlock={Script.unlock.sha} incr_expire={Script.incrExpire.sha} incr_slice={Script.incrSlice.sha}")
  | _ => (st, "bad-op")

partial def loop (h : IO.FS.Stream) (out : IO.FS.Stream) (st : St) : IO Unit := do
  let line ← h.getLine
  if line.isEmpty then
    out.flush
    return ()
  let (st', o) := step st line
  out.putStrLn o
  out.flush
  loop h out st'

def main : IO Unit := do
  loop (← IO.getStdin) (← IO.getStdout) St.init
