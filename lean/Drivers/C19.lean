import CashewsVerif.Driver.RedisProto
/-
Driver for C19 (interactive: one answer line per request line, flushed).

  reset <suppress 0|1>          new stub server, new model world, new reference
  enc <hex>…                    payloads the serializer decodes (parameter `isEnc`)
  down <a>-<b>…                 client-call indices [a,b) at which the connection is down (model world)
  srv <tok>…                    a wire-level command array from the stub redis package → reply (the Lean model IS the server)
  srvadv <ms>                   time passes on the stub's server
  op <cashews command>          model backend over its own server copy, and the reference:  model=… spec=… wire=… calls=…
  dump                          visible keyspace of stub server / model server / reference
  shas                          the SHA1s the script models are pinned to
-/
open CashewsVerif CashewsVerif.Redis CashewsVerif.Redis.Proto

structure St where
  stub : Srv
  world : World
  ref : KS
  suppress : Bool
  encs : List String
  downs : List (Nat × Nat)

def St.init : St := { stub := Srv.init, world := World.init, ref := KS.init, suppress := true, encs := [], downs := [] }

def St.cfg (st : St) : Cfg :=
  { suppress := st.suppress,
    down := fun n => st.downs.any fun ab => ab.1 ≤ n && n < ab.2,
    isEnc := fun h => st.encs.contains h }

def parseIv? (s : String) : Option (Nat × Nat) :=
  match s.splitOn "-" with
  | [a, b] => do pure (← a.toNat?, ← b.toNat?)
  | _ => none

/-- reading a bit array (or any non-text string) as text is outside the model -/
def touchesBits (s : Srv) : Cmd → Bool
  | .get k => match s.ks.find k with | some ⟨.bits _, _⟩ => true | _ => false
  | .mget ks => ks.any fun k => match s.ks.find k with | some ⟨.bits _, _⟩ => true | _ => false
  | .evalsha _ k _ => match s.ks.find k with | some ⟨.bits _, _⟩ => true | _ => false
  | .incrby k _ => match s.ks.find k with | some ⟨.bits _, _⟩ => true | _ => false
  | .bitfield k _ => match s.ks.find k with | some ⟨.str _, _⟩ => true | _ => false
  | _ => false

def step (st : St) (line : String) : St × String :=
  match words line with
  | ["reset", s] => ({ St.init with suppress := s == "1" }, "ok")
  | "enc" :: hs => ({ st with encs := hs ++ st.encs }, "ok")
  | "down" :: ivs =>
    match allSome (ivs.map parseIv?) with
    | some l => ({ st with downs := l }, "ok")
    | none => (st, "bad-op")
  | "srv" :: toks =>
    match parseWire? toks with
    | none => (st, "bad-op")
    | some c =>
      if touchesBits st.stub c then (st, "unmodelled")
      else
        let (s', r) := st.stub.exec c
        ({ st with stub := s' }, showReply r)
  | ["srvadv", ms] =>
    match ms.toNat? with
    | some n => ({ st with stub := st.stub.adv n }, "ok")
    | none => (st, "bad-op")
  | "op" :: ws =>
    match parseOp? ws with
    | none => (st, "bad-op")
    | some op =>
      let cfg := st.cfg
      let w0 := { st.world with log := [] }
      let (w', o) := Redis.step cfg w0 op
      let idx := (List.range (w'.calls - w0.calls)).map (· + w0.calls)
      let anyDown := idx.any cfg.down
      let allDown := !idx.isEmpty && idx.all cfg.down
      let (t', o') := Ref.step cfg st.ref op
      -- after a connection fault the reference restarts from the server's actual keyspace
      let ref' := if anyDown then w'.srv.ks else t'
      let spec := if anyDown then "~" else showOut o'
      let b := fun (x : Bool) => if x then "T" else "F"
      ({ st with world := w', ref := ref' },
        s!"model={showOut o} spec={spec} wire={"|".intercalate (w'.log.map showReq)} calls={w'.calls} anydown={b anyDown} alldown={b allDown} fv={showOut (Ref.failureValue op)}")
  | ["dump"] => (st, s!"stub={dumpKS st.stub.ks} model={dumpKS st.world.srv.ks} spec={dumpKS st.ref}")
  | ["shas"] => (st, s!"unlock={Script.unlock.sha} incr_expire={Script.incrExpire.sha} incr_slice={Script.incrSlice.sha}")
  | _ => (st, "bad-op")

partial def loop (h : IO.FS.Stream) (out : IO.FS.Stream) (st : St) : IO Unit := do
  let line ← h.getLine
  if line.isEmpty then
    out.flush
    return ()
  let (st', o) := step st line
  out.putStrLn o
  out.flush
  loop h out st'

def main : IO Unit := do
  loop (← IO.getStdin) (← IO.getStdout) St.init
