/- placeholder driver for C07: replaced when the check for C07 is built -/
def main : IO Unit := IO.println "not-built"
