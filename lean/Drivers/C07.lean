import CashewsVerif.Driver.Proto
import CashewsVerif.Model.SingleFlight
/- Driver for C07: replays a recorded schedule (bursts of call / body-step / cancel actions) on the
single-flight model and prints the observable state after each burst.

  case caching=<0|1> ttl=<ticks> early=<0|1> ettl=<ticks> bg=<0|1> skip=<n> callers=<c,c,..> keys=<k,k,..>   -> ok
       early: the decorator is `early` with early_ttl = ettl ticks, background = bg; skip: suspension points of a script
       that a recalculation does not have (`Cfg.recalcSkip`).  The `recalculations` table is there (`guarded := true`).
  do <item> ...                                              -> en=.. callers=.. keys=.. joined=.. now=.. rec=..
       item:  c<caller>:<key>:<n>:<o>[:a<arg>]                           call (script used if it starts an execution)
                 <o> = r<v> returns v | n<v> returns v, which the cache decorator does not store (shown as R<v> too) | e<cls>.<p> raises class cls with payload p | k<how> the body ends cancelled
                       (how: ignored)
                 <key> is the rendered cache key; a<arg> = the argument the key template leaves out (`Act.callWith`)
              x<c>                                                       the body of script <c> passes a suspension point -
                                                                         in execution <c> or in the recalculation it started
                                                                         (`Act.ofGate`, resolved in the state it is applied to)
              k<caller>                                                  cancel
              t<d>                                                       d ticks of time pass
  callers=  per declared caller  N | W | R<v> | E<cls>.<p> | K (CancelledError of an execution that ended cancelled)
                                 | C (the caller itself was cancelled)
  now=      the model's clock (ticks)
  rec=      per declared key     the recalculation of the key that is running, or -
  keys=     per declared key     <key>:<executions in flight>:<bodies running>:<bodies started>:<executions created>
-/
open CashewsVerif CashewsVerif.Proto CashewsVerif.SingleFlight

structure St where
  s : SfSt
  callers : List Nat
  keys : List Nat

def dropS (s : String) (n : Nat) : String := String.ofList (s.toList.drop n)

def parseNats? (s : String) : Option (List Nat) :=
  if s = "" then some [] else allSome ((s.splitOn ",").map String.toNat?)

def parseOutcome? (s : String) : Option Outcome :=
  if s.startsWith "r" then (dropS s 1).toNat?.map Outcome.ret
  else if s.startsWith "n" then (dropS s 1).toNat?.map Outcome.retNoStore
  else if s.startsWith "e" then
    match (dropS s 1).splitOn "." with
    | [c, p] => do pure (Outcome.exc (← c.toNat?) (← p.toNat?))
    | _ => none
  else if s.startsWith "k" then (dropS s 1).toNat?.map fun _ => Outcome.cancelled
  else none

/-- an item of a burst: an action, or the name of a parked body (resolved by `Act.ofGate` when it is applied) -/
inductive Item where
  | act (a : Act)
  | gate (c : Nat)

def Item.resolve (s : SfSt) : Item → Act
  | .act a => a
  | .gate c => Act.ofGate s c

def parseItem? (w : String) : Option Item :=
  if w.startsWith "c" then
    match (dropS w 1).splitOn ":" with
    | [c, k, n, o] => do pure (.act (.call (← c.toNat?) (← k.toNat?) (← n.toNat?) (← parseOutcome? o)))
    | [c, k, n, o, a] =>
      if a.startsWith "a" then do
        pure (.act (.callWith (← c.toNat?) ⟨← k.toNat?, ← (dropS a 1).toNat?⟩ (← n.toNat?) (← parseOutcome? o)))
      else none
    | _ => none
  else if w.startsWith "x" then (dropS w 1).toNat?.map Item.gate
  else if w.startsWith "k" then (dropS w 1).toNat?.map fun c => Item.act (Act.cancel c)
  else if w.startsWith "t" then (dropS w 1).toNat?.map fun d => Item.act (Act.tick d)
  else none

def showCaller (s : SfSt) (c : Nat) : String :=
  match s.callers c with
  | none => "N"
  | some ⟨_, .waiting⟩ => "W"
  | some ⟨_, .got (.ret v)⟩ => s!"R{v}"
  | some ⟨_, .got (.retNoStore v)⟩ => s!"R{v}"
  | some ⟨_, .got (.exc e p)⟩ => s!"E{e}.{p}"
  | some ⟨_, .got .cancelled⟩ => "K"
  | some ⟨_, .cancelled⟩ => "C"

def showJoined (s : SfSt) (c : Nat) : String :=
  match s.callers c with
  | some ⟨some e, _⟩ => toString e
  | _ => "-"

def execsOfKey (s : SfSt) (key : Nat) : Nat :=
  (s.created.filter fun e => match s.execs e with
    | some x => x.key == key
    | none => false).length

def showRec (s : SfSt) (k : Nat) : String :=
  match s.rcreated.find? (recalcRunningB s k) with
  | some r => toString r
  | none => "-"

def showKey (s : SfSt) (k : Nat) : String :=
  s!"{k}:{inFlightCount s k}:{bodyRunningCount s k}:{bodyStarts s k}:{execsOfKey s k}"

/-- apply the items one by one, remembering whether each was enabled -/
def runItems (s : SfSt) : List Item → SfSt × List Bool
  | [] => (s, [])
  | i :: r =>
    let a := i.resolve s
    let en := enabled s a
    let (s', ens) := runItems (step s a) r
    (s', en :: ens)

def fieldOf (pfx : String) (ws : List String) : Option String :=
  (ws.find? (·.startsWith pfx)).map (dropS · pfx.length)

def stepLine (st : St) (line : String) : St × String :=
  match words line with
  | "case" :: ws =>
    match fieldOf "caching=" ws, (fieldOf "ttl=" ws).bind String.toNat?, (fieldOf "callers=" ws).bind parseNats?,
        (fieldOf "keys=" ws).bind parseNats?, fieldOf "early=" ws, (fieldOf "ettl=" ws).bind String.toNat?,
        fieldOf "bg=" ws, (fieldOf "skip=" ws).bind String.toNat? with
    | some b, some ttl, some cs, some ks, some ea, some ettl, some bg, some skip =>
      if (b = "0" ∨ b = "1") ∧ (ea = "0" ∨ ea = "1") ∧ (bg = "0" ∨ bg = "1") then
        ({ s := init { caching := b = "1", ttl := ttl, early := ea = "1", earlyTtl := ettl, background := bg = "1",
                       guarded := true, recalcSkip := skip },
           callers := cs, keys := ks }, "ok")
      else (st, "bad-op")
    | _, _, _, _, _, _, _, _ => (st, "bad-op")
  | "do" :: ws =>
    match allSome (ws.map parseItem?) with
    | none => (st, "bad-op")
    | some items =>
      let (s1, ens) := runItems st.s items
      let s2 := settle s1                      -- = macroStep st.s items (runItems only adds the enabled flags)
      let en := "".intercalate (ens.map fun b => if b then "1" else "0")
      let out := s!"en={en} callers=" ++ ",".intercalate (st.callers.map (showCaller s2))
        ++ " keys=" ++ ";".intercalate (st.keys.map (showKey s2))
        ++ " joined=" ++ ",".intercalate (st.callers.map (showJoined s2)) ++ s!" now={s2.now} rec=" ++ ",".intercalate (st.keys.map (showRec s2))
      ({ st with s := s2 }, out)
  | _ => (st, "bad-op")

def main : IO Unit := mainLoop stepLine { s := init (Cfg.plain false 0), callers := [], keys := [] }
