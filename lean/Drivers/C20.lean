import CashewsVerif.Driver.RedisProto
import CashewsVerif.Model.ClientSide
import CashewsVerif.Model.ClientSidePrefix
/-
Driver for C20 (interactive, one flushed answer line per request line).

  reset <n> [<hexprefix>]       n clients; new stub server (nobody tracking yet), new model (everybody started); the configured
                                `client_side_prefix` (default "cashews:"): the stub server's keys carry it, the model's do not -
                                `sget` / `smatch` / `dump` translate with `addPrefix` / `removePrefix` of Model/ClientSidePrefix.lean
  enc <hex>…                    payloads the serializer decodes
  srv <i> <tok>…                wire command of client i on the stub server → reply; modifications are announced to the tracking clients
  srvadv <ms>                   time passes on the stub server (expiries are announced)
  track <i> / untrack <i>       client i's invalidation connection subscribes / is gone (pending announcements are lost)
  pop <i>                       next announcement for client i:  K<hexkey>,…  |  F  |  none
  qlen                          pending announcements per client (stub)
  sget <hexkey>                 what the stub server holds under addPrefix(key):  v=<value>|-  present=T|F
  smatch <hexpat>               what the stub server holds under the keys matching addPrefix(pattern), keys through removePrefix:
                                ks=<hexkey>,… ps=<hexkey>=<value>,…   (a key that does not start with the prefix is shown as ?<hex>)
  op <command>                  one step of the client-side model → model=<out> q=<pending announcements per client>
                                (`refuse <i>` = a reconnect attempt of the dropped client i that is refused)
  loc <i> <hexkey>…             the model's local copy of client i at this point:  started=T|F loc=<hexkey>=<value>|A,…  (live entries only)
  dump                          stub keyspace (keys through removePrefix, ?<hex> if they do not start with the prefix) / model keyspace
-/
open CashewsVerif CashewsVerif.Redis CashewsVerif.Redis.Proto CashewsVerif.Redis.CS

structure DSt where
  n : Nat
  stub : St
  model : St
  encs : List String
  pfx : String := "cashews:"

def mkSt (encs : List String) (started : Bool) : St :=
  { srv := Srv.init,
    cl := fun _ => { Client.init with started := started, tracking := started },
    isEnc := fun h => encs.contains h }

def DSt.init : DSt := { n := 2, stub := mkSt [] false, model := mkSt [] true, encs := [] }

def client? (n : Nat) (s : String) : Option Nat := s.toNat?.bind fun i => if i < n then some i else none

def parseCOp? (n : Nat) : List String → Option CS.Op
  | ["get", c, k] => do pure (.get (← client? n c) (← key? k))
  | "getmany" :: c :: ks => do pure (.getMany (← client? n c) (← keys? ks))
  | ["getmatch", c, p] => do pure (.getMatch (← client? n c) (← key? p))
  | ["scan", c, p] => do pure (.scan (← client? n c) (← key? p))
  | ["getexpire", c, k] => do pure (.getExpire (← client? n c) (← key? k))
  | ["exists", c, k] => do pure (.exists_ (← client? n c) (← key? k))
  | ["set", c, k, v, ttl, cond] => do
    pure (.set (← client? n c) (← key? k) (← parseCVal? v) (← parseTtl? ttl) (← parseCond? cond))
  | "setmany" :: c :: ttl :: kvs => do pure (.setMany (← client? n c) (← allSome (kvs.map parseKv?)) (← parseTtl? ttl))
  | ["incr", c, k, b, ttl] => do pure (.incr (← client? n c) (← key? k) (← b.toInt?) (← parseTtl? ttl))
  | ["delete", c, k] => do pure (.delete (← client? n c) (← key? k))
  | "delmany" :: c :: ks => do pure (.deleteMany (← client? n c) (← keys? ks))
  | ["delmatch", c, p] => do pure (.deleteMatch (← client? n c) (← key? p))
  | ["expire", c, k, ms] => do pure (.expire (← client? n c) (← key? k) (← ms.toNat?))
  | ["clear", c] => do pure (.clear (← client? n c))
  | ["setlock", c, k, tok, ms] => do pure (.setLock (← client? n c) (← key? k) (← parseBytes? tok) (← ms.toNat?))
  | ["unlock", c, k, tok] => do pure (.unlock (← client? n c) (← key? k) (← parseBytes? tok))
  | ["deliver", c] => do pure (.deliver (← client? n c))
  | ["drop", c] => do pure (.drop (← client? n c))
  | ["reconnect", c] => do pure (.reconnect (← client? n c))
  | ["refuse", c] => do pure (Op.refused (← client? n c))     -- a refused reconnect attempt: the `except` branch again
  | ["adv", dt] => do pure (.adv (← dt.toNat?))
  | _ => none

/-- a key of the stub server as the caller names it: `removePrefix`, checked to be the inverse of `addPrefix` on this key -/
def unpfx (p k : String) : String := if addPrefix p (removePrefix p k) = k then removePrefix p k else "?" ++ k

def dumpStub (p : String) (t : KS) : String :=
  let ks := t.dom.filter t.present
  s!"{t.now}[" ++ " ".intercalate (ks.map fun k =>
    match t.find k with
    | some e => toHex (unpfx p k) ++ ":" ++ showRVal e.val ++ "@" ++ (match e.dl with | some d => toString d | none => "-")
    | none => "?") ++ "]"

def showMsg : Msg → String
  | .flush => "F"
  | .keys ks => "K" ++ ",".intercalate (ks.map toHex)

def qlens (n : Nat) (st : St) : String := ",".intercalate ((List.range n).map fun i => toString (st.cl i).queue.length)

def step (st : DSt) (line : String) : DSt × String :=
  match words line with
  | ["reset", n] =>
    match n.toNat? with
    | some k => ({ n := k, stub := mkSt st.encs false, model := mkSt st.encs true, encs := st.encs, pfx := "cashews:" }, "ok")
    | none => (st, "bad-op")
  | ["reset", n, hp] =>
    match n.toNat?, key? hp with
    | some k, some pf => ({ n := k, stub := mkSt st.encs false, model := mkSt st.encs true, encs := st.encs, pfx := pf }, "ok")
    | _, _ => (st, "bad-op")
  | "enc" :: hs =>
    let encs := hs ++ st.encs
    ({ st with encs := encs, stub := { st.stub with isEnc := fun h => encs.contains h },
               model := { st.model with isEnc := fun h => encs.contains h } }, "ok")
  | "srv" :: i :: toks =>
    match client? st.n i, parseWire? toks with
    | some _, some c =>
      let (s', r) := srvCmd st.stub c
      ({ st with stub := s' }, showReply r)
    | _, _ => (st, "bad-op")
  | ["srvadv", ms] =>
    match ms.toNat? with
    | some d => ({ st with stub := advance st.stub d }, "ok")
    | none => (st, "bad-op")
  | ["track", i] =>
    match client? st.n i with
    | some c => ({ st with stub := { st.stub with cl := upd st.stub.cl c { st.stub.cl c with tracking := true, queue := [] } } }, "ok")
    | none => (st, "bad-op")
  | ["untrack", i] =>
    match client? st.n i with
    | some c => ({ st with stub := { st.stub with cl := upd st.stub.cl c { st.stub.cl c with tracking := false, queue := [] } } }, "ok")
    | none => (st, "bad-op")
  | ["pop", i] =>
    match client? st.n i with
    | some c =>
      match (st.stub.cl c).queue with
      | [] => (st, "none")
      | m :: rest => ({ st with stub := { st.stub with cl := upd st.stub.cl c { st.stub.cl c with queue := rest } } }, showMsg m)
    | none => (st, "bad-op")
  | ["qlen"] => (st, "q=" ++ qlens st.n st.stub)
  | ["sget", k] =>
    match key? k with
    | some key =>
      let wk := addPrefix st.pfx key
      (st, s!"v={showOptCVal (srvValue st.stub wk)} present={if st.stub.srv.ks.present wk then "T" else "F"}")
    | none => (st, "bad-op")
  | ["smatch", p] =>
    match key? p with
    | some pat =>
      let ks := Ref.matching st.stub.srv.ks (addPrefix st.pfx pat)
      (st, showOut (.keys (ks.map (unpfx st.pfx))) ++ " " ++
        showOut (.pairs (ks.filterMap fun k => (srvValue st.stub k).map fun v => (unpfx st.pfx k, v))))
    | none => (st, "bad-op")
  | "op" :: ws =>
    match parseCOp? st.n ws with
    | none => (st, "bad-op")
    | some op =>
      let (m', o) := CS.step st.model op
      ({ st with model := m' }, s!"model={showOut o} q={qlens st.n m'}")
  | "loc" :: i :: ks =>
    match client? st.n i, keys? ks with
    | some c, some keys =>
      let cl := st.model.cl c
      let ents := keys.filterMap fun k =>
        (cl.lfind (now st.model) k).map fun e =>
          toHex k ++ "=" ++ (match e.val with | .val v => showCVal v | .absent => "A")
      (st, s!"started={if cl.started then "T" else "F"} loc={",".intercalate ents}")
    | _, _ => (st, "bad-op")
  | ["dump"] => (st, s!"stub={dumpStub st.pfx st.stub.srv.ks} model={dumpKS st.model.srv.ks}")
  | _ => (st, "bad-op")

partial def loop (h : IO.FS.Stream) (out : IO.FS.Stream) (st : DSt) : IO Unit := do
  let line ← h.getLine
  if line.isEmpty then
    out.flush
    return ()
  let (st', o) := step st line
  out.putStrLn o
  out.flush
  loop h out st'

def main : IO Unit := do
  loop (← IO.getStdin) (← IO.getStdout) DSt.init
