/- placeholder driver for C20: replaced when the check for C20 is built -/
def main : IO Unit := IO.println "not-built"
