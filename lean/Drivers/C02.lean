/- placeholder driver for C02: replaced when the check for C02 is built -/
def main : IO Unit := IO.println "not-built"
