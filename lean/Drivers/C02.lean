import CashewsVerif.Driver.Proto
import CashewsVerif.Model.Decor.Simple
import CashewsVerif.Model.Decor.Iterator
import CashewsVerif.Model.Ttl
/-
Driver for C02: the simple-cache model, the iterator model and the TTL model behind one line protocol.

  simple <cond> <ttl>      start a simple-cache case            -> ok
  script <beh>*            behaviour of execution 0,1,…         -> ok      beh  = (v|n|f<j>|e<c>|e<c>p<payload>|y<c>|y<c>p<payload>)[:<dur>]   (beyond the list: v:0)
  iter <cond> <ttl>        start an iterator case               -> ok
  runs <run>*              body of run 0,1,…                    -> ok      run  = <step>,<step>,…/<findur>  (steps `-` = none); step = beh
  adv <dt>                 time passes                          -> ok
  call <k> [lost|cut]      simple: a call with key k            -> model=<res> hit|run     res = v<n>.<i> | n | f<j> | x<c>.<n> | x<c>p<payload>.<n>
                           lost: protected call whose caller is cancelled while the function runs -> model=lost run (or a hit)
                           cut: unprotected call cancelled as the function starts to work         -> model=lost cut (or a hit)
  it <k> [<consumer>]      iterator: a call with key k          -> model=<res>,<res>,…|- hit|run
                           consumer: absent = drains the stream | t<n> = receives n >= 1 elements, then closes / drops the stream
                           | c<n> = cancelled while the generator works on its step n (after n items; on a hit: drains)
  ttl <ttl>  [<k> <r>]     ttl_to_seconds of a spelling         -> model=<ticks>|E

  cond = all | nn | we:<c>+<c>… | oe:<c>+… | tc:<limit> | fn:<6 letters T F y z X for val,none,falsy,exc0,exc1,exc2>
       | tc:<limit>&<cond>  (time_condition together with a condition)
  ttl  = plain | ck:<plain>,<plain>,… (callable of the key; last repeats) | cr:<plain>×4 (callable of the result kind val,none,falsy,exc)
  plain = i<secs> | f<ticks> | d<ticks> | s<hex of the ascii string>
-/
open CashewsVerif CashewsVerif.Proto CashewsVerif.Decor

def hexVal (c : Char) : Option Nat :=
  if c.isDigit then some (c.toNat - '0'.toNat)
  else if 'a' ≤ c ∧ c ≤ 'f' then some (c.toNat - 'a'.toNat + 10) else none

def unhex : List Char → Option (List Char)
  | [] => some []
  | a :: b :: rest => do
    let x ← hexVal a; let y ← hexVal b; let r ← unhex rest
    pure (Char.ofNat (16 * x + y) :: r)
  | _ => none

def parsePlain? (s : String) : Option Ttl.Plain :=
  match s.toList with
  | 'i' :: r => (String.ofList r).toNat?.map .int
  | 'f' :: r => (String.ofList r).toNat?.map .float
  | 'd' :: r => (String.ofList r).toNat?.map .delta
  | 's' :: r => (unhex r).map .str
  | _ => none

def nthOrLast {α} (d : α) : List α → Nat → α
  | [], _ => d
  | [a], _ => a
  | a :: _, 0 => a
  | _ :: r, n + 1 => nthOrLast d r n

def parseSpelling? (s : String) : Option Ttl.Spelling :=
  if s.startsWith "ck:" then do
    let ps ← allSome (((s.drop 3).toString.splitOn ",").map parsePlain?)
    if ps.isEmpty then none else pure (.callable fun k _ => nthOrLast (.int 0) ps k)
  else if s.startsWith "cr:" then do
    let ps ← allSome (((s.drop 3).toString.splitOn ",").map parsePlain?)
    if ps.length ≠ 4 then none else pure (.callable fun _ r => nthOrLast (.int 0) ps r)
  else (parsePlain? s).map .plain

def resIdx : Res → Nat
  | .val _ _ => 0 | .none => 1 | .falsy _ => 2 | .exc _ _ _ => 3 | .eobj _ _ _ => 3 | .junk => 0

def parseClasses? (s : String) : Option (List Nat) :=
  if s = "" then some [] else allSome ((s.splitOn "+").map String.toNat?)

def parseCondRes? : Char → Option CondRes
  | 'T' => some (.bool true) | 'F' => some (.bool false)
  | 'y' => some (.other true) | 'z' => some (.other false) | 'X' => some .theExc
  | _ => none

def kindIdx : Kind → Nat
  | .val => 0 | .none => 1 | .falsy _ => 2 | .exc c _ => 3 + c | .eobj c _ => 3 + c   -- a callable sees an instance of class c

def parseCnd1? (s : String) : Option Decor.Cond :=
  if s = "all" then some .all
  else if s = "nn" then some .notNone
  else if s.startsWith "we:" then (parseClasses? (s.drop 3).toString).map .withExc
  else if s.startsWith "oe:" then (parseClasses? (s.drop 3).toString).map .onlyExc
  else if s.startsWith "tc:" then (s.drop 3).toString.toNat?.map .slower
  else if s.startsWith "fn:" then do
    let tbl ← allSome ((s.drop 3).toString.toList.map parseCondRes?)
    if tbl.length ≠ 6 then none else pure (.fn fun k => nthOrLast (.bool true) tbl (kindIdx k))
  else none

def parseCnd? (s : String) : Option Decor.Cond :=
  match s.splitOn "&" with
  | [c] => parseCnd1? c
  | [t, c] =>
    if t.startsWith "tc:" then do
      let limit ← (t.drop 3).toString.toNat?
      let inner ← parseCnd1? c
      pure (.slowerAnd limit inner)
    else none
  | _ => none

def parseKind? (s : String) : Option Kind :=
  match s.toList with
  | ['v'] => some .val
  | ['n'] => some .none
  | 'f' :: r => (String.ofList r).toNat?.map .falsy
  | 'y' :: r =>                    -- y<class>[p<payload>]: an exception instance returned / yielded as a value
    match (String.ofList r).splitOn "p" with
    | [c] => c.toNat?.map (.eobj · 0)
    | [c, p] => do pure (.eobj (← c.toNat?) (← p.toNat?))
    | _ => none
  | 'e' :: r =>                    -- e<class> (payload 0: a plain class) | e<class>p<payload>
    match (String.ofList r).splitOn "p" with
    | [c] => c.toNat?.map (.exc · 0)
    | [c, p] => do pure (.exc (← c.toNat?) (← p.toNat?))
    | _ => none
  | _ => none

def parseBeh? (s : String) : Option Beh :=
  match s.splitOn ":" with
  | [k] => (parseKind? k).map (⟨·, 0⟩)
  | [k, d] => do pure ⟨← parseKind? k, ← d.toNat?⟩
  | _ => none

def parseRun? (s : String) : Option Iter.IBeh :=
  match s.splitOn "/" with
  | [steps, fd] => do
    let fd ← fd.toNat?
    if steps = "-" then pure ⟨[], fd⟩
    else
      let bs ← allSome ((steps.splitOn ",").map parseBeh?)
      pure ⟨bs.map fun b => (b.kind, b.dur), fd⟩
  | _ => none

def showRes : Res → String
  | .val n i => s!"v{n}.{i}"
  | .none => "n"
  | .falsy j => s!"f{j}"
  | .exc c 0 n => s!"x{c}.{n}"
  | .exc c p n => s!"x{c}p{p}.{n}"
  | .eobj c 0 n => s!"y{c}.{n}"
  | .eobj c p n => s!"y{c}p{p}.{n}"
  | .junk => "junk"

def parseConsumer? : List String → Option Iter.Consumer
  | [] => some .drain
  | [w] =>
    match w.toList with
    | 't' :: r => match (String.ofList r).toNat? with
      | some (n + 1) => some (.take n)      -- t<n>: n elements received = stops after element index n-1
      | _ => none
    | 'c' :: r => (String.ofList r).toNat?.map .cancel
    | _ => none
  | _ => none

inductive Mode where
  | idle
  | simple (cfg : Simple.Cfg) (script : List Beh) (s : Simple.St)
  | iter (cfg : Iter.Cfg) (script : List Iter.IBeh) (s : Iter.St)

def ticksOf (sp : Ttl.Spelling) (k r : Nat) : Nat := (sp.ticks k r).getD 0

def step (m : Mode) (line : String) : Mode × String :=
  match words line with
  | ["simple", c, t] =>
    match parseCnd? c, parseSpelling? t with
    | some cd, some sp => (.simple ⟨cd, fun k r => ticksOf sp k (resIdx r)⟩ [] Simple.St.init, "ok")
    | _, _ => (m, "bad-op")
  | ["iter", c, t] =>
    match parseCnd? c, parseSpelling? t with
    | some cd, some sp => (.iter ⟨cd, fun k => ticksOf sp k 1⟩ [] Iter.St.init, "ok")   -- `result=None`
    | _, _ => (m, "bad-op")
  | "script" :: bs =>
    match m, allSome (bs.map parseBeh?) with
    | .simple cfg _ s, some bs => (.simple cfg bs s, "ok")
    | _, _ => (m, "bad-op")
  | "runs" :: rs =>
    match m, allSome (rs.map parseRun?) with
    | .iter cfg _ s, some rs => (.iter cfg rs s, "ok")
    | _, _ => (m, "bad-op")
  | ["adv", dt] =>
    match m, dt.toNat? with
    | .simple cfg sc s, some dt => (.simple cfg sc (Simple.step cfg (fun n => sc.getD n ⟨.val, 0⟩) s (.adv dt)).1, "ok")
    | .iter cfg sc s, some dt => (.iter cfg sc (Iter.step cfg (fun n => sc.getD n ⟨[], 0⟩) s (.adv dt)).1, "ok")
    | _, _ => (m, "bad-op")
  | "call" :: k :: how =>
    let op? : Option (Nat → Simple.Op) := match how with
      | [] => some .call | ["lost"] => some .lost | ["cut"] => some .cut | _ => none
    match m, k.toNat?, op? with
    | .simple cfg sc s, some k, some op =>
      match Simple.step cfg (fun n => sc.getD n ⟨.val, 0⟩) s (op k) with
      | (s', .got r cached) => (.simple cfg sc s', s!"model={showRes r} {if cached then "hit" else "run"}")
      | (s', .lost executed) => (.simple cfg sc s', s!"model=lost {if executed then "run" else "cut"}")
      | (s', .unit) => (.simple cfg sc s', "bad-op")
    | _, _, _ => (m, "bad-op")
  | "it" :: k :: cons =>
    match m, k.toNat?, parseConsumer? cons with
    | .iter cfg sc s, some k, some cs =>
      match Iter.step cfg (fun n => sc.getD n ⟨[], 0⟩) s (.iter k cs) with
      | (s', .got rs cached) =>
        let items := if rs.isEmpty then "-" else ",".intercalate (rs.map showRes)
        (.iter cfg sc s', s!"model={items} {if cached then "hit" else "run"}")
      | (s', .unit) => (.iter cfg sc s', "bad-op")
    | _, _, _ => (m, "bad-op")
  | ["ttl", t] =>
    match parseSpelling? t with
    | some sp => (m, match sp.ticks 0 0 with | some x => s!"model={x}" | none => "model=E")
    | none => (m, "bad-op")
  | ["ttl", t, k, r] =>
    match parseSpelling? t, k.toNat?, r.toNat? with
    | some sp, some k, some r => (m, match sp.ticks k r with | some x => s!"model={x}" | none => "model=E")
    | _, _, _ => (m, "bad-op")
  | _ => (m, "bad-op")

def main : IO Unit := mainLoop step Mode.idle
