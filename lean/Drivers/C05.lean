import CashewsVerif.Driver.Proto
import CashewsVerif.Model.TxSched
/- Driver for C05: replays a recorded schedule (`run <tid>` / `adv <u>`) on the TxSched model.

  case <nkeys>                     -> ok            (forget everything)
  init <k> <v>                     -> ok
  task <tx|plain> <fast|locked|serializable> <timeout u> <ctx|dec|obj> <op>*   -> ok
        op = set:k:v | incr:k:n | get:k | del:k | expire:k | setx:k:v:0|1 | sleep:d | raise | raise:base | raise:falsy | raise:falsybase | nin:ctx | nin:dec | nin:obj | nout | nfail[:base|:falsy|:falsybase] (inner block left by an exception the outer body catches)
           | setm:k=v+k=v+… | delm:k+k+…   (`cache.set_many` / `cache.delete_many` inside a transaction)
           | commit | rollback      (explicit `tx.commit()` / `tx.rollback()` inside the body)
  run <tid>                        -> label=<command the task was parked before> store=… locks=… now=…
  adv <u>                          -> store=… locks=… now=…
  cancel <tid>                     -> store=… locks=… now=…     (`task.cancel()` delivered at the task's suspension point)
  end                              -> outcomes of all tasks
-/
open CashewsVerif CashewsVerif.Proto CashewsVerif.TxSched

structure St where
  nkeys : Nat := 0
  init : List (Nat × Int) := []
  tasks : List Task := []
  world : Option World := none

def parseMode? : String → Option Mode
  | "fast" => some .fast | "locked" => some .locked | "serializable" => some .serializable | _ => none

def parseForm? : String → Option Form
  | "ctx" => some .ctx | "dec" => some .dec | "obj" => some .obj | _ => none

def parseCmd? (s : String) : Option Cmd :=
  match s.splitOn ":" with
  | ["set", k, v] => do pure (.set (← k.toNat?) (← v.toInt?))
  | ["incr", k, n] => do pure (.incr (← k.toNat?) (← n.toInt?))
  | ["get", k] => do pure (.get (← k.toNat?))
  | ["del", k] => do pure (.delete (← k.toNat?))
  | ["expire", k] => do pure (.expire (← k.toNat?))
  | ["setx", k, v, "1"] => do pure (.setx (← k.toNat?) (← v.toInt?) true)
  | ["setx", k, v, "0"] => do pure (.setx (← k.toNat?) (← v.toInt?) false)
  | ["sleep", d] => do pure (.sleep (← d.toNat?))
  | ["raise"] => some (.raise ⟨false, false⟩)
  | ["raise", "base"] => some (.raise ⟨true, false⟩)
  | ["raise", "falsy"] => some (.raise ⟨false, true⟩)        -- an `Exception` whose truth value is False
  | ["raise", "falsybase"] => some (.raise ⟨true, true⟩)     -- a non-`Exception` `BaseException` whose truth value is False
  | ["commit"] => some .commit
  | ["rollback"] => some .rollback
  | ["nin", f] => do pure (.nestIn (← parseForm? f))
  | ["nout"] => some (.nestOut none)
  | ["nfail"] => some (.nestOut (some ⟨false, false⟩))          -- the inner block is left by an exception caught right outside it
  | ["nfail", "base"] => some (.nestOut (some ⟨true, false⟩))
  | ["nfail", "falsy"] => some (.nestOut (some ⟨false, true⟩))
  | ["nfail", "falsybase"] => some (.nestOut (some ⟨true, true⟩))
  | _ => none

/-- `k=v` -/
def parsePair? (s : String) : Option (Nat × Int) :=
  match s.splitOn "=" with
  | [k, v] => do pure (← k.toNat?, ← v.toInt?)
  | _ => none

/-- one op word → the body commands it stands for (the multi-key commands are sequences of single-key ones, see
`Cmd.setMany` / `Cmd.deleteMany`) -/
def parseCmds? (s : String) : Option (List Cmd) :=
  match s.splitOn ":" with
  | ["setm", kvs] => do pure (Cmd.setMany (← allSome ((kvs.splitOn "+").map parsePair?)))
  | ["delm", ks] => do pure (Cmd.deleteMany (← allSome ((ks.splitOn "+").map String.toNat?)))
  | _ => do pure [← parseCmd? s]

def insSorted (x : Nat) : List Nat → List Nat
  | [] => [x]
  | y :: r => if x ≤ y then x :: y :: r else y :: insSorted x r

def sortNat (l : List Nat) : List Nat := l.foldr insSorted []

def showLock : LockKey → String
  | none => "g"
  | some k => s!"k{k}"

def showRes (rs : List (Option Int)) : String :=
  ",".intercalate (rs.map fun r => match r with | none => "n" | some v => toString v)

def showOutcome : Outcome → String
  | .returned rs => "ret:" ++ showRes rs
  | .raised ⟨false, false⟩ => "raise:body"
  | .raised ⟨true, false⟩ => "raise:base"
  | .raised ⟨false, true⟩ => "raise:falsy"
  | .raised ⟨true, true⟩ => "raise:falsybase"
  | .raisedLocked => "raise:locked"
  | .cancelled => "cancelled"

def label (t : Task) : String :=
  match t.pc with
  | .start => "start"
  | .lockTry k _ => "set_lock:" ++ showLock (lockKeyOf t.mode k)
  | .seedGet k _ => s!"get:{k}"
  | .readGet k => s!"get:{k}"
  | .expGet k => s!"get:{k}"
  | .existsGet k _ _ => s!"exists:{k}"
  | .direct (.set k _) => s!"set:{k}"
  | .direct (.incr k _) => s!"incr:{k}"
  | .direct (.get k) => s!"get:{k}"
  | .direct (.delete k) => s!"delete:{k}"
  | .direct (.expire k) => s!"expire:{k}"
  | .direct (.setx k _ _) => s!"set:{k}"
  | .direct _ => "none"
  | .commitDel => "delete_many:" ++ "+".intercalate ((sortNat t.del).map toString)
  | .midDel => "delete_many:" ++ "+".intercalate ((sortNat t.del).map toString)
  | .commitSet =>
    let ks := sortNat (t.ov.map (·.1))
    "set_many:" ++ "+".intercalate (ks.map fun k => s!"{k}={(t.ov.get k).getD 0}")
  | .midSet =>
    let ks := sortNat (t.ov.map (·.1))
    "set_many:" ++ "+".intercalate (ks.map fun k => s!"{k}={(t.ov.get k).getD 0}")
  | .unlocking (l :: _) _ => "unlock:" ++ showLock l
  | .unlocking [] _ => "none"
  | .midUnlock (l :: _) => "unlock:" ++ showLock l
  | .midUnlock [] => "none"
  | .lockSleep .. => "none"
  | .bodySleep _ => "none"
  | .finished _ => "none"

def showWorld (n : Nat) (w : World) : String :=
  let st := (List.range n).filterMap fun k => (w.store k).map fun v => s!"{k}={v}"
  let lks : List LockKey := none :: (List.range n).map some
  let ls := lks.filterMap fun l =>
    match w.lock l with
    | some (o, d) => if w.now < d then some s!"{showLock l}@{o}" else none
    | none => none
  s!"store={",".intercalate st} locks={",".intercalate ls} now={w.now}"

def mkWorld (st : St) : World :=
  World.init (fun k => AL.get st.init k) st.tasks

def getWorld (st : St) : World := st.world.getD (mkWorld st)

def step (st : St) (line : String) : St × String :=
  match words line with
  | ["case", n] =>
    match n.toNat? with
    | some n => ({ nkeys := n }, "ok")
    | none => (st, "bad-op")
  | ["init", k, v] =>
    match k.toNat?, v.toInt?, st.world with
    | some k, some v, none => ({ st with init := AL.put st.init k v }, "ok")
    | _, _, _ => (st, "bad-op")
  | "task" :: kind :: mode :: timeout :: form :: ops =>
    match (if kind = "tx" then some true else if kind = "plain" then some false else none),
          parseMode? mode, timeout.toNat?, parseForm? form, (allSome (ops.map parseCmds?)).map List.flatten, st.world with
    | some isTx, some m, some to, some f, some prog, none =>
      ({ st with tasks := st.tasks ++ [{ isTx := isTx, mode := m, timeout := to, form := f, prog := prog }] }, "ok")
    | _, _, _, _, _, _ => (st, "bad-op")
  | ["run", tid] =>
    match tid.toNat? with
    | some tid =>
      if tid < st.tasks.length then
        let w := getWorld st
        let l := label (w.tasks tid)
        let w' := w.step (.run tid)
        ({ st with world := some w' }, s!"label={l} {showWorld st.nkeys w'}")
      else (st, "bad-op")
    | none => (st, "bad-op")
  | ["adv", d] =>
    match d.toNat? with
    | some d =>
      let w' := (getWorld st).step (.adv d)
      ({ st with world := some w' }, showWorld st.nkeys w')
    | none => (st, "bad-op")
  | ["cancel", tid] =>
    match tid.toNat? with
    | some tid =>
      if tid < st.tasks.length then
        let w' := (getWorld st).step (.cancel tid)
        ({ st with world := some w' }, showWorld st.nkeys w')
      else (st, "bad-op")
    | none => (st, "bad-op")
  | ["end"] =>
    let w := getWorld st
    let outs := (List.range st.tasks.length).map fun i =>
      match (w.tasks i).pc with
      | .finished o => s!"t{i}={showOutcome o}"
      | _ => s!"t{i}=unfinished"
    (st, "end " ++ " ".intercalate outs)
  | _ => (st, "bad-op")

def main : IO Unit := mainLoop step {}
