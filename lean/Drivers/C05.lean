/- placeholder driver for C05: replaced when the check for C05 is built -/
def main : IO Unit := IO.println "not-built"
