/- placeholder driver for C15: replaced when the check for C15 is built -/
def main : IO Unit := IO.println "not-built"
