import CashewsVerif.Driver.Proto
import CashewsVerif.Model.Decor.RateSched
import CashewsVerif.Spec.RateLimit
/-
Driver for C15.  Request lines:

  case fixed <limit> <period> <ttl|->            start a sequential history of `rate_limit`
  case slide <limit> <period>                    ... of `slice_rate_limit`
  case breaker <rate> <period> <ttl> <min_calls> ... of `circuit_breaker`
  call <dt> [ok|fail|other]                      one call `dt` ticks after the previous one
        -> ts=<instant> dec=<run|rej|fault>                       (limiters)
        -> ts=<instant> dec=<open|ran:<oc>> open=<T|F> total=<n> fails=<n> trip=<T|F>   (breaker)
  spawn <oc> <oc> ...                            concurrent mode: one task per outcome, same decorator
  step <i>                                       task i performs its next step  -> lbl=<...>
  tick <dt>                                      virtual time passes            -> ok
  result <i>                                     -> ran=<T|F> opened=<T|F> | pending
  spec <ev> <ev> ...                             evaluate the property on an observed trace of the
                                                 current case's decorator -> holds | fails
        limiter ev: <ts>:<run|rej>      breaker ev: <ts>:<open|ok|fail|other>:<T|F (open after)>
-/
open CashewsVerif CashewsVerif.Proto CashewsVerif.Decor

structure St where
  kind  : Option Sched.Kind := none
  tm    : TtlMap := TtlMap.init
  world : Sched.World := Sched.init []

def showB (b : Bool) : String := if b then "T" else "F"

def showDec : Dec → String
  | .run => "run" | .reject => "rej" | .fault => "fault"

def showOc : Breaker.Outcome → String
  | .ok => "ok" | .fail => "fail" | .other => "other"

def parseOc? : String → Option Breaker.Outcome
  | "ok" => some .ok | "fail" => some .fail | "other" => some .other | _ => none

def showLbl : Sched.Lbl → String
  | .start => "start"
  | .incr r => s!"incr:{showOut r}"
  | .expire => "expire"
  | .slice k ts c => s!"slice:{k}:{ts}:{c}"
  | .isLocked b => s!"is_locked:{showB b}"
  | .exists_ b => s!"exists:{showB b}"
  | .setLock b => s!"set_lock:{showB b}"
  | .body => "body"
  | .idle => "idle"

def parseEv? (s : String) : Option Ev :=
  match s.splitOn ":" with
  | [ts, "run"] => ts.toNat?.map (⟨·, .run⟩)
  | [ts, "rej"] => ts.toNat?.map (⟨·, .reject⟩)
  | _ => none

def parseBool? : String → Option Bool
  | "T" => some true | "F" => some false | _ => none

def parseBEv? (s : String) : Option Breaker.BEv :=
  match s.splitOn ":" with
  | [ts, "open", o] => do
    pure { ts := ← ts.toNat?, res := .rejected, openAfter := ← parseBool? o }
  | [ts, oc, o] => do
    let oc ← parseOc? oc
    let o ← parseBool? o
    pure { ts := ← ts.toNat?, res := .ran oc (o && oc == .fail), openAfter := o }
  | _ => none

def step (st : St) (line : String) : St × String :=
  match words line with
  | ["case", "fixed", l, p, ttl] =>
    match l.toNat?, p.toNat?, parseTtl? ttl with
    | some l, some p, some ttl => ({ kind := some (.fixed ⟨l, p, ttl⟩) }, "ok")
    | _, _, _ => (st, "bad-op")
  | ["case", "slide", l, p] =>
    match l.toNat?, p.toNat? with
    | some l, some p => ({ kind := some (.slide ⟨l, p⟩) }, "ok")
    | _, _ => (st, "bad-op")
  | ["case", "breaker", r, p, ttl, mc] =>
    match r.toNat?, p.toNat?, ttl.toNat?, mc.toNat? with
    | some r, some p, some ttl, some mc => ({ kind := some (.breaker { rate := r, period := p, ttl := ttl, minCalls := mc }) }, "ok")
    | _, _, _, _ => (st, "bad-op")
  | "call" :: dt :: rest =>
    match st.kind, dt.toNat?, rest with
    | some (.fixed p), some dt, [] =>
      let (t', e) := Rate.call p st.tm dt
      ({ st with tm := t' }, s!"ts={e.ts} dec={showDec e.dec}")
    | some (.slide p), some dt, [] =>
      let (t', e) := SlideRate.call p st.tm dt
      ({ st with tm := t' }, s!"ts={e.ts} dec={showDec e.dec}")
    | some (.breaker p), some dt, [oc] =>
      match parseOc? oc with
      | none => (st, "bad-op")
      | some oc =>
        let (t', e) := Breaker.call p st.tm (dt, oc)
        let (d, trip) := match e.res with
          | .rejected => ("open", false)
          | .ran oc tr => (s!"ran:{showOc oc}", tr)
        ({ st with tm := t' }, s!"ts={e.ts} dec={d} open={showB e.openAfter} total={e.total} fails={e.fails} trip={showB trip}")
    | _, _, _ => (st, "bad-op")
  | "spawn" :: ocs =>
    match st.kind, allSome (ocs.map parseOc?) with
    | some _, some ocs => ({ st with world := Sched.init ocs }, "ok")
    | _, _ => (st, "bad-op")
  | ["step", i] =>
    match st.kind, i.toNat? with
    | some k, some i =>
      if i < st.world.tasks.length then
        let (w', l) := Sched.step k st.world (.task i)
        ({ st with world := w' }, s!"lbl={showLbl l}")
      else (st, "bad-op")
    | _, _ => (st, "bad-op")
  | ["tick", dt] =>
    match st.kind, dt.toNat? with
    | some k, some dt => ({ st with world := (Sched.step k st.world (.tick dt)).1 }, "ok")
    | _, _ => (st, "bad-op")
  | ["result", i] =>
    match i.toNat?.bind (st.world.tasks[·]?) with
    | some tk =>
      match tk.phase with
      | .done ran opened => (st, s!"ran={showB ran} opened={showB opened}")
      | _ => (st, "pending")
    | none => (st, "bad-op")
  | "spec" :: evs =>
    match st.kind with
    | some (.fixed p) =>
      match allSome (evs.map parseEv?) with
      | some tr => (st, if Spec.fixedHolds p.limit p.period p.effTtl tr then "holds" else "fails")
      | none => (st, "bad-op")
    | some (.slide p) =>
      match allSome (evs.map parseEv?) with
      | some tr => (st, if Spec.slidingHolds p.limit p.period tr then "holds" else "fails")
      | none => (st, "bad-op")
    | some (.breaker p) =>
      match allSome (evs.map parseBEv?) with
      | some tr => (st, if Spec.breakerHolds p tr then "holds" else "fails")
      | none => (st, "bad-op")
    | none => (st, "bad-op")
  | _ => (st, "bad-op")

def main : IO Unit := mainLoop step {}
