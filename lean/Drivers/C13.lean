import CashewsVerif.Driver.Proto
import CashewsVerif.Model.Glob
/-
Driver for C13.  One request line in, one answer line out.

Values: `i:<int>`, `t:<n>` (an opaque string), `n` (a stored Python `None`) as in Driver/Proto, plus
`e:<c>` with `c` one of `s b l f d z u T` — the other values the pattern commands must treat as plain values:
`''`, `b''`, `[]`, `False`, `{}`, `0.0`, `()`, `True` (opaque to the model: `Val.tok (1000 + position)`) — and
`b:<n>` a bit-field object (`Bitarray`; model `Val.nums [n]`, the one kind of value `get_match` skips).
`-` in an answer is "no value" (the default), which `get_match` must never yield.

Strings (patterns, key texts) travel as `x` followed by their code points in decimal joined by `.`
(`x97.46.42` = "a.*", `x` = the empty string).  Keys of the store are numbers = positions in the
universe declared by `univ`.

  univ <str>*                      -> ok n=<count>
  store <now> (<id>/<dl|->/<val>)* -> ok                      the in-memory store, in order
  scan <pat>                       -> model=<ids> spec=<ids>   model: Glob.scan (regex matcher over translate); spec: live keys filtered by glob
  getmatch <pat>                   -> model=<id>=<val>;… spec=…
  delmatch <pat>                   -> model=<live ids afterwards> spec=<live ids not matching>
  txbegin                          -> ok                       transaction over the current store
  txset <id> <val> <ttl|->         -> ok                       (bad-op for a bit-field value)
  txdel <id>                       -> ok
  txadv <dt>                       -> ok
  txscan / txgetmatch / txdelmatch <pat>   -> model=… spec=…   spec: the same command on Tx.direct, by glob
  txlive                           -> model=<ids visible in the transaction> spec=<live ids of Tx.direct>
  cap <n>                          -> ok                       capacity (`size`) of the in-memory store (before `store`)
  itstart scan|getmatch <pat>      -> ok                       an iteration is created (snapshot of the store: taken at the first step)
  itnext                           -> model=<id> | model=<id>=<val> | model=end      one `__anext__` (Glob.scanNext / getMatchNext);
                                                               a key that vanished since the snapshot comes out of get_match as `<id>=n`
                                                               (the default `None`; the code cannot tell it from a stored None)
  mdel <id> | mset <id> <val> <ttl|-> | mget <id> | madv <dt>  -> ok     what the consumer does between two steps (Mem model)
  match <pat> <key>                -> model=T|F spec=T|F
  src <pat>                        -> src=<str> parse=ok|bad   text given to re.compile; does the fragment reader return translate pat?
-/
open CashewsVerif CashewsVerif.Proto CashewsVerif.Glob

structure St where
  names : Array (List Char) := #[]
  mem : Mem := Mem.init 1000000
  tx : Tx := { now := 0, backend := [], overlay := [], del := [] }
  cap : Nat := 1000000
  /-- a running iteration: get_match?, pattern, what is left of the snapshot (`none` until the first step) -/
  it : Option (Bool × List Char × Option Store) := none

def decodeStr? (s : String) : Option (List Char) :=
  match s.toList with
  | 'x' :: rest =>
    if rest.isEmpty then some []
    else allSome (((String.ofList rest).splitOn ".").map fun w => w.toNat?.map Char.ofNat)
  | _ => none

def encodeStr (cs : List Char) : String := "x" ++ ".".intercalate (cs.map fun c => toString c.toNat)

def St.name (st : St) (k : Nat) : List Char := st.names[k]?.getD []

def sortNat (l : List Nat) : List Nat := (l.toArray.qsort (· < ·)).toList

def showIds (l : List Nat) : String :=
  if l.isEmpty then "-" else ",".intercalate ((sortNat l).map toString)

/-- the falsy / odd Python values of the harness's value alphabet, in the order of their model tokens -/
def extraVals : List String := ["s", "b", "l", "f", "d", "z", "u", "T"]

/-- which stored values are `Bitarray` objects: in this driver, `Val.nums` -/
def isBits : Val → Bool
  | .nums _ => true
  | _ => false

def parseValG? (s : String) : Option Val :=
  match s.splitOn ":" with
  | ["b", x] => x.toNat?.map fun n => .nums [n]
  | ["e", c] => (extraVals.idxOf? c).map fun i => .tok (1000 + i)
  | ["t", x] => x.toNat?.bind fun n => if n < 1000 then some (.tok n) else none
  | _ => parseVal? s

def showValG : Val → String
  | .nums [n] => s!"b:{n}"
  | .tok n => if n < 1000 then s!"t:{n}" else s!"e:{extraVals.getD (n - 1000) "?"}"
  | v => showVal v

def showOptValG : Option Val → String
  | none => "-"
  | some v => showValG v

def showPairs (l : List (Nat × Option Val)) : String :=
  if l.isEmpty then "-"
  else
    let sorted := (l.toArray.qsort (fun a b => a.1 < b.1)).toList
    ";".intercalate (sorted.map fun kv => s!"{kv.1}={showOptValG kv.2}")

def parseEntry? (s : String) : Option (Nat × Entry) :=
  match s.splitOn "/" with
  | [k, dl, v] => do
    let k ← k.toNat?
    let dl ← parseTtl? dl
    let v ← parseValG? v
    pure (k, ⟨v, dl⟩)
  | _ => none

/-- spec of get_match: live matching keys that hold a value (anything but a bit-field object), each with that value -/
def getMatchSpec (name : Nat → List Char) (m : Mem) (pat : List Char) : List (Nat × Option Val) :=
  (m.store.filter fun ke => (ke.2.live m.now && glob pat (name ke.1)) && !isBits ke.2.val).map fun ke => (ke.1, some ke.2.val)

/-- spec of delete_match: the live keys that do not match stay -/
def afterDeleteSpec (name : Nat → List Char) (m : Mem) (pat : List Char) : List Nat :=
  (liveKeys m).filter fun k => !glob pat (name k)

def answer (a b : String) : String := s!"model={a} spec={b}"

def step (st : St) (line : String) : St × String :=
  match words line with
  | "univ" :: ws =>
    match allSome (ws.map decodeStr?) with
    | some ns => ({ st with names := ns.toArray, cap := 1000000, it := none }, s!"ok n={ns.length}")   -- a new case
    | none => (st, "bad-op")
  | "store" :: now :: es =>
    match now.toNat?, allSome (es.map parseEntry?) with
    | some n, some entries => ({ st with mem := { now := n, cap := st.cap, store := entries } }, "ok")
    | _, _ => (st, "bad-op")
  | ["cap", n] =>
    match n.toNat? with
    | some n => ({ st with cap := n, mem := { st.mem with cap := n } }, "ok")
    | none => (st, "bad-op")
  | ["itstart", what, p] =>
    match decodeStr? p with
    | some pat =>
      if what = "scan" then ({ st with it := some (false, pat, none) }, "ok")
      else if what = "getmatch" then ({ st with it := some (true, pat, none) }, "ok")
      else (st, "bad-op")
    | none => (st, "bad-op")
  | ["itnext"] =>
    match st.it with
    | none => (st, "bad-op")
    | some (gm, pat, snap?) =>
      let snap := snap?.getD st.mem.store            -- `dict(self.store)` at the first step
      if gm then
        let r := getMatchNext st.name isBits pat st.mem snap
        let out := match r.1.2 with
          | none => "end"
          | some (k, v) => s!"{k}={match v with | some v => showValG v | none => "n"}"
        ({ st with mem := r.1.1, it := some (gm, pat, some r.2) }, s!"model={out}")
      else
        let r := scanNext st.name pat st.mem.now snap
        let out := match r.1 with
          | none => "end"
          | some k => toString k
        ({ st with it := some (gm, pat, some r.2) }, s!"model={out}")
  | ["mdel", k] =>
    match k.toNat? with
    | some k => ({ st with mem := (st.mem.rawDelete k).1 }, "ok")
    | none => (st, "bad-op")
  | ["mset", k, v, ttl] =>
    match k.toNat?, parseValG? v, parseTtl? ttl with
    | some k, some v, some ttl => if isBits v then (st, "bad-op") else ({ st with mem := st.mem.rawSet k v ttl }, "ok")
    | _, _, _ => (st, "bad-op")
  | ["mget", k] =>
    match k.toNat? with
    | some k => ({ st with mem := (st.mem.rawGet k).1 }, "ok")
    | none => (st, "bad-op")
  | ["madv", dt] =>
    match dt.toNat? with
    | some dt => ({ st with mem := { st.mem with now := st.mem.now + dt } }, "ok")
    | none => (st, "bad-op")
  | ["scan", p] =>
    match decodeStr? p with
    | some pat => (st, answer (showIds (scan st.name st.mem pat)) (showIds (scanSpec st.name st.mem pat)))
    | none => (st, "bad-op")
  | ["getmatch", p] =>
    match decodeStr? p with
    | some pat =>
      let r := getMatch st.name isBits st.mem pat
      ({ st with mem := r.1 }, answer (showPairs r.2) (showPairs (getMatchSpec st.name st.mem pat)))
    | none => (st, "bad-op")
  | ["delmatch", p] =>
    match decodeStr? p with
    | some pat =>
      let m' := deleteMatch st.name st.mem pat
      ({ st with mem := m' }, answer (showIds (liveKeys m')) (showIds (afterDeleteSpec st.name st.mem pat)))
    | none => (st, "bad-op")
  | ["txbegin"] =>
    ({ st with tx := { now := st.mem.now, backend := st.mem.store, overlay := [], del := [] } }, "ok")
  | ["txset", k, v, ttl] =>
    match k.toNat?, parseValG? v, parseTtl? ttl with
    | some k, some v, some ttl =>
      -- a transaction never buffers a bit-field object (`incr_bits` is proxied): outside the model
      if isBits v then (st, "bad-op") else ({ st with tx := st.tx.set k v ttl }, "ok")
    | _, _, _ => (st, "bad-op")
  | ["txdel", k] =>
    match k.toNat? with
    | some k => ({ st with tx := st.tx.delete k }, "ok")
    | none => (st, "bad-op")
  | ["txadv", dt] =>
    match dt.toNat? with
    | some dt => ({ st with tx := { st.tx with now := st.tx.now + dt } }, "ok")
    | none => (st, "bad-op")
  | ["txscan", p] =>
    match decodeStr? p with
    | some pat => (st, answer (showIds (st.tx.scan st.name pat)) (showIds (scanSpec st.name st.tx.direct pat)))
    | none => (st, "bad-op")
  | ["txgetmatch", p] =>
    match decodeStr? p with
    | some pat =>
      let r := st.tx.getMatch st.name isBits pat
      ({ st with tx := r.1 }, answer (showPairs r.2) (showPairs (getMatchSpec st.name st.tx.direct pat)))
    | none => (st, "bad-op")
  | ["txdelmatch", p] =>
    match decodeStr? p with
    | some pat =>
      let t' := st.tx.deleteMatch st.name pat
      ({ st with tx := t' }, answer (showIds (liveKeys t'.direct)) (showIds (afterDeleteSpec st.name st.tx.direct pat)))
    | none => (st, "bad-op")
  | ["txlive"] =>
    let ks := (st.tx.overlay.map (·.1)) ++ (st.tx.backend.map (·.1))
    let vis := (ks.filter fun k => (st.tx.omem.rawGet k).2.isSome ||
                  (!st.tx.del.contains k && (st.tx.bmem.rawGet k).2.isSome)).eraseDups
    (st, answer (showIds vis) (showIds (liveKeys st.tx.direct)))
  | ["match", p, k] =>
    match decodeStr? p, decodeStr? k with
    | some pat, some key =>
      let b (x : Bool) := if x then "T" else "F"
      (st, answer (b (matchRe (translate pat) key)) (b (glob pat key)))
    | _, _ => (st, "bad-op")
  | ["src", p] =>
    match decodeStr? p with
    | some pat =>
      let ok := parse (source pat) == some (translate pat)
      (st, s!"src={encodeStr (source pat)} parse={if ok then "ok" else "bad"}")
    | none => (st, "bad-op")
  | _ => (st, "bad-op")

def main : IO Unit := mainLoop step {}
