/- placeholder driver for C13: replaced when the check for C13 is built -/
def main : IO Unit := IO.println "not-built"
