import CashewsVerif.Driver.Proto
import CashewsVerif.Model.TxFault
/-
Driver for C16.  One request line = one run of a transaction block under a fault set:

  run mode=<fast|locked|serializable> timeout=<ticks> attempts=<n> uprio=<b.lk,...|-> faults=<i,j,...|->
      data=<b.k.v.dl,...|-> flocks=<b.lk,...|-> body=<cmd;cmd;...|-> probe=<b.k.v>
      step=<ticks per lock-step> hlocks=<b.lk,...|-> rel=<i.b.lk,...|-> rb=<head|all> obj=<i|->

faults: `i` = command i raises an Exception, `ib` = command i raises a BaseException that is no Exception (CancelledError).
rb: the loop of `Transaction._rollback` - all = every backend is rolled back, a BaseException is re-raised at the end (as in
/repo since 12f0cbb; what the harness asks for), head = the OLD loop, `except Exception` only (kept for the record).

body commands: set.b.k.v.ttl  incr.b.k  incr.b.k.ttl  get.b.k  del.b.k  adv.dt  raise  setmany.b.ttl.k:v+k:v+...  delmany.b.k+k+...
               expire.b.k.ttl  setx.b.k.v.ttl (set(..., exist=True))  setnx.b.k.v.ttl (set(..., exist=False))
               with.<i|-> … end   a nested `async with` on shared context object i (`-`: an object of its own: an inline
               cache.transaction(…) block or a call of a decorated function); the tokens between `with` and its `end` are its body
               commit / rollback   `await tx.commit()` / `await tx.rollback()` on the running Transaction, in the middle of the body
(`-` = no ttl / no deadline).  obj: the context object of the OUTERMOST block (`-`: one of its own); `with.i` inside the
body with the same i re-enters that very object.  `flocks`: lock keys held by a foreign owner for ever.  `hlocks`: lock keys held by
contending holders (other open transactions) when the block starts; `rel=i.b.lk`: the holder of (b, lk) releases it
just before backend command `i`; every holder has finished by the time the remaining locks are reported.

Answer (one line):
  exc=<none|fault:i|bfault:i|locked|body> ctx=<none|some> (`~` = empty list) trace=<ev;...> outs=<r,...> locks=<b.lk.m|f.dl,...> data=<b.k=v,...> probe=<ok|lost>
  now=<ticks> store=<b.k=v@dl,...>
`data`: live values after the probe write; `store`: the WHOLE live entries (value and deadline, `-` = none) when the block has
been left, before the probe.
-/
open CashewsVerif CashewsVerif.Proto CashewsVerif.TxFault

def splitList (s : String) (sep : String) : List String :=
  if s = "-" ∨ s = "" then [] else s.splitOn sep

def parseOptNat? (s : String) : Option (Option Nat) :=
  if s = "-" then some none else s.toNat?.map some

def parseMode? : String → Option Mode
  | "fast" => some .fast
  | "locked" => some .locked
  | "serializable" => some .serializable
  | _ => none

def parseBody? (s : String) : Option BodyCmd :=
  match s.splitOn "." with
  | ["set", b, k, v, ttl] => do pure (.set (← b.toNat?) (← k.toNat?) (← v.toInt?) (← parseOptNat? ttl))
  | ["incr", b, k] => do pure (.incr (← b.toNat?) (← k.toNat?) none)
  | ["incr", b, k, ttl] => do pure (.incr (← b.toNat?) (← k.toNat?) (← parseOptNat? ttl))
  | ["expire", b, k, ttl] => do pure (.expire (← b.toNat?) (← k.toNat?) (← ttl.toNat?))
  | ["setx", b, k, v, ttl] => do pure (.setIf (← b.toNat?) (← k.toNat?) (← v.toInt?) (← parseOptNat? ttl) true)
  | ["setnx", b, k, v, ttl] => do pure (.setIf (← b.toNat?) (← k.toNat?) (← v.toInt?) (← parseOptNat? ttl) false)
  | ["get", b, k] => do pure (.get (← b.toNat?) (← k.toNat?))
  | ["del", b, k] => do pure (.delete (← b.toNat?) (← k.toNat?))
  | ["adv", dt] => do pure (.adv (← dt.toNat?))
  | ["raise"] => some .raise
  | ["commit"] => some .commit
  | ["rollback"] => some .rollback
  | ["setmany", b, ttl, kvs] => do
    let kvs ← allSome ((kvs.splitOn "+").map fun kv =>
      match kv.splitOn ":" with
      | [k, v] => do pure (← k.toNat?, ← v.toInt?)
      | _ => none)
    pure (.setMany (← b.toNat?) kvs (← parseOptNat? ttl))
  | ["delmany", b, ks] => do pure (.delMany (← b.toNat?) (← allSome ((ks.splitOn "+").map String.toNat?)))
  | _ => none

/-- the flat token list with `with.o … end` brackets → the nested body; `none` on a stray / missing `end` -/
partial def parseSeq (toks : List String) (depth : Nat) : Option (List BodyCmd × List String) :=
  match toks with
  | [] => if depth = 0 then some ([], []) else none
  | t :: rest =>
    if t = "end" then (if depth = 0 then none else some ([], rest))
    else
      match t.splitOn "." with
      | ["with", o] => do
        let o ← parseOptNat? o
        let (inner, rest1) ← parseSeq rest (depth + 1)
        let (tail, rest2) ← parseSeq rest1 depth
        pure (.block o inner :: tail, rest2)
      | _ => do
        let c ← parseBody? t
        let (tail, rest2) ← parseSeq rest depth
        pure (c :: tail, rest2)

def parsePair? (s : String) : Option (Nat × Nat) :=
  match s.splitOn "." with
  | [a, b] => do pure (← a.toNat?, ← b.toNat?)
  | _ => none

def parseRel? (s : String) : Option (Nat × Nat × Nat) :=
  match s.splitOn "." with
  | [i, b, lk] => do pure (← i.toNat?, ← b.toNat?, ← lk.toNat?)
  | _ => none

def parseData? (s : String) : Option ((Nat × Nat) × DEntry) :=
  match s.splitOn "." with
  | [b, k, v, dl] => do pure ((← b.toNat?, ← k.toNat?), ⟨← v.toInt?, ← parseOptNat? dl⟩)
  | _ => none

/-- `7` = an Exception at command 7, `7b` = a BaseException-only failure at command 7 -/
def parseFault? (s : String) : Option (Nat × Bool) :=
  if s.endsWith "b" then (s.dropEnd 1).toString.toNat?.map fun i => (i, true)
  else s.toNat?.map fun i => (i, false)

def parseRb? : String → Option Bool
  | "head" => some false
  | "all" => some true
  | _ => none

def parseProbe? (s : String) : Option (Nat × Nat × Int) :=
  match s.splitOn "." with
  | [b, k, v] => do pure (← b.toNat?, ← k.toNat?, ← v.toInt?)
  | _ => none

def field? (ws : List String) (name : String) : Option String :=
  (ws.find? fun w => w.startsWith (name ++ "=")).map fun w => (w.drop (name.length + 1)).toString

def showOptNat : Option Nat → String
  | none => "-"
  | some n => toString n

def sortStrings (l : List String) : List String := (l.toArray.qsort (· < ·)).toList

def showKV (kv : Nat × Int) : String := s!"{kv.1}:{kv.2}"

def showCmd : BCmd → String
  | .get k => s!"get.{k}"
  | .set k v => s!"set.{k}.{v}"
  | .setLock lk ttl => s!"setlock.{lk}.{ttl}"
  | .unlock lk => s!"unlock.{lk}"
  | .deleteMany ks => "delmany." ++ "+".intercalate (sortStrings (ks.map toString))
  | .setMany kvs ttl => s!"setmany.{showOptNat ttl}." ++ "+".intercalate (sortStrings (kvs.map showKV))
  | .has k => s!"exists.{k}"

def showEv (e : Ev) : String := s!"{e.b}.{showCmd e.cmd}" ++ (if e.failed then "!" else "")

def showReply : Reply → String
  | .unit => "U"
  | .bool true => "T"
  | .bool false => "F"
  | .val none => "-"
  | .val (some v) => s!"v{v}"
  | .int i => s!"n{i}"

def showErr : Err → String
  | .fault i .exception => s!"fault:{i}"
  | .fault i .baseException => s!"bfault:{i}"
  | .locked => "locked"
  | .body => "body"

def dash (l : List String) (sep : String) : String := if l.isEmpty then "~" else sep.intercalate l

def runLine (ws : List String) : Option String := do
  let mode ← parseMode? (← field? ws "mode")
  let timeout ← (← field? ws "timeout").toNat?
  let attempts ← (← field? ws "attempts").toNat?
  let uprio ← allSome ((splitList (← field? ws "uprio") ",").map parsePair?)
  let faults ← allSome ((splitList (← field? ws "faults") ",").map parseFault?)
  let rbAll ← parseRb? (← field? ws "rb")
  let data ← allSome ((splitList (← field? ws "data") ",").map parseData?)
  let flocks ← allSome ((splitList (← field? ws "flocks") ",").map parsePair?)
  let (body, _) ← parseSeq (splitList (← field? ws "body") ";") 0
  let obj ← parseOptNat? (← field? ws "obj")
  let probe ← parseProbe? (← field? ws "probe")
  let step ← (← field? ws "step").toNat?
  let hlocks ← allSome ((splitList (← field? ws "hlocks") ",").map parsePair?)
  let rel ← allSome ((splitList (← field? ws "rel") ",").map parseRel?)
  let cfg : Cfg := ⟨mode, timeout, attempts, uprio, fun i => faults.any fun f => f.1 = i, step,
    fun i => (rel.filter fun r => r.1 = i).map fun r => r.2, fun i => faults.any fun f => f.1 = i ∧ f.2, rbAll⟩
  let w0 : FWorld := { FWorld.init with data := data, locks := (flocks ++ hlocks).map fun p => (p, ⟨false, none⟩) }
  let (r, w1) := runBlockOn cfg obj body w0
  -- every holder has finished (released its lock) before the observer looks at the lock keys
  let w1 := { w1 with locks := envRel hlocks w1.locks }
  let exc := match r with
    | .ok _ => "none"
    | .err e => showErr e
  let ctx := if w1.ctx.isSome then "some" else "none"
  let trace := dash (w1.log.map showEv) ";"
  let outs := dash (w1.outs.map showReply) ","
  let locks := dash (sortStrings (w1.locks.map fun (p, e) =>
    s!"{p.1}.{p.2}.{if e.mine then "m" else "f"}.{showOptNat e.dl}")) ","
  let store := dash (sortStrings (w1.data.filterMap fun (p, _) =>
    (entryView w1 p.1 p.2).map fun e => s!"{p.1}.{p.2}={e.val}@{showOptNat e.dl}")) ","
  -- the probe: a facade write right after the block, with fault injection switched off
  let (_, w2) := facadeSet { cfg with fails := fun _ => false } probe.1 probe.2.1 probe.2.2 w1
  let pr := if dataView w2 probe.1 probe.2.1 = some probe.2.2 then "ok" else "lost"
  let dat := dash (sortStrings (w2.data.filterMap fun (p, _) =>
    (dataView w2 p.1 p.2).map fun v => s!"{p.1}.{p.2}={v}")) ","
  pure s!"exc={exc} ctx={ctx} trace={trace} outs={outs} locks={locks} data={dat} probe={pr} now={w1.now} store={store}"

def step (_ : Unit) (line : String) : Unit × String :=
  match words line with
  | "run" :: ws =>
    match runLine ws with
    | some s => ((), s)
    | none => ((), "bad-op")
  | _ => ((), "bad-op")

def main : IO Unit := mainLoop step ()
