/- placeholder driver for C16: replaced when the check for C16 is built -/
def main : IO Unit := IO.println "not-built"
