/- placeholder driver for C14: replaced when the check for C14 is built -/
def main : IO Unit := IO.println "not-built"
