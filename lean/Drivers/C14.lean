import CashewsVerif.Driver.Proto
import CashewsVerif.Model.Decor.Early
import CashewsVerif.Model.Decor.Soft
import CashewsVerif.Model.Decor.Fail
import CashewsVerif.Model.Decor.Hit
import CashewsVerif.Model.Decor.Overlap
/- Driver for C14: runs one history (`call` / `adv` / `done`) on the early / soft / failover / hit model.

  case <early|soft|fail|hit> ttl=<ticks> inner=<ticks> hits=<n> upd=<n> bg=<0|1>   -> ok
  call <outcome> [<dur>]       -> model=<fresh:s:id|stored:s:id|raised:lis|raised:unl|storeerr:lis|storeerr:unl|joined:id|broken> x=<0|1> b=<0|1> n=<in flight> t=<clock after>
                                  (<dur>, default 0: ticks the function body takes if it runs inside the call)
  adv <ticks>                  -> model=ok n=<in flight> t=<clock after>
  done <i> <outcome>           -> model=<noop|stored|skipped|failed> n=<in flight> t=<clock after> [w=<what the callers parked on that
                                  recalculation (early: `joined:id`) are handed: fresh:s:id|raised:…|storeerr:…|->]
  overlapping calls of one key (Model/Decor/Overlap.lean):
  case <ofail|osoft> ttl=<ticks> inner=<ticks> hits=0 upd=0 bg=0                 -> ok
  begin                        -> model=<began:id|served:stored:s:id> p=<pending> t=<clock>
  fin <i> <outcome>            -> model=<answered:<res>|noop> p=<pending> t=<clock>
  adv <ticks>                  -> model=ok p=<pending> t=<clock>
  outcome = ok | lis | unl | rej (the condition turns the result down)
          | preL | preU (condition / callable ttl raises a listed / unlisted exception) | setL | setU (backend.set raises)
-/
open CashewsVerif CashewsVerif.Proto CashewsVerif.Decor

inductive St where
  | none
  | early (c : Early.Cfg) (s : Early.St)
  | soft (c : Soft.Cfg) (s : Soft.St)
  | fail (c : Fail.Cfg) (s : Fail.St)
  | hit (c : Hit.Cfg) (s : Hit.St)
  | ofail (c : Fail.Cfg) (s : Overlap.St)
  | osoft (c : Soft.Cfg) (s : Overlap.St)

def parseOutcome? (s : String) : Option Outcome :=
  if s = "ok" then some .ok else if s = "lis" then some .listed else if s = "unl" then some .unlisted
  else if s = "rej" then some .rejected
  else if s = "preL" then some (.storeFails .pre true) else if s = "preU" then some (.storeFails .pre false)
  else if s = "setL" then some (.storeFails .set true) else if s = "setU" then some (.storeFails .set false)
  else none

def showOutcome : Outcome → String
  | .ok => "ok" | .listed => "lis" | .unlisted => "unl" | .rejected => "rej"
  | .storeFails .pre true => "preL" | .storeFails .pre false => "preU"
  | .storeFails .set true => "setL" | .storeFails .set false => "setU"

def parseField? (name : String) (s : String) : Option Nat :=
  match s.splitOn "=" with
  | [n, v] => if n = name then v.toNat? else none
  | _ => none

def parseOp? : List String → Option DOp
  | ["call", o] => do pure (.call (← parseOutcome? o) 0)
  | ["call", o, d] => do pure (.call (← parseOutcome? o) (← d.toNat?))
  | ["adv", dt] => do pure (.adv (← dt.toNat?))
  | ["done", i, o] => do pure (.done (← i.toNat?) (← parseOutcome? o))
  | _ => none

def showRes : Res → String
  | .fresh s i => s!"fresh:{s}:{i}"
  | .stored s i => s!"stored:{s}:{i}"
  | .raised o => s!"raised:{showOutcome o}"
  | .storeErr l => if l then "storeerr:lis" else "storeerr:unl"
  | .joined i => s!"joined:{i}"
  | .broken => "broken"

def b01 (b : Bool) : String := if b then "1" else "0"

def showAns : Ans → String
  | .call out => s!"model={showRes out.res} x={b01 out.exec} b={b01 (out.started && !out.exec)}"
  | .ok => "model=ok"
  | .done .noop => "model=noop"
  | .done .stored => "model=stored"
  | .done .skipped => "model=skipped"
  | .done .failed => "model=failed"

def parseCase? : List String → Option St
  | ["case", d, ttl, inner, hits, upd, bg] => do
    let ttl ← parseField? "ttl" ttl
    let inner ← parseField? "inner" inner
    let hits ← parseField? "hits" hits
    let upd ← parseField? "upd" upd
    let bg ← parseField? "bg" bg
    let bg ← if bg = 0 then some false else if bg = 1 then some true else none
    if d = "early" then some (.early ⟨ttl, inner, bg⟩ Early.init)
    else if d = "soft" then some (.soft ⟨ttl, inner⟩ Soft.init)
    else if d = "fail" then some (.fail ⟨ttl⟩ Fail.init)
    else if d = "hit" then some (.hit ⟨ttl, hits, upd, bg⟩ Hit.init)
    else if d = "ofail" then some (.ofail ⟨ttl⟩ Overlap.init)
    else if d = "osoft" then some (.osoft ⟨ttl, inner⟩ Overlap.init)
    else none
  | _ => none

def parseCOp? : List String → Option Overlap.COp
  | ["begin"] => some .begin
  | ["fin", i, o] => do pure (.fin (← i.toNat?) (← parseOutcome? o))
  | ["adv", dt] => do pure (.adv (← dt.toNat?))
  | _ => none

def showCAns : Overlap.CAns → String
  | .began id => s!"model=began:{id}"
  | .served r => s!"model=served:{showRes r}"
  | .answered r => s!"model=answered:{showRes r}"
  | .ok => "model=ok"
  | .noop => "model=noop"

def step (st : St) (line : String) : St × String :=
  let ws := words line
  match ws with
  | "case" :: _ =>
    match parseCase? ws with
    | some s => (s, "ok")
    | none => (st, "bad-op")
  | _ =>
    match st with
    | .ofail c s =>
      match parseCOp? ws with
      | none => (st, "bad-op")
      | some op => let r := Overlap.failStep c s op; (.ofail c r.1, s!"{showCAns r.2} p={r.1.pending.length} t={r.1.t.now}")
    | .osoft c s =>
      match parseCOp? ws with
      | none => (st, "bad-op")
      | some op => let r := Overlap.softStep c s op; (.osoft c r.1, s!"{showCAns r.2} p={r.1.pending.length} t={r.1.t.now}")
    | _ =>
    match parseOp? ws with
    | none => (st, "bad-op")
    | some op =>
      match st with
      | .none => (st, "bad-op")
      | .ofail _ _ => (st, "bad-op")
      | .osoft _ _ => (st, "bad-op")
      | .early c s =>
        let r := Early.step c s op
        let w := match op with
          | .done i o => match Early.joinedAnswer s i o with
            | some res => s!" w={showRes res}"
            | none => " w=-"
          | _ => ""
        (.early c r.1, s!"{showAns r.2} n={r.1.inflight.length} t={r.1.t.now}{w}")
      | .soft c s => let r := Soft.step c s op; (.soft c r.1, s!"{showAns r.2} n=0 t={r.1.t.now}")
      | .fail c s => let r := Fail.step c s op; (.fail c r.1, s!"{showAns r.2} n=0 t={r.1.t.now}")
      | .hit c s => let r := Hit.step c s op; (.hit c r.1, s!"{showAns r.2} n={r.1.inflight.length} t={r.1.t.now}")

def main : IO Unit := mainLoop step St.none
