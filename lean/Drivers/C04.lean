import CashewsVerif.Driver.TxRead
/- Driver for C04: the same executable logic as driver_c03 (one shared model). -/
def main : IO Unit := CashewsVerif.TxDriver.runD
