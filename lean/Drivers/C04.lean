/- placeholder driver for C04: replaced when the check for C04 is built -/
def main : IO Unit := IO.println "not-built"
