import CashewsVerif.Driver.SerialDrv
/- Driver for C10 (signed storage): the shared serializer protocol of `Driver/SerialDrv.lean`
   over the model `Model/Serial.lean` (two-phase decode: `dec2` = decision before the unpickler,
   `dec3` = classification after it). -/
def main : IO Unit := CashewsVerif.Proto.mainLoop CashewsVerif.SerialDrv.step ()
