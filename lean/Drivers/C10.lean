/- placeholder driver for C10: replaced when the check for C10 is built -/
def main : IO Unit := IO.println "not-built"
