import CashewsVerif.Driver.Proto
import CashewsVerif.Model.Key
/-
Driver for C08.  Stateful lines (`sig`, `tmpl`, `ctx`) select the function signature, the template
and the key context; `call` lines are answered with the model's key and bindings; `text` lines
with the rendering of one value.  Text travels hex-encoded (UTF-8).

  sig <n> (<kind p|k|s|w> <name-hex> (- | <value>))*n          -> ok
  tmpl auto <module-hex> <name-hex> <qualname-hex> <m> <excluded-name-hex>*m-> tmpl=<format string, hex> sep=<0|1>
  tmpl ex <m> (L:<hex> | F:<hex>)*m                            -> tmpl=<format string, hex> sep=<0|1>
  ctx <0|1 rewrite> <m> (<name-hex> <value>)*m                 -> ok
  call <n> <value>*n <m> (<name-hex> <value>)*m                -> key=<hex|E> path=<F|S|E> b=<bound|E> p=<bound|E> d=<bound|E> q=<bound|E>
  text <value>                                                 -> fast=<hex> slow=<hex> sty=<scalar type|->
  value := s:<hex> | i:<int> | b:0 | b:1 | n | y:<hex> | t:<n> value*n | d:<n> (k:<key-hex> value)*n | e:<n> value*n  (set, iteration order)
-/
open CashewsVerif CashewsVerif.Proto CashewsVerif.KeyModel

def hexVal (c : Char) : Option Nat :=
  if '0' ≤ c && c ≤ '9' then some (c.toNat - 48)
  else if 'a' ≤ c && c ≤ 'f' then some (c.toNat - 87)
  else none

def unhex : List Char → Option (List Nat)
  | [] => some []
  | a :: b :: r => do
    let x ← hexVal a
    let y ← hexVal b
    let t ← unhex r
    pure ((x * 16 + y) :: t)
  | _ => none

/-- hex of UTF-8 -> text -/
def strOfHex (s : String) : Option Str := do
  let bs ← unhex s.toList
  let ba := ByteArray.mk (bs.map UInt8.ofNat).toArray
  let str ← String.fromUTF8? ba
  pure str.toList

def hexOfStr (s : Str) : String :=
  String.ofList (hexOf ((String.ofList s).toUTF8.toList.map UInt8.toNat))

/-- parse one value from the token stream (fuel = number of tokens, every step consumes one) -/
def parseVal : Nat → List String → Option (PyVal × List String)
  | 0, _ => none
  | _, [] => none
  | fuel + 1, tok :: rest =>
    if tok = "n" then some (.none, rest)
    else match tok.splitOn ":" with
      | ["s", h] => (strOfHex h).map fun s => (.str s, rest)
      | ["i", x] => x.toInt?.map fun i => (.int i, rest)
      | ["b", "0"] => some (.bool false, rest)
      | ["b", "1"] => some (.bool true, rest)
      | ["y", h] => (unhex h.toList).map fun bs => (.bytes bs, rest)
      | ["t", n] => do
        let n ← n.toNat?
        let (vs, rest') ← many fuel n rest
        pure (.tuple vs, rest')
      | ["d", n] => do
        let n ← n.toNat?
        let (kvs, rest') ← manyKv fuel n rest
        pure (.dict kvs, rest')
      | ["e", n] => do
        let n ← n.toNat?
        let (vs, rest') ← many fuel n rest
        pure (.set vs, rest')
      | _ => none
where
  many (fuel : Nat) : Nat → List String → Option (List PyVal × List String)
    | 0, ts => some ([], ts)
    | n + 1, ts => do
      let (v, ts') ← parseVal fuel ts
      let (vs, ts'') ← many fuel n ts'
      pure (v :: vs, ts'')
  manyKv (fuel : Nat) : Nat → List String → Option (Dict × List String)
    | 0, ts => some ([], ts)
    | _ + 1, [] => none
    | n + 1, k :: ts => do
      let k ← (match k.splitOn ":" with
        | ["k", h] => strOfHex h
        | _ => none)
      let (v, ts') ← parseVal fuel ts
      let (kvs, ts'') ← manyKv fuel n ts'
      pure ((k, v) :: kvs, ts'')

def pVal (ts : List String) : Option (PyVal × List String) := parseVal (ts.length + 1) ts

def pVals : Nat → List String → Option (List PyVal × List String)
  | 0, ts => some ([], ts)
  | n + 1, ts => do
    let (v, ts') ← pVal ts
    let (vs, ts'') ← pVals n ts'
    pure (v :: vs, ts'')

def pKvs : Nat → List String → Option (Dict × List String)
  | 0, ts => some ([], ts)
  | _ + 1, [] => none
  | n + 1, k :: ts => do
    let k ← strOfHex k
    let (v, ts') ← pVal ts
    let (kvs, ts'') ← pKvs n ts'
    pure ((k, v) :: kvs, ts'')

def pKind (s : String) : Option Kind :=
  if s = "p" then some .pos else if s = "k" then some .kwOnly
  else if s = "s" then some .varPos else if s = "w" then some .varKw else none

def pParams : Nat → List String → Option (Sig × List String)
  | 0, ts => some ([], ts)
  | n + 1, k :: nm :: ts => do
    let kind ← pKind k
    let name ← strOfHex nm
    let (d, ts') ← (match ts with
      | "-" :: r => some (none, r)
      | _ => (pVal ts).map fun (v, r) => (some v, r))
    let (ps, ts'') ← pParams n ts'
    pure ({ name := name, kind := kind, dflt := d } :: ps, ts'')
  | _, _ => none

def pNames : Nat → List String → Option (List Str × List String)
  | 0, ts => some ([], ts)
  | _ + 1, [] => none
  | n + 1, t :: ts => do
    let s ← strOfHex t
    let (r, ts') ← pNames n ts
    pure (s :: r, ts')

def pItems : List String → Option Tmpl
  | [] => some []
  | t :: ts => do
    let it ← (match t.splitOn ":" with
      | ["L", h] => (strOfHex h).map Item.lit
      | ["F", h] => (strOfHex h).map Item.field
      | _ => none)
    let r ← pItems ts
    pure (it :: r)

mutual
  def encVal : PyVal → List String
    | .str s => ["s:" ++ hexOfStr s]
    | .int i => ["i:" ++ toString i]
    | .bool b => [if b then "b:1" else "b:0"]
    | .none => ["n"]
    | .bytes bs => ["y:" ++ String.ofList (hexOf bs)]
    | .tuple vs => ("t:" ++ toString vs.length) :: encVals vs
    | .dict kvs => ("d:" ++ toString kvs.length) :: encKvs kvs
    | .set vs => ("e:" ++ toString vs.length) :: encVals vs
  def encVals : List PyVal → List String
    | [] => []
    | v :: r => encVal v ++ encVals r
  def encKvs : List (Str × PyVal) → List String
    | [] => []
    | (k, v) :: r => ("k:" ++ hexOfStr k) :: (encVal v ++ encKvs r)
end

def encBVal : BVal → List String
  | .one v => encVal v
  | .star vs => encVal (.tuple vs)
  | .kw kvs => encVal (.dict kvs)

def encBound : Option Bound → String
  | none => "E"
  | some b => "[" ++ ",".intercalate (b.map fun (n, v) => hexOfStr n ++ "=" ++ ".".intercalate (encBVal v)) ++ "]"

def scalarTy : PyVal → String
  | .str _ => "str" | .int _ => "int" | .bool _ => "bool" | .none => "none" | .bytes _ => "bytes"
  | .tuple _ => "tuple" | .dict _ => "dict" | .set _ => "set"

structure St where
  sig : Sig := []
  tmpl : Tmpl := []
  ctx : Ctx := {}

def step (st : St) (line : String) : St × String :=
  match words line with
  | "sig" :: n :: ts =>
    match n.toNat? with
    | none => (st, "bad-op")
    | some n =>
      match pParams n ts with
      | some (ps, []) => ({ st with sig := ps }, "ok")
      | _ => (st, "bad-op")
  | "tmpl" :: "auto" :: mod :: name :: qual :: m :: ts =>
    match strOfHex mod, strOfHex name, strOfHex qual, m.toNat? with
    | some mod, some name, some qual, some m =>
      match pNames m ts with
      | some (ex, []) =>
        let t := autoTemplate mod name qual ex st.sig
        ({ st with tmpl := t }, "tmpl=" ++ hexOfStr t.toFormat ++ (if separated t then " sep=1" else " sep=0"))
      | _ => (st, "bad-op")
    | _, _, _, _ => (st, "bad-op")
  | "tmpl" :: "ex" :: m :: ts =>
    match m.toNat?, pItems ts with
    | some m, some t => if t.length = m then ({ st with tmpl := t }, "tmpl=" ++ hexOfStr t.toFormat ++ (if separated t then " sep=1" else " sep=0")) else (st, "bad-op")
    | _, _ => (st, "bad-op")
  | "ctx" :: rw :: m :: ts =>
    match m.toNat? with
    | none => (st, "bad-op")
    | some m =>
      match pKvs m ts with
      | some (kvs, []) =>
        if rw = "0" then ({ st with ctx := { vals := kvs, rewrite := false } }, "ok")
        else if rw = "1" then ({ st with ctx := { vals := kvs, rewrite := true } }, "ok")
        else (st, "bad-op")
      | _ => (st, "bad-op")
  | "call" :: n :: ts =>
    match n.toNat? with
    | none => (st, "bad-op")
    | some n =>
      match pVals n ts with
      | some (args, m :: ts') =>
        match m.toNat? with
        | none => (st, "bad-op")
        | some m =>
          match pKvs m ts' with
          | some (kw, []) =>
            let c : Call := { args := args, kwargs := kw }
            let key := match cacheKey st.sig st.tmpl st.ctx c with
              | some k => hexOfStr k
              | none => "E"
            let path := match callValues st.sig c with
              | some vals =>
                let all := withCtx st.ctx vals
                if fastPath st.tmpl all then "F" else "S"
              | none => "E"
            let b := bind false st.sig c
            let p := bind true st.sig c
            (st, s!"key={key} path={path} b={encBound b} p={encBound p} d={encBound (b.map (applyDefaults st.sig))} q={encBound (p.map (applyDefaults st.sig))}")
          | _ => (st, "bad-op")
      | _ => (st, "bad-op")
  | "text" :: ts =>
    match pVal ts with
    | some (v, []) => (st, s!"fast={hexOfStr (typeFmt v)} slow={hexOfStr (fmtField v)} sty={scalarTy v}")
    | _ => (st, "bad-op")
  | _ => (st, "bad-op")

def main : IO Unit := mainLoop step {}
