/- placeholder driver for C08: replaced when the check for C08 is built -/
def main : IO Unit := IO.println "not-built"
