/- placeholder driver for C06: replaced when the check for C06 is built -/
def main : IO Unit := IO.println "not-built"
