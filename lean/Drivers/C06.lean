import CashewsVerif.Driver.Proto
import CashewsVerif.Model.Lock
/- Driver for C06: replays a recorded trace of lock-protocol actions on the transition system of
`Model/Lock.lean`, once over the in-memory backend model (`model=`) and once over the ideal TTL map
(`spec=`), and reports after every action who is inside which section and whether within the lease
(`in=` task:key:L|X|U, from the spec run; U = in the section without a lock) and which threads are in
a transaction (`tx=` thread:mode:depth:overlay size).  Keys are numbered `100 * backend + k`: backend
`key / 100` owns `key`.

    case <cap>
    backend <b> <set_lock 0|1> <ping 0|1>      health of a configured backend (default: healthy)
    enter <t> <thread> <key> <ttl|-> <w|n>
    txbegin <thread> <f|l|s>
    txset <thread> <k> <v>
    txend <thread> <c|r>
    attempt <t>
    leave <t> <n|e|c|g|x:ClassName>
    giveup <t>
    tick <dt>
    funlock <key> <n>
    probe <key>
    purge
-/
open CashewsVerif CashewsVerif.Proto CashewsVerif.Lock

structure St where
  mem  : LockSt Mem
  spec : LockSt TtlMap
  ids  : List Nat
  ths  : List Nat

def parseExc (name : String) : ExcClass :=
  if name = "CacheError" then .cacheError
  else if name = "BackendNotAvailableError" then .backendNotAvailable
  else if name = "NotConfiguredError" then .notConfigured
  else if name = "UnsupportedPicklerError" then .unsupportedPickler
  else if name = "UnSecureDataError" then .unSecureData
  else if name = "SignIsMissingError" then .signIsMissing
  else if name = "WrongKeyError" then .wrongKey
  else if name = "TagNotRegisteredError" then .tagNotRegistered
  else if name = "LockedError" then .locked
  else if name = "CacheBackendInteractionError" then .backendInteraction
  else if name = "RateLimitError" then .rateLimit
  else if name = "CircuitBreakerOpen" then .circuitBreakerOpen
  else if name = "BaseException" then .baseException
  else if name = "user" then .user
  else .other

/-- `n` normal, `e` an exception of the application, `x:<ClassName>` an exception of that class, `c` cancellation,
`g` GeneratorExit at a yield point -/
def parseHow? (s : String) : Option How :=
  if s = "n" then some .normal else if s = "e" then some (.exc .user) else if s = "c" then some .cancel
  else if s = "g" then some .closed
  else if s.startsWith "x:" then some (.exc (parseExc (s.drop 2).toString))
  else none

def parseWait? (s : String) : Option Bool :=
  if s = "w" then some true else if s = "n" then some false else none

def parseBit? (s : String) : Option Bool :=
  if s = "1" then some true else if s = "0" then some false else none

def parseMode? (s : String) : Option TxMode :=
  if s = "f" then some .fast else if s = "l" then some .locked else if s = "s" then some .serializable else none

def parseCommit? (s : String) : Option Bool :=
  if s = "c" then some true else if s = "r" then some false else none

def parseAct? : List String → Option Act
  | ["enter", t, th, key, ttl, w] => do
    pure (.enter (← t.toNat?) (← th.toNat?) (← key.toNat?) (← parseTtl? ttl) (← parseWait? w))
  | ["backend", b, sl, pg] => do pure (.setHealth (← b.toNat?) ⟨← parseBit? sl, ← parseBit? pg⟩)
  | ["txbegin", th, m] => do pure (.txBegin (← th.toNat?) (← parseMode? m))
  | ["txset", th, k, v] => do pure (.txSet (← th.toNat?) (← k.toNat?) (← v.toNat?))
  | ["txend", th, c] => do pure (.txEnd (← th.toNat?) (← parseCommit? c))
  | ["attempt", t] => do pure (.attempt (← t.toNat?))
  | ["leave", t, how] => do pure (.leave (← t.toNat?) (← parseHow? how))
  | ["giveup", t] => do pure (.giveUp (← t.toNat?))
  | ["tick", dt] => do pure (.tick (← dt.toNat?))
  | ["funlock", key, n] => do pure (.foreignUnlock (← key.toNat?) (← n.toNat?))
  | ["probe", key] => do pure (.probe (← key.toNat?))
  | ["purge"] => some .purge
  | _ => none

def showLOut : LOut → String
  | .unit => "U"
  | .acquired => "A"
  | .retry => "R"
  | .locked => "L"
  | .noLocking => "N"
  | .down => "D"
  | .released true => "rT"
  | .released false => "rF"
  | .bool true => "T"
  | .bool false => "F"
  | .ignored => "I"

def showInside (s : LockSt TtlMap) (ids : List Nat) : String :=
  let items := ids.filterMap fun t =>
    match s.tasks t with
    | .inside key _ dl => some s!"{t}:{key}:{if liveAt dl s.be.now then "L" else "X"}"
    | .unguarded key => some s!"{t}:{key}:U"
    | _ => none
  if items.isEmpty then "-" else ",".intercalate items

def showMode : TxMode → String
  | .fast => "f"
  | .locked => "l"
  | .serializable => "s"

def showTx (s : LockSt TtlMap) (ths : List Nat) : String :=
  let items := ths.filterMap fun th =>
    match s.tx th with
    | some c => some s!"{th}:{showMode c.mode}:{c.depth}:{c.overlay.length}"
    | none => none
  if items.isEmpty then "-" else ",".intercalate items

def actTask? : Act → Option Nat
  | .enter t .. => some t
  | _ => none

def actThread? : Act → Option Nat
  | .txBegin th _ => some th
  | _ => none

def step' (st : St) (line : String) : St × String :=
  match words line with
  | ["case", cap] =>
    match cap.toNat? with
    | some c => ({ mem := initRouted (Mem.init c) 100, spec := initRouted TtlMap.init 100, ids := [], ths := [] }, "ok")
    | none => (st, "bad-op")
  | ws =>
    match parseAct? ws with
    | none => (st, "bad-op")
    | some a =>
      let (m', o) := step memOps st.mem a
      let (t', o') := step ttlOps st.spec a
      let ids := match actTask? a with
        | some t => if st.ids.contains t then st.ids else st.ids ++ [t]
        | none => st.ids
      let ths := match actThread? a with
        | some th => if st.ths.contains th then st.ths else st.ths ++ [th]
        | none => st.ths
      ({ mem := m', spec := t', ids := ids, ths := ths },
       s!"model={showLOut o} spec={showLOut o'} in={showInside t' ids} tx={showTx t' ths}")

def main : IO Unit :=
  mainLoop step' { mem := initRouted (Mem.init 1000) 100, spec := initRouted TtlMap.init 100, ids := [], ths := [] }
