import CashewsVerif.Driver.Proto
import CashewsVerif.Model.Lock
/- Driver for C06: replays a recorded trace of lock-protocol actions on the transition system of
`Model/Lock.lean`, once over the in-memory backend model (`model=`) and once over the ideal TTL map
(`spec=`), and reports after every action who is inside which section and whether within the lease
(`in=` task:key:L|X, from the spec run).

    case <cap>
    enter <t> <key> <ttl|-> <w|n>
    attempt <t>
    leave <t> <n|e|c>
    giveup <t>
    tick <dt>
    funlock <key> <n>
    probe <key>
    purge
-/
open CashewsVerif CashewsVerif.Proto CashewsVerif.Lock

structure St where
  mem  : LockSt Mem
  spec : LockSt TtlMap
  ids  : List Nat

def parseHow? (s : String) : Option How :=
  if s = "n" then some .normal else if s = "e" then some .exc else if s = "c" then some .cancel else none

def parseWait? (s : String) : Option Bool :=
  if s = "w" then some true else if s = "n" then some false else none

def parseAct? : List String → Option Act
  | ["enter", t, key, ttl, w] => do
    pure (.enter (← t.toNat?) (← key.toNat?) (← parseTtl? ttl) (← parseWait? w))
  | ["attempt", t] => do pure (.attempt (← t.toNat?))
  | ["leave", t, how] => do pure (.leave (← t.toNat?) (← parseHow? how))
  | ["giveup", t] => do pure (.giveUp (← t.toNat?))
  | ["tick", dt] => do pure (.tick (← dt.toNat?))
  | ["funlock", key, n] => do pure (.foreignUnlock (← key.toNat?) (← n.toNat?))
  | ["probe", key] => do pure (.probe (← key.toNat?))
  | ["purge"] => some .purge
  | _ => none

def showLOut : LOut → String
  | .unit => "U"
  | .acquired => "A"
  | .retry => "R"
  | .locked => "L"
  | .released true => "rT"
  | .released false => "rF"
  | .bool true => "T"
  | .bool false => "F"
  | .ignored => "I"

def showInside (s : LockSt TtlMap) (ids : List Nat) : String :=
  let items := ids.filterMap fun t =>
    match s.tasks t with
    | .inside key _ dl => some s!"{t}:{key}:{if liveAt dl s.be.now then "L" else "X"}"
    | _ => none
  if items.isEmpty then "-" else ",".intercalate items

def actTask? : Act → Option Nat
  | .enter t .. => some t
  | _ => none

def step' (st : St) (line : String) : St × String :=
  match words line with
  | ["case", cap] =>
    match cap.toNat? with
    | some c => ({ mem := init (Mem.init c), spec := init TtlMap.init, ids := [] }, "ok")
    | none => (st, "bad-op")
  | ws =>
    match parseAct? ws with
    | none => (st, "bad-op")
    | some a =>
      let (m', o) := step memOps st.mem a
      let (t', o') := step ttlOps st.spec a
      let ids := match actTask? a with
        | some t => if st.ids.contains t then st.ids else st.ids ++ [t]
        | none => st.ids
      ({ mem := m', spec := t', ids := ids },
       s!"model={showLOut o} spec={showLOut o'} in={showInside t' ids}")

def main : IO Unit :=
  mainLoop step' { mem := init (Mem.init 1000), spec := init TtlMap.init, ids := [] }
