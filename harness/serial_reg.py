"""C09 - registration programs: `register_type` calls interleaved with the construction of caches, writes and reads.

`Serializer._type_mapping` is a class attribute updated by `register_type` at any time; `encode` and `decode` must both
consult the registry of the moment (Model/Serial.lean: the explicit argument `reg`).  A program is a list of steps

    ["cache", cid, {config}]             build a cache (Cache.setup('mem://...')) - the serializer is created here
    ["reg", ClassName, codec]            register_type(cls, enc, dec) with harness codec 0/1/2 (serial.codec_enc / codec_dec)
    ["set", cid, key, value, how]        how = "set" | "set_many"
    ["get", cid, key]                    read through get(default=sentinel), get_many, get (default None)
    ["copy", cidA, cidB, key]            raw copy of the stored form from cache A to cache B (same configuration)

run with the class-level registry reset to what `import cashews` leaves (only `bytes`), inside `serial.RegistrySandbox`.
Every sub-list of a program is a program (steps on caches that do not exist / keys never written are skipped), which is
what the shrinker relies on.

Compared: (a) stored forms, unpickler calls and results with the model, whose `reg=` field is the list of registrations made
so far at the time of each call; (b) the property (decode_encode_registries): a value whose type was registered at write
time under codec w and is registered at read time under a codec r with dec_r(enc_w(payload)) = payload - in particular the
same registration - and a value written (pickled / kept raw) before its type was registered, reads back equal, whatever
was registered in between and whenever the caches were built.
"""
from __future__ import annotations

from . import serial as S
from . import vtime
from .core import HarnessError, ddmin

KEYS = ["k", "k_", "a:b", "Money:k", "é", "0", "user:1"]
PAYLOADS = [b"", b"abc", b"12.50:EUR", b"a\nb", b"x_y", b"+", b"=", b"=abc", b"+abc", b"\x80\x05N.", b"123", b":"]
# plain values that must be indifferent to registrations: some look like envelopes of the late types
PLAIN = [b"Money:+abc", b"Item:=x", "Money:+abc", "Item:", b"", b"123", 7, None, ["Money:", 1], {"Item:+": "x"}, 1.5, True]
NAMES = ["Money", "Item", "cls", "Node", "Ωmega", "bytesX", "d", "int8", "Key", "Str"]


# ----------------------------------------------------------------------------------------------------
# generation
# ----------------------------------------------------------------------------------------------------
def _conf_json(c: S.Conf) -> dict:
    return {"pickle_type": c.pickle_type, "secret": c.secret, "digest": c.digest, "via": c.via}


def _conf_of(d: dict) -> S.Conf:
    return S.Conf(d.get("pickle_type"), d.get("secret"), d.get("digest", "md5"), d.get("via", "url"))


def _boxed(rng, name):
    p = rng.choice(PAYLOADS) if rng.random() < 0.7 else bytes(rng.randrange(256) for _ in range(rng.randrange(0, 20)))
    return S.BOX[name](p)


def _plain(rng, conf: S.Conf):
    for _ in range(20):
        v = rng.choice(PLAIN)
        if not conf.is_json or S.json_applicable(v):
            return v
    return "x"


def template(rng, conf: S.Conf, kind: str):
    cj = _conf_json(conf)
    x, y = rng.sample(NAMES, 2)
    cx = rng.choice([0, 0, 1, 2])
    k1, k2, k3 = rng.sample(KEYS, 3)
    how = lambda: rng.choice(["set", "set", "set_many"])  # noqa: E731
    if kind == "before":        # control: the ordering the library's own tests and an ordinary application start-up have
        return [["reg", x, cx], ["cache", "A", cj], ["set", "A", k1, _boxed(rng, x), how()], ["get", "A", k1]]
    if kind == "after":         # cache.setup() first, register_type afterwards
        return [["cache", "A", cj], ["reg", x, cx], ["set", "A", k1, _boxed(rng, x), "set"], ["get", "A", k1],
                ["set", "A", k2, _boxed(rng, x), "set_many"], ["get", "A", k2], ["set", "A", k3, _plain(rng, conf), how()],
                ["get", "A", k3]]
    if kind == "between":       # registered between the construction of two caches; both must write and read it, and read
        return [["cache", "A", cj], ["reg", x, cx], ["cache", "B", cj],            # what the other one wrote
                ["set", "A", k1, _boxed(rng, x), how()], ["set", "B", k2, _boxed(rng, x), how()],
                ["copy", "A", "B", k1], ["copy", "B", "A", k2],
                ["get", "A", k1], ["get", "B", k2], ["get", "B", k1], ["get", "A", k2]]
    if kind == "rereg":         # the same name registered again with another codec after values were written and read
        cy = rng.choice([c for c in (0, 1, 2) if c != cx])
        return [["reg", x, cx], ["cache", "A", cj], ["set", "A", k1, _boxed(rng, x), how()], ["get", "A", k1],
                ["reg", x, cy], ["get", "A", k1], ["set", "A", k2, _boxed(rng, x), how()], ["get", "A", k2], ["get", "A", k1]]
    if kind == "other_late":    # the registry grows by ANOTHER name between write and read
        return [["reg", x, cx], ["cache", "A", cj], ["set", "A", k1, _boxed(rng, x), how()], ["reg", y, rng.choice([0, 1, 2])],
                ["get", "A", k1], ["set", "A", k2, _boxed(rng, y), how()], ["get", "A", k2], ["get", "A", k1],
                ["set", "A", k3, _plain(rng, conf), how()], ["get", "A", k3]]
    if kind == "unreg_write":   # written (pickled / kept as an object) before its type was registered, read after
        if conf.is_json:        # json cannot represent an unregistered class: not a supported value there
            return template(rng, conf, "after")
        return [["cache", "A", cj], ["set", "A", k1, _boxed(rng, x), how()], ["get", "A", k1], ["reg", x, cx],
                ["get", "A", k1], ["set", "A", k2, _boxed(rng, x), how()], ["get", "A", k2], ["get", "A", k1]]
    raise HarnessError(f"unknown program template {kind}")


TEMPLATES = ["before", "after", "between", "rereg", "other_late", "unreg_write"]


def random_program(rng, confs):
    conf_a = rng.choice(confs)
    conf_b = conf_a if rng.random() < 0.6 else rng.choice(confs)
    names = rng.sample(NAMES, 3)
    keys = rng.sample(KEYS, 3)
    steps = []
    built = []
    registered = set()
    for _ in range(rng.randrange(6, 16)):
        r = rng.random()
        if (r < 0.15 and len(built) < 2) or not built:
            cid = "AB"[len(built)] if len(built) < 2 else "A"
            if cid not in built:
                built.append(cid)
                steps.append(["cache", cid, _conf_json(conf_a if cid == "A" else conf_b)])
                continue
        if r < 0.35:
            n = rng.choice(names)
            registered.add(n)
            steps.append(["reg", n, rng.choice([0, 0, 1, 2])])
        elif r < 0.65:
            cid = rng.choice(built)
            conf = conf_a if cid == "A" else conf_b
            n = rng.choice(names)
            if rng.random() < 0.25:
                v = _plain(rng, conf)
            elif n in registered or not conf.is_json:
                v = _boxed(rng, n)
            else:
                v = _plain(rng, conf)
            steps.append(["set", cid, rng.choice(keys), v, rng.choice(["set", "set_many"])])
        elif r < 0.92:
            steps.append(["get", rng.choice(built), rng.choice(keys)])
        elif len(built) == 2 and conf_a == conf_b:
            a, b = rng.sample(built, 2)
            steps.append(["copy", a, b, rng.choice(keys)])
    for cid in built:
        for k in keys:
            steps.append(["get", cid, k])
    return steps


def gen_programs(rng, confs, n_random: int):
    out = []
    for conf in confs:
        for kind in TEMPLATES:
            out.append((f"prog:{kind}:{conf.name()}", template(rng, conf, kind)))
    for i in range(n_random):
        out.append((f"prog:random:{i}", random_program(rng, confs)))
    return out


# ----------------------------------------------------------------------------------------------------
# (de)serialisation for corpus / replay files
# ----------------------------------------------------------------------------------------------------
def program_to_json(steps) -> list:
    return [[s[0], s[1], s[2], repr(s[3]), s[4]] if s[0] == "set" else list(s) for s in steps]


def program_from_json(steps, ns: dict) -> list:
    return [[s[0], s[1], s[2], eval(s[3], dict(ns)), s[4]] if s[0] == "set" else list(s) for s in steps]  # repository files


# ----------------------------------------------------------------------------------------------------
# implementation side
# ----------------------------------------------------------------------------------------------------
def run_program(steps):
    """events: one dict per executed set / get step"""

    async def go(sb: S.RegistrySandbox):
        caches: dict = {}
        written: dict = {}      # (cid, key) -> (value, {tag: codec} at write time, writer cid)
        events = []
        t = 0
        reg_time: dict = {}     # tag -> step index of its first / latest registration
        for step in steps:
            t += 1
            op = step[0]
            if op == "cache":
                conf = _conf_of(step[2])
                cache, _, rec = conf.setup()
                caches[step[1]] = (conf, cache, rec, t)
            elif op == "reg":
                tag = step[1].encode("utf8")
                reg_time.setdefault(tag, []).append(t)
                sb.register(step[1], step[2])
            elif op == "set":
                _, cid, key, value, how = step
                if cid not in caches:
                    continue
                conf, cache, rec, built = caches[cid]
                rec.reset()
                try:
                    if how == "set_many":
                        await cache.set_many({key: value})
                        res = True
                    else:
                        res = await cache.set(key, value)
                except Exception as exc:  # noqa: BLE001
                    res = "raised:" + type(exc).__name__
                raw = await cache.get_raw(key)
                # an instance of an unregistered class is not a value the json pickler supports (no statement about it)
                supported = not (conf.is_json and isinstance(value, S.Boxed)
                                 and type(value).__name__.encode("utf8") not in sb.current())
                written[(cid, key)] = (value, sb.current(), cid, supported)
                events.append({"op": "set", "supported": supported, "cid": cid, "conf": conf, "key": key, "value": value, "how": how, "res": res,
                               "dumps": list(rec.dumps_calls), "raw": raw, "reg": sb.field(), "built": built, "t": t,
                               "reg_time": {k: list(v) for k, v in reg_time.items()}})
            elif op == "get":
                _, cid, key = step
                if cid not in caches or (cid, key) not in written:
                    continue
                conf, cache, rec, built = caches[cid]
                raw = await cache.get_raw(key)
                rec.reset()
                get_a = await S.read(cache.get(key, default=S.SENT))
                loads = list(rec.loads_calls)
                many = await S.read(cache.get_many(key, default=S.SENT))
                if many[0] == "value":
                    x = many[1][0] if len(many[1]) else S.SENT
                    many = ("dflt", None) if x is S.SENT else ("value", x)
                get_c = await S.read(cache.get(key))
                value, wreg, wcid, supported = written[(cid, key)]
                events.append({"op": "get", "supported": supported, "cid": cid, "conf": conf, "key": key, "raw": raw, "getA": get_a, "loads": loads,
                               "manyB": many, "getC": get_c, "reg": sb.field(), "rreg": sb.current(), "value": value,
                               "wreg": wreg, "wcid": wcid, "built": built, "t": t,
                               "reg_time": {k: list(v) for k, v in reg_time.items()}})
            elif op == "copy":
                _, a, b, key = step
                if a not in caches or b not in caches or (a, key) not in written or caches[a][0] != caches[b][0]:
                    continue
                raw = await caches[a][1].get_raw(key)
                await caches[b][1].set_raw(key, raw)
                written[(b, key)] = written[(a, key)]
            else:
                raise HarnessError(f"unknown program step {step!r}")
        return events

    with S.RegistrySandbox() as sb:
        return vtime.run(lambda: go(sb))


def hypothesis_holds(ev) -> bool:
    """the hypotheses of decode_encode_registries for this read, evaluated literally (hR; P1-P3 are sampled elsewhere)"""
    v = ev["value"]
    if not ev["supported"]:
        return False
    if type(v) is int:
        return True
    tag = type(v).__name__.encode("utf8")
    wreg, rreg = ev["wreg"], ev["rreg"]
    if tag not in wreg:
        return True                         # pickled / kept as an object: the pickler hypotheses
    if tag not in rreg:
        return False
    if wreg[tag] is None:                   # the built-in bytes pair
        return rreg[tag] is None
    if not isinstance(v, S.Boxed) or rreg[tag] is None:
        return False
    return S.codec_dec(rreg[tag], S.codec_enc(wreg[tag], v.payload)) == v.payload


# ----------------------------------------------------------------------------------------------------
# model side + comparison
# ----------------------------------------------------------------------------------------------------
def evaluate_programs(programs, ids: S.Ids, driver):
    """programs: list of step lists.  Returns (problems per program [(kind, text)], tags per program, sample lines)"""
    runs = [run_program(steps) for steps in programs]
    flat = [(pi, ev) for pi, evs in enumerate(runs) for ev in evs]
    sets = [(pi, ev) for pi, ev in flat if ev["op"] == "set"]
    gets = [(pi, ev) for pi, ev in flat if ev["op"] == "get"]

    def base(ev):
        return f"{ev['conf'].fields(ev['reg'])} key={ev['key'].encode('utf8').hex()}"

    def dumps_field(ev):
        return "dumps=" + S.show_val(ev["dumps"][-1][1], ids) if ev["dumps"] else "dumps=-"

    l1 = [f"enc1 {base(ev)} v={S.show_val(ev['value'], ids)} {dumps_field(ev)}" for _, ev in sets]
    a1 = S.ask_par(driver, l1)
    l2 = [l.replace("enc1 ", "enc2 ", 1) + " " + S.mac_field(a, ev["conf"].secret) for l, a, (_, ev) in zip(l1, a1, sets)]
    a2 = S.ask_par(driver, l2)
    l3 = [f"dec1 {base(ev)} w={S.show_val(ev['raw'], ids)} same=0" for _, ev in gets]
    a3 = S.ask_par(driver, l3)
    l4 = [l.replace("dec1 ", "dec2 ", 1) + " " + S.mac_field(a, ev["conf"].secret) for l, a, (_, ev) in zip(l3, a3, gets)]
    a4 = S.ask_par(driver, l4)

    def verdict(ev):
        if len(ev["loads"]) == 1:
            _, kind, res = ev["loads"][0]
            return "ok:" + S.show_val(res, ids) if kind == "ok" else kind
        return "-"

    l5 = [l.replace("dec2 ", "dec3 ", 1) + " loads=" + verdict(ev) for l, (_, ev) in zip(l4, gets)]
    a5 = S.ask_par(driver, l5)
    l6 = [f"dec3 {base(ev)} w={S.show_val(ev['raw'], ids)} same={1 if ev['raw'] is None else 0} "
          + S.mac_field(a, ev["conf"].secret) + " loads=" + verdict(ev) for a, (_, ev) in zip(a3, gets)]
    a6 = S.ask_par(driver, l6)
    for ans, line in [(a, l) for aa, ll in ((a1, l1), (a2, l2), (a3, l3), (a4, l4), (a5, l5), (a6, l6)) for a, l in zip(aa, ll)]:
        if ans == "bad-op":
            raise HarnessError(f"driver could not parse a registration-program request: {line[:300]}")
        if "miss=1" in ans:
            raise HarnessError(f"model asked for a MAC the driver did not announce: {ans}")

    problems = [[] for _ in programs]
    tags = [set() for _ in programs]
    for (pi, ev), m2 in zip(sets, a2):
        pr = problems[pi]
        where = f"[{ev['cid']}:{ev['conf'].name()}] {ev['how']}({ev['key']!r}, {ev['value']!r})"
        if ev["res"] is not True and ev["supported"]:
            pr.append(("spec", f"{where} -> {ev['res']}"))
        if not ev["supported"]:
            continue
        m_stored = m2.split()[0]
        i_stored = "stored=" + S.show_val(ev["raw"], ids)
        if m_stored != i_stored:
            pr.append(("model", f"{where}: stored form impl {i_stored[:120]} model {m_stored[:120]}"))
    for i, (pi, ev) in enumerate(gets):
        pr = problems[pi]
        conf = ev["conf"]
        v = ev["value"]
        want = S.canon_s(v)
        where = f"[{ev['cid']}:{conf.name()}]"
        tag = type(v).__name__.encode("utf8")
        # ---- (b) the property
        if hypothesis_holds(ev):
            for path, label in (("getA", "get"), ("manyB", "get_many"), ("getC", "get(default None)")):
                kind, got = ev[path]
                if kind != "value" or S.canon_s(got) != want:
                    shown = f"{got!r} ({type(got).__name__})" if kind == "value" else (kind + (":" + str(got) if got else ""))
                    when = ""
                    if tag in ev["reg_time"]:
                        when = (f"; {type(v).__name__} was registered at step {ev['reg_time'][tag]}, cache {ev['cid']} was built at "
                                f"step {ev['built']}, read at step {ev['t']}")
                    pr.append(("spec", f"{where} {label}({ev['key']!r}): stored {v!r} ({type(v).__name__}), read back {shown}{when}"))
        # ---- (a) implementation vs model
        pre = a4[i].split()[0]
        called = [p for p, _, _ in ev["loads"]]
        expect = [bytes.fromhex(pre.split(":", 1)[1])] if pre.startswith("pre=loads:") else []
        if called != expect:
            pr.append(("model", f"{where} unpickler calls on get({ev['key']!r}): impl {called!r} model {expect!r} ({pre[:80]})"))
        m_res = a5[i].split()[0]
        for path in ("getA", "manyB"):
            i_res = "res=" + S.show_outcome(ev[path], ids)
            if m_res != i_res:
                pr.append(("model", f"{where} {'get' if path == 'getA' else 'get_many'}({ev['key']!r}) of stored {v!r}: "
                                    f"impl {i_res[:120]} model {m_res[:120]}"))
        m_c = a6[i].split()[0]
        gc = ev["getC"]
        # with the default None a returned None is the default as much as a stored None: both read "dflt" here
        i_c = "res=dflt" if (gc[0] == "value" and gc[1] is None and (ev["raw"] is None or m_c == "res=dflt")) \
            else "res=" + S.show_outcome(gc, ids)
        if m_c != i_c:
            pr.append(("model", f"{where} get({ev['key']!r}) with default None of stored {v!r}: impl {i_c[:120]} model {m_c[:120]}"))
        # ---- interesting states
        t = tags[pi]
        times = ev["reg_time"].get(tag, [])
        if isinstance(v, S.Boxed):
            if times and min(times) > ev["built"]:
                t.add("type_registered_after_cache_was_built")
            if times and tag in ev["wreg"] and any(x > ev["built"] for x in times) and ev["wcid"] != ev["cid"]:
                t.add("read_by_another_cache_of_the_same_configuration")
            if tag not in ev["wreg"] and tag in ev["rreg"]:
                t.add("written_before_its_type_was_registered_read_after")
            if tag in ev["wreg"] and tag in ev["rreg"] and ev["wreg"][tag] != ev["rreg"][tag]:
                t.add("name_registered_again_with_another_codec" + ("" if hypothesis_holds(ev) else "_incompatible"))
            if tag in ev["wreg"] and len(ev["rreg"]) > len(ev["wreg"]):
                t.add("registry_grew_between_write_and_read")
            if pre.startswith("pre=custom:"):
                t.add("custom_decode_path")
        elif len(ev["rreg"]) > len(S.BASE_REG):
            t.add("plain_value_with_late_registrations")
    samples = [{"request": l5[i], "answer": a5[i]} for i in range(min(1, len(l5)))]
    return problems, tags, samples


def shrink_program(steps, kind: str, driver):
    def fails(st):
        try:
            return any(k == kind for k, _ in evaluate_programs([st], S.Ids(), driver)[0][0])
        except HarnessError:
            return False

    steps = ddmin(list(steps), fails) if len(steps) > 1 else list(steps)
    # shrink payloads
    for i, s in enumerate(steps):
        if s[0] == "set" and isinstance(s[3], S.Boxed) and s[3].payload:
            for p in (b"", s[3].payload[:1]):
                trial = steps[:i] + [[s[0], s[1], s[2], type(s[3])(p), s[4]]] + steps[i + 1:]
                if fails(trial):
                    steps = trial
                    break
    return steps
