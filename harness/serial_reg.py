"""C09 - registration programs: `register_type` calls interleaved with the construction of caches, writes and reads.

`Serializer._type_mapping` is a class attribute updated by `register_type` at any time; `encode` and `decode` must both
consult the registry of the moment (Model/Serial.lean: the explicit argument `reg`).  A program is a list of steps

    ["cache", cid, {config}]             build a cache (Cache.setup('mem://...')) - the serializer is created here
    ["reg", ClassId, codec]              register_type(cls, enc, dec) with harness codec 0/1/2 (serial.codec_enc / codec_dec); ClassId is a
                                         key of serial.CLASSES: module-level classes, classes nested in classes ("Api.Session",
                                         "Admin.Session": one __name__, two scopes), function-local classes ("LocalSample",
                                         "LocalSample2"), subclasses of registered classes ("SubItem", "Scope.Item")
    ["set", cid, key, value, how]        how = "set" | "set_many"
    ["get", cid, key]                    read through get(default=sentinel), get_many, get (default None)
    ["copy", cidA, cidB, key]            raw copy of the stored form from cache A to cache B (same configuration)

run with the class-level registry reset to what `import cashews` leaves (only `bytes`), inside `serial.RegistrySandbox`.
Every sub-list of a program is a program (steps on caches that do not exist / keys never written are skipped), which is
what the shrinker relies on.

Compared: (a) stored forms, unpickler calls and results with the model, whose `reg=` field is the list of registrations made
so far at the time of each call; (b) the property (decode_encode_registries): a value whose type was registered at write
time under codec w and is registered at read time under a codec r with dec_r(enc_w(payload)) = payload - in particular the
same registration - and a value written (pickled / kept raw) before its type was registered, reads back equal, whatever
was registered in between and whenever the caches were built.  "Registered" is a statement about the CLASS that was handed
to register_type: the slot of the class's __name__ must hold that very class's pair at write and at read time (classes that
share a __name__ share a slot - Registry.registerClass; where the slot holds another class's pair the property makes no claim
and only implementation == model is compared); (c) "round-trip THROUGH THAT PAIR": the registered encoder ran during the write
and the registered decoder during every read (serial.CODEC_CALLS).
"""
from __future__ import annotations

from . import serial as S
from . import vtime
from .core import HarnessError, ddmin

KEYS = ["k", "k_", "a:b", "Money:k", "é", "0", "user:1"]
PAYLOADS = [b"", b"abc", b"12.50:EUR", b"a\nb", b"x_y", b"+", b"=", b"=abc", b"+abc", b"\x80\x05N.", b"123", b":"]
# plain values that must be indifferent to registrations: some look like envelopes of the late types
PLAIN = [b"Money:+abc", b"Item:=x", "Money:+abc", "Item:", b"", b"123", 7, None, ["Money:", 1], {"Item:+": "x"}, 1.5, True]
NAMES = ["Money", "Item", "cls", "Node", "Ωmega", "bytesX", "d", "int8", "Key", "Str",
         "Api.Session", "LocalSample", "Admin.Session", "Api.Inner.Token", "LocalSample2"]
SCOPED = ["Api.Session", "Admin.Session", "LocalSample", "LocalSample2", "Api.Inner.Token"]
# (first class, second class with the same __name__ in another scope)
SAME_NAME = [("Api.Session", "Admin.Session"), ("LocalSample", "LocalSample2"), ("Token", "Api.Inner.Token"),
             ("Admin.Session", "Api.Session"), ("Api.Inner.Token", "Token")]


# ----------------------------------------------------------------------------------------------------
# generation
# ----------------------------------------------------------------------------------------------------
def _conf_json(c: S.Conf) -> dict:
    return {"pickle_type": c.pickle_type, "secret": c.secret, "digest": c.digest, "via": c.via}


def _conf_of(d: dict) -> S.Conf:
    return S.Conf(d.get("pickle_type"), d.get("secret"), d.get("digest", "md5"), d.get("via", "url"))


def _boxed(rng, name):
    p = rng.choice(PAYLOADS) if rng.random() < 0.7 else bytes(rng.randrange(256) for _ in range(rng.randrange(0, 20)))
    return S.CLASSES[name](p)


def _plain(rng, conf: S.Conf):
    for _ in range(20):
        v = rng.choice(PLAIN)
        if not conf.is_json or S.json_applicable(v):
            return v
    return "x"


def template(rng, conf: S.Conf, kind: str):
    cj = _conf_json(conf)
    x, y = rng.sample(NAMES, 2)
    cx = rng.choice([0, 0, 1, 2])
    k1, k2, k3 = rng.sample(KEYS, 3)
    how = lambda: rng.choice(["set", "set", "set_many"])  # noqa: E731
    if kind == "before":        # control: the ordering the library's own tests and an ordinary application start-up have
        return [["reg", x, cx], ["cache", "A", cj], ["set", "A", k1, _boxed(rng, x), how()], ["get", "A", k1]]
    if kind == "after":         # cache.setup() first, register_type afterwards
        return [["cache", "A", cj], ["reg", x, cx], ["set", "A", k1, _boxed(rng, x), "set"], ["get", "A", k1],
                ["set", "A", k2, _boxed(rng, x), "set_many"], ["get", "A", k2], ["set", "A", k3, _plain(rng, conf), how()],
                ["get", "A", k3]]
    if kind == "between":       # registered between the construction of two caches; both must write and read it, and read
        return [["cache", "A", cj], ["reg", x, cx], ["cache", "B", cj],            # what the other one wrote
                ["set", "A", k1, _boxed(rng, x), how()], ["set", "B", k2, _boxed(rng, x), how()],
                ["copy", "A", "B", k1], ["copy", "B", "A", k2],
                ["get", "A", k1], ["get", "B", k2], ["get", "B", k1], ["get", "A", k2]]
    if kind == "rereg":         # the same name registered again with another codec after values were written and read
        cy = rng.choice([c for c in (0, 1, 2) if c != cx])
        return [["reg", x, cx], ["cache", "A", cj], ["set", "A", k1, _boxed(rng, x), how()], ["get", "A", k1],
                ["reg", x, cy], ["get", "A", k1], ["set", "A", k2, _boxed(rng, x), how()], ["get", "A", k2], ["get", "A", k1]]
    if kind == "other_late":    # the registry grows by ANOTHER name between write and read
        return [["reg", x, cx], ["cache", "A", cj], ["set", "A", k1, _boxed(rng, x), how()], ["reg", y, rng.choice([0, 1, 2])],
                ["get", "A", k1], ["set", "A", k2, _boxed(rng, y), how()], ["get", "A", k2], ["get", "A", k1],
                ["set", "A", k3, _plain(rng, conf), how()], ["get", "A", k3]]
    if kind == "unreg_write":   # written (pickled / kept as an object) before its type was registered, read after
        if conf.is_json:        # json cannot represent an unregistered class: not a supported value there
            return template(rng, conf, "after")
        return [["cache", "A", cj], ["set", "A", k1, _boxed(rng, x), how()], ["get", "A", k1], ["reg", x, cx],
                ["get", "A", k1], ["set", "A", k2, _boxed(rng, x), how()], ["get", "A", k2], ["get", "A", k1]]
    if kind == "scoped":        # a registered class whose __qualname__ is not its __name__ (nested in a class, local to a function)
        x = rng.choice(SCOPED)
        return [["reg", x, cx], ["cache", "A", cj], ["set", "A", k1, _boxed(rng, x), "set"], ["get", "A", k1],
                ["set", "A", k2, _boxed(rng, x), "set_many"], ["get", "A", k2], ["reg", y, 0], ["get", "A", k1],
                ["set", "A", k3, _plain(rng, conf), how()], ["get", "A", k3]]
    if kind == "same_name":     # two classes with one __name__ in different scopes: one slot, the later registration serves both
        a, b = rng.choice(SAME_NAME)
        cb = rng.choice([0, 1, 2])
        return [["reg", a, cx], ["cache", "A", cj], ["set", "A", k1, _boxed(rng, a), how()], ["get", "A", k1],
                ["reg", b, cb], ["get", "A", k1], ["set", "A", k2, _boxed(rng, b), how()], ["get", "A", k2],
                ["set", "A", k3, _boxed(rng, a), how()], ["get", "A", k3]]
    if kind == "subclass":      # instances of subclasses of a registered class: `type(value)` is the exact class
        if conf.is_json:
            return [["reg", "Item", cx], ["cache", "A", cj], ["set", "A", k1, _boxed(rng, "Item"), how()], ["get", "A", k1],
                    ["set", "A", k2, _boxed(rng, "Scope.Item"), how()], ["get", "A", k2]]
        return [["reg", "Item", cx], ["cache", "A", cj], ["set", "A", k1, _boxed(rng, "SubItem"), how()], ["get", "A", k1],
                ["set", "A", k2, _boxed(rng, "Scope.Item"), how()], ["get", "A", k2],
                ["set", "A", k3, _boxed(rng, "Item"), how()], ["get", "A", k3], ["reg", "SubItem", 0],
                ["get", "A", k1], ["set", "A", k1, _boxed(rng, "SubItem"), how()], ["get", "A", k1]]
    raise HarnessError(f"unknown program template {kind}")


TEMPLATES = ["before", "after", "between", "rereg", "other_late", "unreg_write", "scoped", "same_name", "subclass"]


def random_program(rng, confs):
    conf_a = rng.choice(confs)
    conf_b = conf_a if rng.random() < 0.6 else rng.choice(confs)
    names = rng.sample(NAMES, 3)
    keys = rng.sample(KEYS, 3)
    steps = []
    built = []
    registered = set()
    for _ in range(rng.randrange(6, 16)):
        r = rng.random()
        if (r < 0.15 and len(built) < 2) or not built:
            cid = "AB"[len(built)] if len(built) < 2 else "A"
            if cid not in built:
                built.append(cid)
                steps.append(["cache", cid, _conf_json(conf_a if cid == "A" else conf_b)])
                continue
        if r < 0.35:
            n = rng.choice(names)
            registered.add(n)
            steps.append(["reg", n, rng.choice([0, 0, 1, 2])])
        elif r < 0.65:
            cid = rng.choice(built)
            conf = conf_a if cid == "A" else conf_b
            n = rng.choice(names)
            if rng.random() < 0.25:
                v = _plain(rng, conf)
            elif n in registered or not (conf.is_json or (conf.pk == "real" and S.CLASSES[n] in S.UNPICKLABLE)):
                v = _boxed(rng, n)
            else:
                v = _plain(rng, conf)
            steps.append(["set", cid, rng.choice(keys), v, rng.choice(["set", "set_many"])])
        elif r < 0.92:
            steps.append(["get", rng.choice(built), rng.choice(keys)])
        elif len(built) == 2 and conf_a == conf_b:
            a, b = rng.sample(built, 2)
            steps.append(["copy", a, b, rng.choice(keys)])
    for cid in built:
        for k in keys:
            steps.append(["get", cid, k])
    return steps


def gen_programs(rng, confs, n_random: int):
    out = []
    for conf in confs:
        for kind in TEMPLATES:
            out.append((f"prog:{kind}:{conf.name()}", template(rng, conf, kind)))
    for i in range(n_random):
        out.append((f"prog:random:{i}", random_program(rng, confs)))
    return out


# ----------------------------------------------------------------------------------------------------
# (de)serialisation for corpus / replay files
# ----------------------------------------------------------------------------------------------------
def program_to_json(steps) -> list:
    return [[s[0], s[1], s[2], repr(s[3]), s[4]] if s[0] == "set" else list(s) for s in steps]


def program_from_json(steps, ns: dict) -> list:
    return [[s[0], s[1], s[2], eval(s[3], dict(ns)), s[4]] if s[0] == "set" else list(s) for s in steps]  # repository files


# ----------------------------------------------------------------------------------------------------
# implementation side
# ----------------------------------------------------------------------------------------------------
def run_program(steps):
    """events: one dict per executed set / get step"""

    async def go(sb: S.RegistrySandbox):
        caches: dict = {}
        written: dict = {}      # (cid, key) -> (value, {tag: codec} at write time, writer cid)
        events = []
        t = 0
        reg_time: dict = {}     # tag -> step index of its first / latest registration
        for step in steps:
            t += 1
            op = step[0]
            if op == "cache":
                conf = _conf_of(step[2])
                cache, _, rec = conf.setup()
                caches[step[1]] = (conf, cache, rec, t)
            elif op == "reg":
                if step[1] not in S.CLASSES:
                    raise HarnessError(f"unknown class id {step[1]!r} in a registration program")
                reg_time.setdefault(S.slot(S.CLASSES[step[1]]), []).append(t)
                sb.register(step[1], step[2])
            elif op == "set":
                _, cid, key, value, how = step
                if cid not in caches:
                    continue
                conf, cache, rec, built = caches[cid]
                rec.reset()
                del S.CODEC_CALLS[:]
                try:
                    if how == "set_many":
                        await cache.set_many({key: value})
                        res = True
                    else:
                        res = await cache.set(key, value)
                except Exception as exc:  # noqa: BLE001
                    res = "raised:" + type(exc).__name__
                codec_calls = list(S.CODEC_CALLS)
                raw = await cache.get_raw(key)
                # an instance of a class with no pair in its slot is handed to the pickler: not a value json supports, nor
                # - for a function-local class - one pickle supports (no statement about it)
                supported = not (isinstance(value, S.Boxed) and S.slot(type(value)) not in sb.current()
                                 and (conf.is_json or (conf.pk == "real" and type(value) in S.UNPICKLABLE)))
                if res is True or supported:
                    written[(cid, key)] = (value, sb.current(), cid, supported)
                else:
                    written.pop((cid, key), None)       # an unsupported write that raised: nothing to read back
                events.append({"op": "set", "supported": supported, "codec_calls": codec_calls, "wreg": sb.current(), "cid": cid, "conf": conf, "key": key, "value": value, "how": how, "res": res,
                               "dumps": list(rec.dumps_calls), "raw": raw, "reg": sb.field(), "built": built, "t": t,
                               "reg_time": {k: list(v) for k, v in reg_time.items()}})
            elif op == "get":
                _, cid, key = step
                if cid not in caches or (cid, key) not in written:
                    continue
                conf, cache, rec, built = caches[cid]
                raw = await cache.get_raw(key)
                rec.reset()
                del S.CODEC_CALLS[:]
                get_a = await S.read(cache.get(key, default=S.SENT))
                loads = list(rec.loads_calls)
                calls_a = list(S.CODEC_CALLS)
                del S.CODEC_CALLS[:]
                many = await S.read(cache.get_many(key, default=S.SENT))
                if many[0] == "value":
                    x = many[1][0] if len(many[1]) else S.SENT
                    many = ("dflt", None) if x is S.SENT else ("value", x)
                calls_b = list(S.CODEC_CALLS)
                del S.CODEC_CALLS[:]
                get_c = await S.read(cache.get(key))
                calls_c = list(S.CODEC_CALLS)
                value, wreg, wcid, supported = written[(cid, key)]
                events.append({"op": "get", "supported": supported, "codec_calls": {"getA": calls_a, "manyB": calls_b, "getC": calls_c}, "cid": cid, "conf": conf, "key": key, "raw": raw, "getA": get_a, "loads": loads,
                               "manyB": many, "getC": get_c, "reg": sb.field(), "rreg": sb.current(), "value": value,
                               "wreg": wreg, "wcid": wcid, "built": built, "t": t,
                               "reg_time": {k: list(v) for k, v in reg_time.items()}})
            elif op == "copy":
                _, a, b, key = step
                if a not in caches or b not in caches or (a, key) not in written or caches[a][0] != caches[b][0]:
                    continue
                raw = await caches[a][1].get_raw(key)
                await caches[b][1].set_raw(key, raw)
                written[(b, key)] = written[(a, key)]
            else:
                raise HarnessError(f"unknown program step {step!r}")
        return events

    with S.RegistrySandbox() as sb:
        return vtime.run(lambda: go(sb))


def hypothesis_holds(ev) -> bool:
    """the hypotheses of decode_encode_registries for this read, evaluated literally (hR; P1-P3 are sampled elsewhere)"""
    v = ev["value"]
    if not ev["supported"]:
        return False
    if type(v) is int:
        return True
    tag = S.slot(type(v))
    wreg, rreg = ev["wreg"], ev["rreg"]
    if tag not in wreg:
        return True                         # pickled / kept as an object: the pickler hypotheses
    if wreg[tag][0] is not type(v):
        return False                        # the slot held ANOTHER class's pair (same __name__ elsewhere): mirrored, no claim
    if tag not in rreg or rreg[tag][0] is not type(v):
        return False
    wv, rv = wreg[tag][1], rreg[tag][1]
    if wv is None:                          # the built-in bytes pair
        return rv is None
    if not isinstance(v, S.Boxed) or rv is None:
        return False
    return S.codec_dec(rv, S.codec_enc(wv, v.payload)) == v.payload


def own_pair(reg: dict, v):
    """(class, variant) when the slot of v's class holds the pair registered for that very class, else None"""
    e = reg.get(S.slot(type(v)))
    return e if e is not None and e[0] is type(v) and e[1] is not None else None


# ----------------------------------------------------------------------------------------------------
# model side + comparison
# ----------------------------------------------------------------------------------------------------
def evaluate_programs(programs, ids: S.Ids, driver):
    """programs: list of step lists.  Returns (problems per program [(kind, text)], tags per program, sample lines)"""
    runs = [run_program(steps) for steps in programs]
    flat = [(pi, ev) for pi, evs in enumerate(runs) for ev in evs]
    sets = [(pi, ev) for pi, ev in flat if ev["op"] == "set"]
    gets = [(pi, ev) for pi, ev in flat if ev["op"] == "get"]

    def base(ev):
        return f"{ev['conf'].fields(ev['reg'])} {S.key_field(ev['key'])}"

    def dumps_field(ev):
        return "dumps=" + S.show_val(ev["dumps"][-1][1], ids) if ev["dumps"] else "dumps=-"

    l1 = [f"enc1 {base(ev)} v={S.show_val(ev['value'], ids)} {dumps_field(ev)}" for _, ev in sets]
    a1 = S.ask_par(driver, l1)
    l2 = [l.replace("enc1 ", "enc2 ", 1) + " " + S.mac_field(a, ev["conf"].secret) for l, a, (_, ev) in zip(l1, a1, sets)]
    a2 = S.ask_par(driver, l2)
    l3 = [f"dec1 {base(ev)} w={S.show_val(ev['raw'], ids)} same=0" for _, ev in gets]
    a3 = S.ask_par(driver, l3)
    l4 = [l.replace("dec1 ", "dec2 ", 1) + " " + S.mac_field(a, ev["conf"].secret) for l, a, (_, ev) in zip(l3, a3, gets)]
    a4 = S.ask_par(driver, l4)

    def verdict(ev):
        if len(ev["loads"]) == 1:
            _, kind, res = ev["loads"][0]
            return "ok:" + S.show_val(res, ids) if kind == "ok" else kind
        return "-"

    l5 = [l.replace("dec2 ", "dec3 ", 1) + " loads=" + verdict(ev) for l, (_, ev) in zip(l4, gets)]
    a5 = S.ask_par(driver, l5)
    l6 = [f"dec3 {base(ev)} w={S.show_val(ev['raw'], ids)} same={1 if ev['raw'] is None else 0} "
          + S.mac_field(a, ev["conf"].secret) + " loads=" + verdict(ev) for a, (_, ev) in zip(a3, gets)]
    a6 = S.ask_par(driver, l6)
    for ans, line in [(a, l) for aa, ll in ((a1, l1), (a2, l2), (a3, l3), (a4, l4), (a5, l5), (a6, l6)) for a, l in zip(aa, ll)]:
        if ans == "bad-op":
            raise HarnessError(f"driver could not parse a registration-program request: {line[:300]}")
        if "miss=1" in ans:
            raise HarnessError(f"model asked for a MAC the driver did not announce: {ans}")

    problems = [[] for _ in programs]
    tags = [set() for _ in programs]
    for (pi, ev), m2 in zip(sets, a2):
        pr = problems[pi]
        where = f"[{ev['cid']}:{ev['conf'].name()}] {ev['how']}({ev['key']!r}, {ev['value']!r})"
        if ev["res"] is not True and ev["supported"]:
            pr.append(("spec", f"{where} -> {ev['res']}"))
        if not ev["supported"]:
            continue
        # ---- (c) through that pair: the encoder registered for the value's class ran
        own = own_pair(ev["wreg"], ev["value"])
        if own is not None and ("enc", own[0], own[1]) not in ev["codec_calls"]:
            pr.append(("spec", f"{where}: {type(ev['value']).__qualname__} was handed to register_type (codec {own[1]}) but its "
                               f"encoder was not called by the write; stored form {ev['raw']!r:.80}"))
        m_stored = m2.split()[0]
        i_stored = "stored=" + S.show_val(ev["raw"], ids)
        if m_stored != i_stored:
            pr.append(("model", f"{where}: stored form impl {i_stored[:120]} model {m_stored[:120]}"))
    for i, (pi, ev) in enumerate(gets):
        pr = problems[pi]
        conf = ev["conf"]
        v = ev["value"]
        want = S.canon_s(v)
        where = f"[{ev['cid']}:{conf.name()}]"
        tag = S.slot(type(v))
        # ---- (b) the property
        if hypothesis_holds(ev):
            own_w, own_r = own_pair(ev["wreg"], v), own_pair(ev["rreg"], v)
            for path, label in (("getA", "get"), ("manyB", "get_many"), ("getC", "get(default None)")):
                kind, got = ev[path]
                # judged on the first read only: a later read answered from an (equal) earlier decoding would be harmless
                if path == "getA" and own_w is not None and own_r is not None \
                        and ("dec", own_r[0], own_r[1]) not in ev["codec_calls"][path]:
                    pr.append(("spec", f"{where} {label}({ev['key']!r}): {type(v).__qualname__} is registered (codec {own_r[1]}) but "
                                       f"its decoder was not called by the read of {v!r}"))
                if kind != "value" or S.canon_s(got) != want:
                    shown = f"{got!r} ({type(got).__name__})" if kind == "value" else (kind + (":" + str(got) if got else ""))
                    when = ""
                    if tag in ev["reg_time"]:
                        when = (f"; {type(v).__name__} was registered at step {ev['reg_time'][tag]}, cache {ev['cid']} was built at "
                                f"step {ev['built']}, read at step {ev['t']}")
                    pr.append(("spec", f"{where} {label}({ev['key']!r}): stored {v!r} ({type(v).__name__}), read back {shown}{when}"))
        # ---- (a) implementation vs model
        pre = a4[i].split()[0]
        called = [p for p, _, _ in ev["loads"]]
        expect = [bytes.fromhex(pre.split(":", 1)[1])] if pre.startswith("pre=loads:") else []
        if called != expect:
            pr.append(("model", f"{where} unpickler calls on get({ev['key']!r}): impl {called!r} model {expect!r} ({pre[:80]})"))
        m_res = a5[i].split()[0]
        for path in ("getA", "manyB"):
            i_res = "res=" + S.show_outcome(ev[path], ids)
            if m_res != i_res:
                pr.append(("model", f"{where} {'get' if path == 'getA' else 'get_many'}({ev['key']!r}) of stored {v!r}: "
                                    f"impl {i_res[:120]} model {m_res[:120]}"))
        m_c = a6[i].split()[0]
        gc = ev["getC"]
        # with the default None a returned None is the default as much as a stored None: both read "dflt" here
        i_c = "res=dflt" if (gc[0] == "value" and gc[1] is None and (ev["raw"] is None or m_c == "res=dflt")) \
            else "res=" + S.show_outcome(gc, ids)
        if m_c != i_c:
            pr.append(("model", f"{where} get({ev['key']!r}) with default None of stored {v!r}: impl {i_c[:120]} model {m_c[:120]}"))
        # ---- interesting states
        t = tags[pi]
        times = ev["reg_time"].get(tag, [])
        if isinstance(v, S.Boxed):
            if type(v).__qualname__ != type(v).__name__ and own_pair(ev["wreg"], v) and own_pair(ev["rreg"], v):
                t.add("registered_class_with_qualified_name_" + ("local" if "<locals>" in type(v).__qualname__ else "nested"))
            if tag in ev["wreg"] and ev["wreg"][tag][0] is not type(v):
                t.add("slot_held_by_a_subclass_parent" if issubclass(type(v), ev["wreg"][tag][0]) else
                      "slot_held_by_another_class_of_the_same_name")
            if tag not in ev["wreg"] and any(issubclass(type(v), c) and c is not type(v) for c, _ in ev["wreg"].values()):
                t.add("instance_of_an_unregistered_subclass_of_a_registered_class")
            if times and min(times) > ev["built"]:
                t.add("type_registered_after_cache_was_built")
            if times and tag in ev["wreg"] and any(x > ev["built"] for x in times) and ev["wcid"] != ev["cid"]:
                t.add("read_by_another_cache_of_the_same_configuration")
            if tag not in ev["wreg"] and tag in ev["rreg"]:
                t.add("written_before_its_type_was_registered_read_after")
            if tag in ev["wreg"] and tag in ev["rreg"] and ev["wreg"][tag][1] != ev["rreg"][tag][1]:
                t.add("name_registered_again_with_another_codec" + ("" if hypothesis_holds(ev) else "_incompatible"))
            if tag in ev["wreg"] and len(ev["rreg"]) > len(ev["wreg"]):
                t.add("registry_grew_between_write_and_read")
            if pre.startswith("pre=custom:"):
                t.add("custom_decode_path")
        elif len(ev["rreg"]) > 1:
            t.add("plain_value_with_late_registrations")
    samples = [{"request": l5[i], "answer": a5[i]} for i in range(min(1, len(l5)))]
    return problems, tags, samples


def shrink_program(steps, kind: str, driver):
    def fails(st):
        try:
            return any(k == kind for k, _ in evaluate_programs([st], S.Ids(), driver)[0][0])
        except HarnessError:
            return False

    steps = ddmin(list(steps), fails) if len(steps) > 1 else list(steps)
    # shrink payloads
    for i, s in enumerate(steps):
        if s[0] == "set" and isinstance(s[3], S.Boxed) and s[3].payload:
            for p in (b"", s[3].payload[:1]):
                trial = steps[:i] + [[s[0], s[1], s[2], type(s[3])(p), s[4]]] + steps[i + 1:]
                if fails(trial):
                    steps = trial
                    break
    return steps
