"""Schedule-exact execution of concurrent transactional programs on the real cashews code (C05).

Built on harness/sched.py's gating (`gated`, TASK_ID) with an own scheduler, because a transaction that
holds several per-key locks releases them with `asyncio.gather(...)`: the children inherit the task id, so
one managed task can be parked at several gates at once (harness/sched.py keeps one slot per id).

Time.  The unit is u = 1/40 s (lcm of the harness tick 1/8 s = 5u and cashews' lock retry step 0.1 s = 4u).
`TxLoop` snaps every timer to that grid (`when = n/40` correctly rounded), never lets time pass on a busy
spin, and logs every jump of the virtual clock; transaction timeouts are dyadic (0.5 s, 1 s, ...), so a lease
deadline `time.time() + timeout` is exact and every `deadline <= now` comparison inside cashews is decided
by the integers the model uses.

A program is a dict
    {"kind": "tx"|"plain", "mode": "fast"|"locked"|"serializable", "timeout": <u, multiple of 20>,
     "form": "ctx"|"dec"|"obj", "ops": [op, ...]}
    form: "ctx" = `async with cache.transaction(mode, timeout) as tx:` (a context object of its own), "dec" = a call of THE function decorated
    with `@cache.transaction(mode, timeout)` (one per (mode, timeout), shared by all tasks), "obj" = `async with T as tx:` on THE context
    object `T = cache.transaction(mode, timeout)` (one per (mode, timeout), created once and shared by all tasks: entered by several tasks
    at once and, with ["nin","obj"], by one task nested in itself)
    op = ["set",k,v] | ["incr",k,n] | ["get",k] | ["del",k] | ["expire",k(,ttl seconds)] | ["setx",k,v,1|0] | ["sleep",ticks]
       | ["raise"] | ["raise","base"] | ["raise","falsy"] | ["raise","falsybase"] | ["nin",form] | ["nout"]
                                     (setx = cache.set(k, v, exist=True|False); its result is recorded as 1/0;
                                      ["raise","base"] raises a BaseException subclass that is not an Exception;
                                      ["raise","falsy"] raises an Exception subclass whose instances are FALSY (`__len__() == 0`: an
                                      error collection raised while empty), ["raise","falsybase"] a non-Exception BaseException subclass
                                      whose instances are falsy (`__bool__() is False`))
       | ["nfail"] | ["nfail",kind]  closes the innermost nested block like ["nout"], but the inner block is LEFT BY AN EXCEPTION (kind as for
                                     "raise": "" | "base" | "falsy" | "falsybase") raised at the end of its body, which the enclosing body
                                     catches right outside the block (`try: async with ...: ...; raise E()` / `except E: pass`) and goes on
       | ["setm",[[k,v],...]] | ["delm",[k,...]]   `cache.set_many({...})` / `cache.delete_many(...)` inside a transaction (multi-key writes:
                                     the locks are taken key by key in the given order; transactional tasks only)
       | ["commit"] | ["rollback"]   explicit `await tx.commit()` / `await tx.rollback()` on the `Transaction` object that the innermost
                                     enclosing `async with cache.transaction(...) as tx` returned (the body goes on afterwards)
       | ["gc","obj",mode,timeout]  (environment event, not part of the model: an ABANDONED block on THE shared context object of (mode, timeout) -
                  `async with T:` around an await in a coroutine / async generator that was started in a context of its own and then dropped -
                  is finalised (`close()`, as `aclose()` from another task or the collector would) in yet another, empty context while this
                  task runs and while other tasks may be suspended inside their own blocks on T; it must not affect anybody)
       | ["gc"]  (environment event, not part of the model: an abandoned call of the decorated function is finalised
                  while this task runs; it must not affect this task)
Keys are small ints (store key "k<i>").  A run is a pure function of (init store, programs, schedule, cancels).

Cancellation.  With `cancels = n > 0` the scheduler may, at a step, instead of releasing a parked task CANCEL a task
(`task.cancel()`, at most n times per run) that is suspended INSIDE THE BODY of its block: parked before a backend command of the
body (including the `set_lock` of a lock wait and the backend read of an incr / expire / conditional set) or asleep (in the
0.1 s sleep between two `set_lock` attempts, or in a body sleep).  `asyncio.CancelledError` is raised at that await.  Tasks that
have not started, are inside a commit (`set_many` / `delete_many`) or are releasing locks are not cancelled.  A schedule entry c
selects among [release parked task 0..p-1] + [cancel cancellable task 0..q-1] (c mod (p+q)); an exhausted schedule never cancels.

`expire` uses real TTLs (default 1 h, far beyond any run: nothing ever expires).  A commit flushes its buffer with one
`set_many` per TTL group, back to back; the scheduler releases the 2nd, 3rd, ... `set_many` of a commit in the same step
as the first (one step "set_many" with the union of the pairs) - the model has no TTLs, hence one group.  (The set_many of the
next commit of the same task - after an explicit `tx.commit()` returned - is of course a step of its own.)
"""
from __future__ import annotations

import asyncio
import contextvars
from typing import Any

from . import vtime
from .sched import TASK_ID, gated
from .vtime import CLOCK, VLoop

U = 40  # units per second


class TxLoop(VLoop):
    SPIN = 10 ** 15          # a busy scheduler spin must not move the clock

    def __init__(self):
        super().__init__()
        self.on_jump = None

    def call_at(self, when, callback, *args, context=None):
        n = round(when * U)
        return super().call_at(n / U, callback, *args, context=context)

    def _run_once(self):
        before = CLOCK.t
        # VLoop._run_once jumps the clock first and then runs the due handlers
        super()._run_once()
        if CLOCK.t != before and self.on_jump is not None:
            self.on_jump(round((CLOCK.t - before) * U))


def run_on_txloop(coro_fn, *args, **kwargs):
    CLOCK.reset()
    loop = TxLoop()
    asyncio.set_event_loop(loop)
    try:
        return loop.run_until_complete(coro_fn(loop, *args, **kwargs))
    finally:
        try:
            pending = [t for t in asyncio.all_tasks(loop) if not t.done()]
            for t in pending:
                t.cancel()
            if pending:
                loop.run_until_complete(asyncio.gather(*pending, return_exceptions=True))
        finally:
            asyncio.set_event_loop(None)
            loop.close()


class SchedError(Exception):
    pass


class TxSched:
    """release one parked task per step; choice = index into the sorted list of parked task ids"""

    def __init__(self, schedule=(), cancels=0):
        self.schedule = list(schedule)
        self.cancels = int(cancels)
        self.pos = 0
        self.parked: dict[tuple, tuple[asyncio.Future, Any]] = {}
        self.tasks: dict[int, asyncio.Task] = {}
        self.trace: list[tuple] = []
        self.branching: list[int] = []
        self.choices: list[int] = []
        self.outcomes: dict[int, Any] = {}
        self._wake: asyncio.Event | None = None
        self.max_steps = 4000
        self.merged_groups = 0
        self.boundary: set[int] = set()   # tasks whose explicit tx.commit()/tx.rollback() returned since their last released command
        self.after_step = None       # callback(tid, label) once the released command has run and the loop is quiet

    async def point(self, label=None):
        tid = TASK_ID.get()
        if tid is None:
            return
        sub = label[1] if label and label[0] == "unlock" else ""
        key = (tid, sub)
        if key in self.parked:
            raise SchedError(f"task {tid} parked twice at {label}")
        fut = asyncio.get_running_loop().create_future()
        self.parked[key] = (fut, label)
        self._wake.set()
        try:
            await fut
        finally:
            self.parked.pop(key, None)

    async def gate(self, label=None):
        from .sched import _DEPTH
        if _DEPTH.get() == 0:
            await self.point(label)

    async def _quiesce(self, loop):
        for _ in range(100000):
            await asyncio.sleep(0)
            if not loop._ready:
                return
        raise SchedError("loop never became quiescent")

    async def run(self, loop: TxLoop, programs: dict[int, Any]):
        self._wake = asyncio.Event()
        loop.on_jump = lambda du: self.trace.append(("time", du))

        def starter(tid, fn):
            async def body():
                TASK_ID.set(tid)
                await self.point(("start",))
                return await fn()
            return body

        for tid, fn in programs.items():
            t = loop.create_task(starter(tid, fn)())
            self.tasks[tid] = t

            def done(task, tid=tid):
                if task.cancelled():
                    out = ("cancelled",)
                elif task.exception() is not None:
                    out = ("raised", type(task.exception()).__name__)
                else:
                    out = ("returned", task.result())
                self.outcomes[tid] = out
                self._wake.set()
            t.add_done_callback(done)

        steps = 0
        last = None
        while True:
            await self._quiesce(loop)
            if last is not None and last[1] and last[1][0] == "set_many":
                # the next TTL group of the same commit: same step
                nxt = self.parked.get((last[0], ""))
                if nxt is not None and nxt[1] and nxt[1][0] == "set_many" and last[0] not in self.boundary:
                    fut, label = self.parked.pop((last[0], ""))
                    if not self.trace or self.trace[-1][:2] != ("run", last[0]):
                        raise SchedError("set_many groups of one commit are not consecutive")
                    merged = ("set_many", tuple(sorted(last[1][1] + label[1])))
                    self.trace[-1] = ("run", last[0], merged)
                    last = (last[0], merged)
                    self.merged_groups += 1
                    fut.set_result(None)
                    continue
            if last is not None and self.after_step is not None:
                self.after_step(*last)
            last = None
            if all(t.done() for t in self.tasks.values()):
                break
            steps += 1
            if steps > self.max_steps:
                raise SchedError("step budget exhausted")
            if not self.parked:
                self._wake.clear()
                try:
                    await asyncio.wait_for(self._wake.wait(), 3600)
                except asyncio.TimeoutError:
                    raise SchedError("deadlock: nobody parked and no timer within an hour")
                continue
            tids = sorted({k[0] for k in self.parked})
            cancellable = []
            if self.cancels > 0:
                for t, task in sorted(self.tasks.items()):
                    if task.done() or t in self.outcomes:
                        continue
                    keys = [k for k in self.parked if k[0] == t]
                    if not keys:
                        cancellable.append(t)           # asleep: between two set_lock attempts, or in a body sleep
                    elif keys == [(t, "")] and self.parked[(t, "")][1][0] not in ("start", "set_many", "delete_many"):
                        cancellable.append(t)           # parked before a backend command of its body
            if self.pos < len(self.schedule):
                c = self.schedule[self.pos]
                self.pos += 1
            else:
                c = 0
            c %= len(tids) + len(cancellable)
            self.branching.append(len(tids) + len(cancellable))
            self.choices.append(c)
            if c >= len(tids):
                tid = cancellable[c - len(tids)]
                self.cancels -= 1
                self.trace.append(("cancel", tid))
                last = (tid, ("cancel",))
                self.tasks[tid].cancel()
                continue
            tid = tids[c]
            key = min(k for k in self.parked if k[0] == tid)
            fut, label = self.parked.pop(key)
            self.trace.append(("run", tid, label))
            last = (tid, label)
            self.boundary.discard(tid)
            fut.set_result(None)
        loop.on_jump = None
        return self.outcomes


# ---- the system under test ----------------------------------------------------------------------------

_CURRENT: list = [None]


def _label(name, args, kwargs):
    """canonical, API-level description of a backend command: name + key(s) (+ value for direct writes)"""
    if name == "set_many":
        pairs = args[0] if args else kwargs["pairs"]
        return ("set_many", tuple(sorted(pairs.items())))
    if name == "delete_many":
        return ("delete_many", tuple(sorted(args)))
    if name in ("set_lock", "unlock"):
        return (name, args[0] if args else kwargs["key"])
    key = args[0] if args else kwargs.get("key")
    return (name, key)


_GATED = None


def gated_memory_class():
    global _GATED
    if _GATED is None:
        from cashews.backends.memory import Memory
        _GATED = gated(Memory, lambda: _CURRENT[0], label=_label)
    return _GATED


class BodyError(Exception):
    pass


class BodyBase(BaseException):
    """a user-defined BaseException that is not an Exception"""


class BodyFalsy(Exception):
    """an "error collection" exception: its truth value is that of the list of problems it carries - raised while that list is
    empty, the exception OBJECT is falsy (`bool(exc) is False` through `__len__`), although it is being raised"""

    def __init__(self, *problems):
        super().__init__(*problems)
        self.problems = list(problems)

    def __len__(self):
        return len(self.problems)


class BodyFalsyBase(BaseException):
    """a BaseException that is not an Exception and whose instances are falsy (through `__bool__`)"""

    def __bool__(self):
        return False


RAISES = {"": BodyError, "base": BodyBase, "falsy": BodyFalsy, "falsybase": BodyFalsyBase}

# what an inner block raises when the enclosing body is going to catch it (`nfail`): classes of their own, so that the `except`
# clause around the inner block never swallows the body's own `raise` ops
INNER_RAISES = {k: type("Inner" + c.__name__, (c,), {}) for k, c in RAISES.items()}


MODES = {"fast": "FAST", "locked": "LOCKED", "serializable": "SERIALIZABLE"}


def key_name(k: int) -> str:
    return f"k{k}"


def split_nested(ops):
    """[... ["nin",f], inner..., ["nout"] | ["nfail",kind], ...] -> tree: list of op | ("block", form, subtree, fail kind | None)"""
    def parse(i):
        out = []
        while i < len(ops):
            op = ops[i]
            if op[0] == "nin":
                sub, i, fail = parse(i + 1)
                out.append(("block", op[1], sub, fail))
                continue
            if op[0] == "nout":
                return out, i + 1, None
            if op[0] == "nfail":
                return out, i + 1, (op[1] if len(op) > 1 else "")
            out.append(op)
            i += 1
        return out, i, None
    tree, _, _ = parse(0)
    return tree


def execute(init: dict, programs: list[dict], schedule: list[int], snapshot=True, cancels=0):
    """Run the programs concurrently on one Cache('mem://') whose Memory is gated by the scheduler.
    Returns dict(trace=[...], outcomes={tid: ...}, snaps=[store after each run step], final=store, branching, choices)."""
    from cashews import Cache
    from cashews.wrapper.transaction import TransactionMode

    G = gated_memory_class()

    async def main(loop):
        cache = Cache()
        mem = cache.setup("mem://", check_interval=0, size=10000)
        mem.__class__ = G
        sched = TxSched(schedule, cancels)
        _CURRENT[0] = sched
        await cache.init()
        for k, v in sorted(init.items()):
            await cache.set(key_name(int(k)), v)       # no managed task id yet: not gated

        # one decorated function per (mode, timeout): shared by every task that uses the decorator form
        decorated: dict[tuple, Any] = {}

        def dec_for(mode, timeout):
            key = (mode, timeout)
            if key not in decorated:
                @cache.transaction(getattr(TransactionMode, MODES[mode]), timeout=timeout / U)
                async def call_in_tx(body):
                    return await body()
                decorated[key] = call_in_tx
            return decorated[key]

        # one context object per (mode, timeout): shared by every task that uses the "obj" form (`T = cache.transaction(...)` at module level)
        shared: dict[tuple, Any] = {}

        def obj_for(mode, timeout):
            key = (mode, timeout)
            if key not in shared:
                shared[key] = cache.transaction(getattr(TransactionMode, MODES[mode]), timeout=timeout / U)
            return shared[key]

        inside_obj: dict[tuple, list] = {}       # (mode, timeout) -> tasks currently inside a block on that shared object
        abandons: list = []                       # (task running the ["gc","obj",..] event, tasks inside the object at that moment)
        snaps = []

        def view():
            now = CLOCK.t
            data, locks = {}, {}
            for key, (exp, val) in mem.store.items():
                if exp and exp <= now:
                    continue
                if key.startswith("k") and key[1:].isdigit():
                    data[int(key[1:])] = val
                else:
                    locks[key] = val
            return data, locks

        def make(tid, p):
            results = []
            handles = []        # `Transaction` objects of the enclosing `async with ... as tx` blocks (None: decorator form)
            mode, timeout = p.get("mode", "locked"), p.get("timeout", 400)

            async def run_ops(tree):
                for op in tree:
                    if op[0] == "block":
                        if op[3] is None:
                            await in_block(op[1], op[2])
                        else:
                            # the inner block fails and the enclosing body handles that itself
                            if op[3] not in INNER_RAISES:
                                raise SchedError(f"bad op nfail {op[3]}")
                            try:
                                await in_block(op[1], list(op[2]) + [["raise_inner", op[3]]])
                            except INNER_RAISES[op[3]]:
                                pass
                    elif op[0] == "set":
                        await cache.set(key_name(op[1]), op[2])
                    elif op[0] == "incr":
                        results.append(await cache.incr(key_name(op[1]), op[2]))
                    elif op[0] == "get":
                        results.append(await cache.get(key_name(op[1])))
                    elif op[0] == "del":
                        await cache.delete(key_name(op[1]))
                    elif op[0] == "setm":
                        await cache.set_many({key_name(k): v for k, v in op[1]})
                    elif op[0] == "delm":
                        await cache.delete_many(*[key_name(k) for k in op[1]])
                    elif op[0] == "setx":
                        results.append(1 if await cache.set(key_name(op[1]), op[2], exist=bool(op[3])) else 0)
                    elif op[0] == "expire":
                        await cache.expire(key_name(op[1]), op[2] if len(op) > 2 else 3600)
                    elif op[0] == "sleep":
                        await asyncio.sleep(op[1] * 5 / U)
                    elif op[0] == "raise":
                        if (op[1] if len(op) > 1 else "") not in RAISES:
                            raise SchedError(f"bad op {op}")
                        raise RAISES[op[1] if len(op) > 1 else ""]()
                    elif op[0] == "raise_inner":
                        raise INNER_RAISES[op[1]]()
                    elif op[0] in ("commit", "rollback"):
                        tx = next((h for h in reversed(handles) if h is not None), None)
                        if tx is None:
                            raise SchedError(f"{op[0]} without a Transaction object at hand in task {tid}")
                        if op[0] == "commit":
                            await tx.commit()
                        else:
                            await tx.rollback()
                        # a later set_many of this task belongs to another commit (not another TTL group of this one)
                        sched.boundary.add(tid)
                    elif op[0] == "gc" and len(op) > 1:
                        if op[1] != "obj" or len(op) != 4 or op[2] not in MODES:
                            raise SchedError(f"bad op {op}")
                        shared_obj = obj_for(op[2], op[3])
                        fut = loop.create_future()

                        async def abandoned():
                            async with shared_obj:
                                await fut
                        coro = abandoned()
                        contextvars.Context().run(coro.send, None)      # parked inside its block on T, in a context of its own
                        abandons.append((tid, sorted(t for t in inside_obj.get((op[2], op[3]), ()) if t != tid)))
                        try:
                            contextvars.Context().run(coro.close)       # left outside the context it was entered in
                        except Exception:       # what the collector would print as "Exception ignored in"
                            pass
                    elif op[0] == "gc":
                        # an abandoned call of the decorated function (started in its own context, suspended in its
                        # body) is finalised - as the garbage collector would - while *this* task is running
                        fut = loop.create_future()

                        async def never():
                            await fut
                        coro = dec_for(mode, timeout)(never)
                        contextvars.Context().run(coro.send, None)
                        try:
                            coro.close()
                        except Exception:       # what the collector would print as "Exception ignored in"
                            pass
                    else:
                        raise SchedError(f"bad op {op}")

            async def in_block(form, tree):
                if form == "dec":
                    handles.append(None)
                    try:
                        await dec_for(mode, timeout)(lambda: run_ops(tree))
                    finally:
                        handles.pop()
                elif form == "obj":
                    async with obj_for(mode, timeout) as tx:
                        handles.append(tx)
                        inside_obj.setdefault((mode, timeout), []).append(tid)
                        try:
                            await run_ops(tree)
                        finally:
                            inside_obj[(mode, timeout)].remove(tid)
                            handles.pop()
                elif form != "ctx":
                    raise SchedError(f"bad form {form}")
                else:
                    async with cache.transaction(getattr(TransactionMode, MODES[mode]), timeout=timeout / U) as tx:
                        handles.append(tx)
                        try:
                            await run_ops(tree)
                        finally:
                            handles.pop()

            async def prog():
                tree = split_nested(p["ops"])
                if p["kind"] == "tx":
                    await in_block(p.get("form", "ctx"), tree)
                else:
                    await run_ops(tree)
                return list(results)

            return prog

        tokens: dict[str, int] = {}

        def after(tid, label):
            if snapshot:
                data, locks = view()
                # lock tokens (uuid hex) -> owner task id, learnt when the owner's set_lock succeeds
                if label[0] == "set_lock" and label[1] in locks and locks[label[1]] not in tokens:
                    tokens[locks[label[1]]] = tid
                snaps.append((dict(data), {k: tokens.get(v, -1) for k, v in locks.items()}, round((CLOCK.t - vtime.BASE) * U)))

        sched.after_step = after
        outcomes = await sched.run(loop, {i: make(i, p) for i, p in enumerate(programs)})
        data, locks = view()
        return {
            "trace": sched.trace,
            "outcomes": outcomes,
            "snaps": snaps,
            "final": data,
            "final_locks": {k: tokens.get(v, -1) for k, v in locks.items()},
            "branching": sched.branching,
            "choices": sched.choices,
            "merged_groups": sched.merged_groups,
            "abandons": abandons,
            "end": round((CLOCK.t - vtime.BASE) * U),
        }

    try:
        return run_on_txloop(main)
    finally:
        _CURRENT[0] = None


def enumerate_all(init, programs, limit=100000, cancels=0):
    """stateless DFS over the choice sequences of one program set; yields (choices, result)"""
    stack = [[]]
    seen = 0
    while stack and seen < limit:
        prefix = stack.pop()
        res = execute(init, programs, prefix, cancels=cancels)
        seen += 1
        br = res["branching"]
        full = res["choices"]
        yield full, res
        for i in range(len(br) - 1, len(prefix) - 1, -1):
            for c in range(1, br[i]):
                stack.append(full[:i] + [c])
