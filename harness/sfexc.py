"""C07 - the exceptions scripted bodies raise, and what a caller can observe of an exception it receives.

The property says every waiter of an execution receives ITS exception.  Comparing class names is not enough: an
implementation that hands each waiter a rebuilt / copied / wrapped exception (`copy.copy(exc)`, `type(exc)(*exc.args)`,
`raise Other(str(exc)) from exc`, ...) delivers something else for every exception class whose constructor is not
`cls(*self.args)` - and most application exceptions are like that.  So the scripted bodies raise from a FAMILY of
classes with non-trivial constructors, each instance carrying a payload derived from the id of the execution that
raises it, and `observe` records everything identity-independent a caller can see of an exception: class, `args`,
`str()`, instance attributes (dict and slots), notes, the explicit cause, `__suppress_context__`.  A caller's outcome
is "E<shape>.<x>" iff its observation equals, field by field, what the body of execution x observed of the exception
it was about to raise; anything else is named as it looks ("X:...") and matches no scripted outcome.

Deliberately NOT observed: object identity (the property does not promise the same object), `__traceback__` and the
implicit `__context__` (both depend on where the exception was re-raised on its way, not on what is delivered).
"""
from __future__ import annotations


class SfErr0(Exception):
    pass


class SfErr1(Exception):
    pass


class SfErr2(Exception):
    pass


class KwOnlyError(Exception):
    """keyword-only constructor, message built in __init__ (httpx.HTTPStatusError, botocore ClientError, ...):
    cls(*exc.args) is a TypeError"""

    def __init__(self, *, status, body):
        super().__init__(f"upstream answered {status}")
        self.status = status
        self.body = body


class MultiArgError(Exception):
    """three required positional parameters, only one of them ends up in .args"""

    def __init__(self, code, message, detail):
        super().__init__(message)
        self.code = code
        self.detail = detail


class FormattingError(Exception):
    """one parameter, formatted into the message: cls(*exc.args) 'works' and garbles the message"""

    def __init__(self, name):
        super().__init__(f"no such item: {name!r}")
        self.name = name


class ChainedError(Exception):
    """ordinary constructor; raised `from` a cause, with an attribute set after construction and a note"""


class OsLikeError(OSError):
    """OSError(errno, strerror, filename): .args is (errno, strerror), the filename lives in an attribute"""


class StrOverrideError(Exception):
    """empty .args, everything in attributes, __str__ computed from them"""

    def __init__(self, what, *, retry_after):
        super().__init__()
        self.what = what
        self.retry_after = retry_after

    def __str__(self):
        return f"{self.what}: retry after {self.retry_after}s"


class SlotsError(Exception):
    """state in __slots__ (not in __dict__), constructor with a default that the raiser overrides"""
    __slots__ = ("code", "origin")

    def __init__(self, text, code=0, origin="local"):
        super().__init__(text)
        self.code = code
        self.origin = origin


PLAIN = [SfErr0, SfErr1, SfErr2]
SHAPES = ["plain0", "plain1", "plain2", "kwonly", "multiarg", "formatting", "chained", "oslike", "stroverride", "slots"]
NSHAPES = len(SHAPES)
NONTRIVIAL = set(range(3, NSHAPES))       # the constructor is not cls(*args) / state outside args / cause


def raise_scripted(shape: int, x: int):
    """raise the exception execution `x` is scripted to end with (payload derived from x)"""
    shape %= NSHAPES
    if shape < 3:
        raise PLAIN[shape](f"boom {x}")
    if shape == 3:
        raise KwOnlyError(status=500 + x, body={"retry": x})
    if shape == 4:
        raise MultiArgError(40 + x, f"quota exceeded for account {x}", ("limit", 10 * x))
    if shape == 5:
        raise FormattingError(f"item-{x}")
    if shape == 6:
        exc = ChainedError("lookup failed", x)
        exc.attempt = x
        exc.add_note(f"while serving request {x}")
        raise exc from LookupError(f"row {x}")
    if shape == 7:
        raise OsLikeError(100 + x, f"device {x} not ready", f"/dev/sf{x}")
    if shape == 8:
        raise StrOverrideError(f"backend-{x}", retry_after=x + 1)
    raise SlotsError(f"slot failure {x}", code=7 + x, origin=f"node-{x}")


def _slots(exc):
    out = []
    for cls in type(exc).__mro__:
        for name in getattr(cls, "__slots__", ()) or ():
            if isinstance(name, str) and hasattr(exc, name):
                out.append((name, repr(getattr(exc, name))))
    return sorted(out)


def observe(exc: BaseException) -> tuple:
    """identity-independent observation of an exception as a caller sees it (hashable, JSON-able)"""
    cause = exc.__cause__
    try:
        text = str(exc)
    except Exception as e:  # noqa: BLE001 - a copy whose __str__ needs state it lost
        text = f"<str() raises {type(e).__name__}>"
    return (
        type(exc).__module__.rsplit(".", 1)[-1] + "." + type(exc).__qualname__,
        repr(exc.args),
        text,
        repr(sorted((k, repr(v)) for k, v in vars(exc).items() if k != "__notes__")),
        repr(_slots(exc)),
        repr(list(getattr(exc, "__notes__", ()))),
        None if cause is None else type(cause).__qualname__ + repr(cause.args),
        bool(exc.__suppress_context__),
    )


FIELDS = ["class", "args", "str", "attributes", "slots", "notes", "cause", "suppress_context"]


def obs_dict(obs) -> dict:
    return dict(zip(FIELDS, obs))


def diff_fields(a, b) -> list:
    """names of the fields in which two observations differ"""
    return [f for f, x, y in zip(FIELDS, a, b) if x != y]


def describe(exc: BaseException) -> str:
    """short, comma- and blank-free rendering of an exception that is none of the scripted ones"""
    text = f"{type(exc).__qualname__}({'|'.join(repr(a) for a in exc.args)})"
    if exc.__cause__ is not None:
        text += "+cause:" + type(exc.__cause__).__qualname__
    return "X:" + text.replace(",", ";").replace(" ", "_").replace("=", "~")[:100]


# ------------------------------------------------------------------------------------------------------------------
# RETURNED objects that look like errors (errors as values): the body `return`s them, every waiter must receive them as
# a VALUE.  Shapes: 0 an Exception instance with a non-trivial constructor, 1 a BaseException instance, 2 a wrapper object
# around an error (in the way of cashews' own RaiseException, but a class of the caller's), 3 a plain Exception instance.

class StopSignal(BaseException):
    pass


class ErrorValue:
    """a result type that carries an error"""

    def __init__(self, error, attempt):
        self.error = error
        self.attempt = attempt


NVALUES = 4


def value_code(shape: int, x: int) -> int:
    return 9000 + 100 * (shape % NVALUES) + x


def is_exception_instance(shape: int) -> bool:
    """`isinstance(value, Exception)` for the value of this shape (what `cache` / `early` refuse to store)"""
    return shape % NVALUES in (0, 3)


def make_value(shape: int, x: int):
    shape %= NVALUES
    if shape == 0:
        return KwOnlyError(status=400 + x, body={"probe": x})
    if shape == 1:
        return StopSignal("stop", x)
    if shape == 2:
        return ErrorValue(ConnectionError(f"peer {x} went away"), x)
    return SfErr0(f"reported, not raised {x}")


def observe_value(v) -> tuple:
    if isinstance(v, BaseException):
        return ("exception-object",) + observe(v)
    if isinstance(v, ErrorValue):
        return ("ErrorValue", observe(v.error), repr(v.attempt))
    return ("other", type(v).__qualname__, repr(v)[:80])
