"""C08 helper: signatures, typed values, call forms, templates; execution on the real cashews key code.

A *case* (JSON-serialisable, this is also the replay format):

  {"names": {"module","name","qualname"},
   "sig":   [[kind, name, default-or-None]...]      kind p=positional-or-keyword k=keyword-only s=*args w=**kwargs
   "tmpl":  {"auto": [excluded names]} | {"items": [["L", text] | ["F", field]]...},
   "ctx":   None | {"rewrite": bool, "vals": [[name, value]...]},
   "via":   "direct" | "default" | "decorator" | "noself"    (noself: through cashews.key.noself(cache)(ttl=..), no key=)
   "recv":  absent | "obj"       (obj: a str bound to the first parameter is passed as an object whose __str__ is that text)
   "flight": absent | "cache" | "early" | "soft"   (also run pairs of overlapping calls through that decorator)
   "inside": absent | one of INSIDE_KINDS   (decorated vias: the calls are made inside the body of an enclosing function with the same
                                  parameter names, decorated with that cashews decorator and called with other values)
   "opts": absent | {time_condition: -1, lock: true, upper: true, protected: false} (any subset; decorated vias: passed to the decorator)
   "stack": absent | one of STACK_KINDS   (the function is first decorated with that cashews decorator, the cache decorator goes on top)
   "reuse": absent | true        (noself only: the decorator object noself(cache)(ttl=..) is first applied to a sibling function
                                  with the same signature, which is also called with the same arguments before every call)
   "prefix": str (decorator only),
   "groups": [{"calls": [{"args": [value...], "kwargs": [[name, value]...]}...]}...]}

values are strings in the driver's prefix token syntax (see lean/Drivers/C08.lean):
  s:<hex utf-8> | i:<int> | b:0 | b:1 | n | y:<hex> | t:<n> v*n | d:<n> (k:<hex key> v)*n | e:<n> v*n
  (e: a set; the elements in the order they are inserted - for the harness's small sets also the iteration order)
Calls of one group are forms of the same call (same bound arguments); different groups have different ones.
"""
from __future__ import annotations

import importlib
import inspect
import itertools
import warnings

NODEF = None  # "no default" inside case JSON


# ----------------------------------------------------------------------------------------------
# value <-> token syntax

def hx(s: str) -> str:
    return s.encode("utf-8").hex()


class Recv:
    """a receiver (`self` / `cls`) that is a part of the key the way the README recommends: `__str__` gives its text.
    It is rendered by `str(value)` (no entry in the formatter's type table), the model sees the text as a str."""

    def __init__(self, text: str):
        self.text = text

    def __str__(self):
        return self.text

    def __repr__(self):
        return f"Recv({self.text!a})"


def enc_tokens(v) -> list[str]:
    if v is None:
        return ["n"]
    if isinstance(v, Recv):
        return ["s:" + hx(v.text)]
    if isinstance(v, bool):
        return ["b:1" if v else "b:0"]
    if isinstance(v, int):
        return [f"i:{v}"]
    if isinstance(v, str):
        return ["s:" + hx(v)]
    if isinstance(v, bytes):
        return ["y:" + v.hex()]
    if isinstance(v, tuple):
        out = [f"t:{len(v)}"]
        for x in v:
            out += enc_tokens(x)
        return out
    if isinstance(v, set):
        out = [f"e:{len(v)}"]
        for x in v:
            out += enc_tokens(x)
        return out
    if isinstance(v, dict):
        out = [f"d:{len(v)}"]
        for k, x in v.items():
            if not isinstance(k, str):
                raise TypeError("only str keys are in the alphabet")
            out.append("k:" + hx(k))
            out += enc_tokens(x)
        return out
    raise TypeError(f"value outside the alphabet: {v!r}")


def enc(v) -> str:
    return " ".join(enc_tokens(v))


def _dec(toks: list[str], i: int):
    t = toks[i]
    if t == "n":
        return None, i + 1
    kind, _, rest = t.partition(":")
    if kind == "s":
        return bytes.fromhex(rest).decode("utf-8"), i + 1
    if kind == "i":
        return int(rest), i + 1
    if kind == "b":
        return rest == "1", i + 1
    if kind == "y":
        return bytes.fromhex(rest), i + 1
    if kind == "t":
        out = []
        i += 1
        for _ in range(int(rest)):
            v, i = _dec(toks, i)
            out.append(v)
        return tuple(out), i
    if kind == "e":
        out = set()
        i += 1
        for _ in range(int(rest)):
            v, i = _dec(toks, i)
            out.add(v)
        return out, i
    if kind == "d":
        out = {}
        i += 1
        for _ in range(int(rest)):
            k = bytes.fromhex(toks[i][2:]).decode("utf-8")
            v, i = _dec(toks, i + 1)
            out[k] = v
        return out, i
    raise ValueError(f"bad value token {t!r}")


def dec(s: str):
    toks = s.split()
    v, i = _dec(toks, 0)
    if i != len(toks):
        raise ValueError(f"trailing tokens in {s!r}")
    return v


def canon(v) -> str:
    """type-tagged canonical form for Python equality of alphabet values (dict order-insensitive,
    1 / True / '1' kept apart)"""
    if isinstance(v, tuple):
        return "t(" + ",".join(canon(x) for x in v) + ")"
    if isinstance(v, dict):
        return "d(" + ",".join(hx(k) + "=" + canon(x) for k, x in sorted(v.items())) + ")"
    if isinstance(v, set):
        return "e(" + ",".join(sorted(canon(x) for x in v)) + ")"
    return enc(v)


def deep_type(v) -> str:
    """'values of one type': the Python type, structural for containers"""
    if isinstance(v, tuple):
        return "tuple[" + ",".join(deep_type(x) for x in v) + "]"
    if isinstance(v, dict):
        return "dict[" + ",".join(hx(k) + ":" + deep_type(x) for k, x in sorted(v.items())) + "]"
    if isinstance(v, set):
        return "set[" + ",".join(sorted(deep_type(x) for x in v)) + "]"
    return type(v).__name__


# ----------------------------------------------------------------------------------------------
# alphabet

STRS = ["x", "X", "y", "ab", "é", "1", "None", "true", "ff", "5"]
INTS = [0, 1, -7, 7, 42, 5]
BOOLS = [True, False]
BYTES = [b"x", b"ff", b"\xff", b"\xc3\xa9", b"\xc3", b"1", b"\xed\xa0\x80", b"c3", b"\xf0\x9f\x98\x80", b"\xc0\x80"]
TUPLES = [(), (1,), ("1",), (1, "a"), (None,), ((1, 2), 3), (b"\xff", True), ("x",), (2,), ("a", "bc"), ("ab", "c"), (1, 23), (12, 3)]
DICTS = [{}, {"k": 1}, {"b": 1, "a": None}, {"a": (1, 2)}, {"k": 2}, {"z": "q", "y": b"\xff", "x": {"n": None}}, {"b": 2, "a": None}]
MALFORMED = ["", ":", "a:b", b"", b":", b"a:b", "x:", ":x"]


def mkset(*items):
    """a set with this insertion order (1 and 9, 2 and 10, ... share a slot of the small table: their iteration order is
    the insertion order, so equal sets that iterate differently can be built on purpose)"""
    out = set()
    for x in items:
        out.add(x)
    return out


def stable_set(v: set):
    """an equal set whose iteration order is reproduced by inserting its elements in that order (what `dec(enc(v))`
    does), so that the tokens of a case say in which order the implementation will see the elements; None if there is none"""
    for _ in range(8):
        w = mkset(*list(v))
        if list(w) == list(v):
            return w
        v = w
    return None


SETS = [x for x in map(stable_set, [mkset(), mkset(1), mkset(9), mkset(1, 9), mkset(9, 1), mkset("b", "a"), mkset("a", "b"), mkset(2, 10, 18), mkset(18, 10, 2), mkset(10, 18, 2),
        mkset("x"), mkset("y"), mkset(None, "x"), mkset((1, 2), 3), mkset(b"\xff", "ff"), mkset("\u00e9", "e\u0301"), mkset(17, 1, 9), mkset(9, 17, 1)]) if x is not None]
POOLS = {"str": STRS, "int": INTS, "bool": BOOLS, "none": [None], "bytes": BYTES, "tuple": TUPLES, "dict": DICTS, "set": SETS}
TYPES = list(POOLS)
EXTRA_KW_NAMES = ["x", "y", "zz"]

# Text outside ASCII.  A Python `str` is a sequence of code points and `_decode_direct` renders it as itself (model:
# `typeFmt (.str s) = s`, Props/C08.lean `str_text_is_identity`), so *different* strings that some notion of "the same
# text" identifies must keep different keys.  Every family below lists pairwise different strings (all non-empty and
# ':'-free) that one realistic normalising / folding / trimming / re-encoding renderer would merge:
TEXT_FAMILIES = {
    # unicodedata.normalize("NFC" / "NFD"): canonical equivalence
    "canonical": ["caf\u00e9", "cafe\u0301"],
    "canonical_singleton": ["\u00c5", "\u212b", "A\u030a"],                # A-ring, ANGSTROM SIGN, A + combining ring
    "canonical_ohm": ["\u03a9", "\u2126"],                                 # GREEK OMEGA, OHM SIGN
    "canonical_mark_order": ["a\u0323\u0307", "a\u0307\u0323", "\u1ea1\u0307"],   # marks of different classes reorder
    "canonical_cjk": ["\uf900", "\u8c48"],                          # CJK compatibility ideograph / unified
    "canonical_hangul": ["\uac00", "\u1100\u1161"],                        # precomposed syllable / conjoining jamo
    # NFKC / NFKD: compatibility equivalence
    "compat_ligature": ["\ufb01", "fi"],
    "compat_fullwidth": ["\uff11\uff12", "12", "\u0661\u0662"],            # full-width digits, ASCII, Arabic-Indic (int() reads all three as 12)
    "compat_super": ["x\u00b2", "x2", "x\u2461"],
    "compat_math": ["\U0001d400", "A", "\uff21"],                          # MATHEMATICAL BOLD A (non-BMP), A, FULLWIDTH A
    # lower() / upper() / casefold()
    "case_ascii": ["Key", "key", "KEY"],
    "case_sharp_s": ["stra\u00dfe", "strasse", "STRASSE", "stra\u1e9ee"],
    "case_sigma": ["\u03c3", "\u03c2", "\u03a3"],
    "case_dotted_i": ["\u0130", "i\u0307", "I", "i", "\u0131"],
    # strip() / split() / " ".join: white space at the ends, kinds of space
    "space_ends": ["x", " x", "x ", " x ", "x\t", "x\n", "\u00a0x", "x\u3000", "x\u2028"],
    "space_inner": ["a b", "a  b", "a\u00a0b", "a\tb", "a\u2009b"],
    # characters that print as nothing
    "zero_width": ["ab", "a\u200bb", "a\u200cb", "a\u200db", "a\u2060b", "a\ufeffb", "\ufeffab", "a\u00adb", "ab\u200e", "a\u034fb"],
    "control": ["ab", "a\x00b", "ab\x00", "a\x7fb", "a\x85b", "a\x1bb"],
    # encode("ascii", "ignore" / "replace" / ...), latin-1 / utf-8 confusion, 16-bit truncation
    "lossy_ascii": ["\u00e9", "e", "?", "\u00c3\u00a9", "\\xe9", "\\u00e9", "\ufffd", "e\u0301"],
    "non_bmp": ["\U0001f600", "\U0001f601", "\uf600", "\ud7ff", "\ue000", "\uffff", "\U00010000", "\U0010ffff",
                "\U0001f1e9\U0001f1ea", "\U0001f1ea\U0001f1e9", "\U0001f44d", "\U0001f44d\U0001f3fd", "\u2764", "\u2764\ufe0f"],
    # truncation / length limits: texts that differ only far from the start
    "long_tail": ["k" * 40 + "a", "k" * 40 + "b", "k" * 40, "\u00e9" * 130 + "1", "\u00e9" * 130 + "2", "\U0001f600" * 70 + "1", "\U0001f600" * 70 + "2"],
    # homoglyphs (confusable folding)
    "homoglyph": ["a", "\u0430", "\u0251", "o", "\u03bf", "\u043e", "0"],
}
USTRS = sorted({s for fam in TEXT_FAMILIES.values() for s in fam})
FAMILY_OF: dict = {}
for _fam, _members in TEXT_FAMILIES.items():
    for _s in _members:
        FAMILY_OF.setdefault(_s, []).append(_fam)
# the same texts as UTF-8 bytes arguments (all valid UTF-8: rendered by `bytes.decode()`)
UBYTES = [s.encode("utf-8") for s in USTRS]
# containers holding them: 1-tuples (text without ':'), longer tuples, dict values, nested
UTUPLES = [("caf\u00e9",), ("cafe\u0301",), ("\u00c5", 1), ("\u212b", 1), (("\ufb01",), "z"), (("fi",), "z"), ("x ", "y"), ("x", "y"),
           (b"caf\xc3\xa9",), (b"cafe\xcc\x81",), ("\U0001f600",), ("\U0001f601",)]
UDICTS = [{"k": "caf\u00e9"}, {"k": "cafe\u0301"}, {"k": "\u03a9", "j": 1}, {"k": "\u2126", "j": 1}, {"k": ("a\u200bb",)}, {"k": ("ab",)},
          {"\u00e9": 1, "e\u0301": 2}, {"e\u0301": 1, "\u00e9": 2}, {"k": "Key"}, {"k": "key"}]
UPOOLS = {"str": USTRS, "bytes": UBYTES, "tuple": UTUPLES, "dict": UDICTS}
P_UNICODE = 0.3     # share of non-ASCII draws in the general stream


def gen_value(rng, typ=None, malformed=False):
    if malformed and rng.random() < 0.6:
        return rng.choice(MALFORMED)
    typ = typ or rng.choice(TYPES)
    if typ in UPOOLS and rng.random() < P_UNICODE:
        return rng.choice(UPOOLS[typ])
    return rng.choice(POOLS[typ])


def text_variants(v):
    """values of the same structural type that differ from `v` only by another member of a text family at a `str`
    leaf, or at a valid-UTF-8 `bytes` leaf"""
    if isinstance(v, str):
        return [w for fam in FAMILY_OF.get(v, []) for w in TEXT_FAMILIES[fam] if w != v]
    if isinstance(v, bytes):
        try:
            s = v.decode("utf-8")
        except UnicodeDecodeError:
            return []
        return [w.encode("utf-8") for w in text_variants(s)]
    if isinstance(v, tuple):
        return [v[:i] + (w,) + v[i + 1:] for i in range(len(v)) for w in text_variants(v[i])]
    if isinstance(v, dict):
        return [{**v, k: w} for k in v for w in text_variants(v[k])]
    return []


def pool_type(v) -> str:
    if v is None:
        return "none"
    return {bool: "bool", int: "int", str: "str", bytes: "bytes", tuple: "tuple", dict: "dict", set: "set"}[type(v)]


def other_value_same_type(rng, v):
    """a different value of the same pool type (None has none); for text inside a family of look-alikes mostly
    another member of the family"""
    near = text_variants(v)
    if near and rng.random() < 0.75:
        return rng.choice(near)
    pt = pool_type(v)
    pool = [w for w in POOLS[pt] + UPOOLS.get(pt, []) if canon(w) != canon(v)]
    deep = [w for w in pool if deep_type(w) == deep_type(v)]
    if deep and rng.random() < 0.7:
        return rng.choice(deep)
    return rng.choice(pool) if pool else None


# ----------------------------------------------------------------------------------------------
# signatures

def all_shapes(maxn=4):
    """every valid arrangement of <= maxn parameters over the four kinds, with / without defaults:
    (npos, ndef trailing defaulted positional, has *args, mask of defaulted keyword-only, nkw, has **kwargs)"""
    out = []
    for npos in range(maxn + 1):
        for ndef in range(npos + 1):
            for vp in (0, 1):
                for nkw in range(maxn + 1):
                    for vk in (0, 1):
                        if npos + vp + nkw + vk > maxn:
                            continue
                        for mask in range(2 ** nkw):
                            out.append((npos, ndef, vp, nkw, mask, vk))
    return out


# parameter names: every non-empty proper substring of "self" and of "cls" (a membership test on a *string* of receiver
# names instead of a tuple is a substring test), names that extend a receiver's name, one-letter names, names that are
# prefixes / suffixes of each other, upper case, digits, underscores.  Not in the pool: the names the harness uses for
# extra keywords and context values (x, y, zz, site).  `template` is the name of the first parameter of
# cashews.formatter.default_format, which receives the call's values as keywords.
RECEIVERS = ["self", "cls"]
RECEIVER_PIECES = ["s", "e", "l", "f", "se", "el", "lf", "sel", "elf", "c", "cl", "ls"]
NAME_POOL = RECEIVER_PIECES + ["self_", "_self", "selfish", "myself", "cls_", "a", "ab", "abc", "b", "a_b", "k", "key", "ke", "arg", "kwarg",
                               "_a", "A", "n1", "n", "id", "i", "d", "template", "values", "format_string"]


assert len(set(NAME_POOL)) == len(NAME_POOL)


def make_sig(rng, shape, first_self=False, alt_names=False, pool_names=False):
    npos, ndef, vp, nkw, mask, vk = shape
    letters = iter(rng.sample(NAME_POOL, 4) if pool_names else ["a", "b", "c", "d"])
    sig = []
    for i in range(npos):
        name = next(letters)
        if i == 0 and first_self:
            name = first_self if isinstance(first_self, str) else "self"
        d = enc(gen_value(rng)) if i >= npos - ndef else NODEF
        sig.append(["p", name, d])
    if vp:
        sig.append(["s", "rest" if alt_names else "args", NODEF])
    for j in range(nkw):
        name = next(letters)
        d = enc(gen_value(rng)) if (mask >> j) & 1 else NODEF
        sig.append(["k", name, d])
    if vk:
        sig.append(["w", "kw" if alt_names else "kwargs", NODEF])
    return sig


def sig_source(sig) -> tuple[str, dict]:
    parts, ns = [], {}
    seen_star = False
    for i, (kind, name, d) in enumerate(sig):
        if kind == "k" and not seen_star:
            parts.append("*")
            seen_star = True
        if kind == "s":
            parts.append("*" + name)
            seen_star = True
        elif kind == "w":
            parts.append("**" + name)
        elif d is NODEF:
            parts.append(name)
        else:
            ns[f"_d{i}"] = dec(d)
            parts.append(f"{name}=_d{i}")
    return ", ".join(parts), ns


_FUNCS: dict = {}


def build_func(case):
    """a real `async def` with exactly this signature; it returns the canonical form of what it received"""
    names = case["names"]
    key = (tuple(map(tuple, case["sig"])), names["module"], names["name"], names["qualname"])
    if key in _FUNCS:
        return _FUNCS[key]
    params, ns = sig_source(case["sig"])
    ns["__name__"] = names["module"]
    ns["_canon"] = canon
    got = ", ".join(f"{name!r}: {name}" for _, name, _ in case["sig"])
    src = (f"async def {names['name']}({params}):\n    _CALLS.append(1)\n    if _HOOK:\n        await _HOOK[0]()\n"
           f"    return _canon({{{got}}})\n")
    ns["_CALLS"] = []
    ns["_HOOK"] = []
    exec(src, ns)
    f = ns[names["name"]]
    f.__qualname__ = names["qualname"]
    f._calls = ns["_CALLS"]
    f._hook = ns["_HOOK"]      # flight stage: a coroutine function awaited inside the body (parks the call)
    _FUNCS[key] = f
    if len(_FUNCS) > 4000:
        _FUNCS.clear()
    return f


def param_key(kind, name):
    return "__args__" if kind == "s" else "__kwargs__" if kind == "w" else name


# ----------------------------------------------------------------------------------------------
# bound tuples and the call forms that produce them

SCALAR_TYPES = ["str", "int", "bool", "none", "bytes"]


def gen_bound(rng, sig, malformed=False, scalar=False):
    """values for the named parameters (biased to the default when there is one), extra positionals, extra keywords;
    `scalar`: only str/int/bool/None/bytes and exactly one extra positional, so that every field of a generated
    template (except a non-empty **kwargs) has a non-empty text without ':'"""
    vals = {}
    for kind, name, d in sig:
        if kind in "pk":
            if d is not NODEF and rng.random() < (0.25 if scalar else 0.5):
                vals[name] = dec(d)
            else:
                vals[name] = gen_value(rng, typ=rng.choice(SCALAR_TYPES) if scalar else None, malformed=malformed)
    extra_pos, extra_kw = [], {}
    if scalar and any(k == "s" for k, _, _ in sig):
        extra_pos = [gen_value(rng, typ=rng.choice(["str", "int", "bool", "bytes"]))]
    elif any(k == "s" for k, _, _ in sig) and rng.random() < 0.5:
        extra_pos = [gen_value(rng, malformed=malformed) for _ in range(rng.choice([1, 1, 2]))]
    vp_name = next((n for k, n, _ in sig if k == "s"), None)
    if any(k == "w" for k, _, _ in sig) and rng.random() < 0.6:
        names = EXTRA_KW_NAMES + ([vp_name] if vp_name else [])
        for n in rng.sample(names, rng.choice([1, 1, 2])):
            extra_kw[n] = gen_value(rng, malformed=malformed)
    return {"vals": vals, "extra_pos": extra_pos, "extra_kw": extra_kw}


def call_forms(rng, sig, bound, limit=12):
    """every way to write the call that binds to `bound`: k leading parameters positionally, the others
    by keyword or left out when equal to their default; keyword order varied"""
    pos = [(n, d) for k, n, d in sig if k == "p"]
    kwo = [(n, d) for k, n, d in sig if k == "k"]
    vals = bound["vals"]
    forms = []

    def same_as_default(n, d):
        return d is not NODEF and canon(dec(d)) == canon(vals[n])

    ks = [len(pos)] if bound["extra_pos"] else range(len(pos) + 1)
    for k in ks:
        args = [vals[n] for n, _ in pos[:k]] + list(bound["extra_pos"])
        rest = pos[k:] + kwo
        optional = [n for n, d in rest if same_as_default(n, d)]
        for r in range(len(optional) + 1):
            for omitted in itertools.combinations(optional, r):
                kw = [(n, vals[n]) for n, _ in rest if n not in omitted] + list(bound["extra_kw"].items())
                forms.append((args, kw))
                if len(kw) >= 2:
                    forms.append((args, list(reversed(kw))))
                    if len(kw) >= 3:
                        sh = kw[:]
                        rng.shuffle(sh)
                        forms.append((args, sh))
    def flip(v):
        if isinstance(v, dict):
            return {k: flip(x) for k, x in reversed(list(v.items()))}
        if isinstance(v, tuple):
            return tuple(flip(x) for x in v)
        if isinstance(v, set):
            return stable_set(mkset(*reversed(list(v)))) or v
        return v

    # a dict argument written with another insertion order is the same (==) argument, and so is a set built in another order
    for a, kw in list(forms):
        fa, fkw = [flip(x) for x in a], [(n, flip(x)) for n, x in kw]
        if [enc(x) for x in fa] != [enc(x) for x in a] or [enc(x) for _, x in fkw] != [enc(x) for _, x in kw]:
            forms.append((fa, fkw))
    uniq, seen = [], set()
    for a, kw in forms:
        key = (tuple(enc(x) for x in a), tuple((n, enc(x)) for n, x in kw))
        if key not in seen:
            seen.add(key)
            uniq.append((a, kw))
    if len(uniq) > limit:
        head = uniq[:1]
        tail = uniq[1:]
        rng.shuffle(tail)
        uniq = head + tail[: limit - 1]
    return [{"args": [enc(x) for x in a], "kwargs": [[n, enc(x)] for n, x in kw]} for a, kw in uniq]


def mutate_bound(rng, sig, bound, same_type=True):
    """a bound tuple that differs in exactly one place; returns (new bound, what changed)"""
    spots = [("val", n) for n in bound["vals"]]
    if any(k == "s" for k, _, _ in sig):
        spots.append(("pos", None))
    if any(k == "w" for k, _, _ in sig):
        spots.append(("kw", None))
    if not spots:
        return None, None
    what, n = rng.choice(spots)
    nb = {"vals": dict(bound["vals"]), "extra_pos": list(bound["extra_pos"]), "extra_kw": dict(bound["extra_kw"])}
    if what == "val":
        old = nb["vals"][n]
        new = other_value_same_type(rng, old) if same_type else gen_value(rng)
        if new is None or canon(new) == canon(old):
            new = gen_value(rng)
            if canon(new) == canon(old):
                return None, None
        nb["vals"][n] = new
        return nb, n
    if what == "pos":
        if nb["extra_pos"] and rng.random() < 0.5:
            i = rng.randrange(len(nb["extra_pos"]))
            new = other_value_same_type(rng, nb["extra_pos"][i])
            if new is None:
                return None, None
            nb["extra_pos"][i] = new
        else:
            nb["extra_pos"].append(gen_value(rng))
        # extra positionals force every positional parameter to be written positionally: always possible
        return nb, "__args__"
    if nb["extra_kw"] and rng.random() < 0.5:
        k = rng.choice(sorted(nb["extra_kw"]))
        new = other_value_same_type(rng, nb["extra_kw"][k])
        if new is None:
            return None, None
        nb["extra_kw"][k] = new
    else:
        free = [x for x in EXTRA_KW_NAMES if x not in nb["extra_kw"]]
        if not free:
            return None, None
        nb["extra_kw"][rng.choice(free)] = gen_value(rng)
    return nb, "__kwargs__"


def bound_canon(sig, bound) -> str:
    parts = []
    for kind, name, _ in sig:
        if kind in "pk":
            parts.append(name + "=" + canon(bound["vals"][name]))
        elif kind == "s":
            parts.append("*" + canon(tuple(bound["extra_pos"])))
        else:
            parts.append("**" + canon(dict(bound["extra_kw"])))
    return ";".join(parts)


# ----------------------------------------------------------------------------------------------
# templates

def gen_explicit_template(rng, sig, separated=None):
    """literal / field items over the parameters of `sig`; `separated` forces (True) or breaks (False) the
    ':' between consecutive fields"""
    keys = [param_key(k, n) for k, n, _ in sig]
    if not keys:
        return [["L", rng.choice(["const", "k:v"])]]
    n = rng.randint(1, min(3, len(keys)))
    fields = [rng.choice(keys) for _ in range(n)] if rng.random() < 0.2 else rng.sample(keys, n)
    if separated is None:
        separated = rng.random() < 0.7
    items = []
    if rng.random() < 0.7:
        items.append(["L", rng.choice(["k:", "pre", "u-", "key:x:"])])
    for i, f in enumerate(fields):
        if i:
            if separated:
                items.append(["L", rng.choice([":", ":" + f + ":", "-:-", "::", "/a:"])])
            elif rng.random() < 0.5:
                items.append(["L", rng.choice(["-", "/", "_x_"])])
        items.append(["F", f])
    if rng.random() < 0.3:
        items.append(["L", rng.choice([":end", "!", ":"])])
    return items


def template_string(items) -> str:
    return "".join(t if k == "L" else "{" + t + "}" for k, t in items)


def is_separated(items) -> bool:
    """between two consecutive fields there is a literal containing ':' (same definition as the model's `separated`)"""
    pending, colon = False, False
    for k, t in items:
        if k == "F":
            if pending and not colon:
                return False
            pending, colon = True, False
        elif ":" in t:
            colon = True
    return True


# ----------------------------------------------------------------------------------------------
# driver lines

def case_lines(case) -> list[str]:
    lines = []
    sig = case["sig"]
    toks = ["sig", str(len(sig))]
    for kind, name, d in sig:
        toks += [kind, hx(name), "-" if d is NODEF else d]
    lines.append(" ".join(toks))
    t = case["tmpl"]
    nm = case["names"]
    if "auto" in t:
        lines.append(" ".join(["tmpl", "auto", hx(nm["module"]), hx(nm["name"]), hx(nm["qualname"]),
                               str(len(t["auto"]))] + [hx(x) for x in t["auto"]]))
    else:
        items = list(t["items"])
        if case.get("prefix"):
            items = [["L", case["prefix"] + ":"]] + items
        items = [it for it in items if it[0] == "F" or it[1] != ""]
        lines.append(" ".join(["tmpl", "ex", str(len(items))] + [f"{k}:{hx(x)}" for k, x in items]))
    ctx = case.get("ctx")
    if ctx:
        toks = ["ctx", "1" if ctx["rewrite"] else "0", str(len(ctx["vals"]))]
        for n, v in ctx["vals"]:
            toks += [hx(n), v]
        lines.append(" ".join(toks))
    else:
        lines.append("ctx 0 0")
    for g in case["groups"]:
        for c in g["calls"]:
            toks = ["call", str(len(c["args"]))] + list(c["args"]) + [str(len(c["kwargs"]))]
            for n, v in c["kwargs"]:
                toks += [hx(n), v]
            lines.append(" ".join(toks))
    return lines


# ----------------------------------------------------------------------------------------------
# the implementation

def call_values(case, c):
    """the Python arguments of one call of a case; with `recv: obj` a str given for the first parameter becomes an
    object that renders as that text"""
    args = [dec(x) for x in c["args"]]
    kwargs = {n: dec(v) for n, v in c["kwargs"]}
    sig = case["sig"]
    if case.get("recv") == "obj" and sig and sig[0][0] == "p":
        if args:
            if isinstance(args[0], str):
                args[0] = Recv(args[0])
        elif isinstance(kwargs.get(sig[0][1]), str):
            kwargs[sig[0][1]] = Recv(kwargs[sig[0][1]])
    return tuple(args), kwargs


def enc_bound(ba: inspect.BoundArguments | None) -> str:
    if ba is None:
        return "E"
    parts = []
    for name, v in ba.arguments.items():
        parts.append(hx(name) + "=" + ".".join(enc_tokens(v)))
    return "[" + ",".join(parts) + "]"


def py_bind(sig: inspect.Signature, args, kwargs, partial, defaults) -> str:
    try:
        ba = (sig.bind_partial if partial else sig.bind)(*args, **kwargs)
    except TypeError:
        return "E"
    if defaults:
        ba.apply_defaults()
    return enc_bound(ba)


class _Ctx:
    def __init__(self, ctx):
        self.ctx = ctx
        self.cm = None

    def __enter__(self):
        if self.ctx:
            kc = importlib.import_module("cashews.key_context")
            vals = {n: dec(v) for n, v in self.ctx["vals"]}
            with warnings.catch_warnings():
                warnings.simplefilter("ignore", DeprecationWarning)
                self.cm = kc.context(rewrite=True, **vals) if self.ctx["rewrite"] else kc.context(**vals)
                self.cm.__enter__()
        return self

    def __exit__(self, *exc):
        if self.cm is not None:
            self.cm.__exit__(*exc)
        return False


def text_of(v) -> str:
    """the implementation's own rendering of one value as a template field"""
    from cashews.formatter import default_format

    return default_format("{v}", v=v)


def run_direct(case) -> dict:
    """`get_cache_key_template` + `get_cache_key` on every call of the case"""
    from cashews.key import get_cache_key, get_cache_key_template

    func = build_func(case)
    t = case["tmpl"]
    if "auto" in t:
        tmpl = get_cache_key_template(func, exclude_parameters=tuple(t["auto"]))
    else:
        tmpl = template_string(t["items"])
    pass_tmpl = None if case["via"] == "default" else tmpl
    psig = inspect.signature(func)
    out = {"tmpl": tmpl, "calls": []}
    with _Ctx(case.get("ctx")):
        for g in case["groups"]:
            for c in g["calls"]:
                args, kwargs = call_values(case, c)
                try:
                    key = get_cache_key(func, pass_tmpl, args, kwargs)
                    if not isinstance(key, str):
                        key = "E:nonstr:" + type(key).__name__
                    else:
                        key = "K:" + key
                except Exception as exc:  # noqa: BLE001 - the class is the observable
                    key = "E:" + type(exc).__name__
                out["calls"].append({
                    "key": key,
                    "b": py_bind(psig, args, kwargs, False, False),
                    "p": py_bind(psig, args, kwargs, True, False),
                    "d": py_bind(psig, args, kwargs, False, True),
                    "q": py_bind(psig, args, kwargs, True, True),
                })
    return out


def decorate(cache, case, func, kind="cache", with_opts=True):
    """(decorated function, the key template the decorator works with).  via decorator: `cache(ttl=.., key=.., prefix=..)`;
    via noself: `cashews.key.noself(cache)(ttl=..)`, which derives the template itself and hands it to the decorator
    factory as `key=` - that argument is what is reported.  kind: cache | early | soft"""
    from cashews.key import get_cache_key_template, noself

    t = case["tmpl"]
    kw = {}
    if "items" in t:
        kw["key"] = template_string(t["items"])
    if case.get("prefix"):
        kw["prefix"] = case["prefix"]
    fabric = {"cache": cache, "early": cache.early, "soft": cache.soft}[kind]
    extra = dict({"early": {"early_ttl": 32}, "soft": {"soft_ttl": 32}}.get(kind, {}))
    # facade options that wrap the function (or change how the decorator is applied) before the key template is derived
    if with_opts:
        extra.update(case.get("opts") or {})
    if case.get("stack") and with_opts:
        # the cache decorator is applied on top of another cashews decorator's result
        func = stack_under(cache, case["stack"])(func)
    if case["via"] == "noself":
        seen = {}

        def spy(*a, **k):
            seen["key"] = k.get("key")
            return fabric(*a, **k)

        decorator = noself(spy)(ttl=64, **extra)
        if case.get("reuse"):
            wrapped_sibling = decorator(sibling_func(case))
        wrapped = decorator(func)
        if case.get("reuse"):
            wrapped._sibling = wrapped_sibling
        return wrapped, seen.get("key")
    wrapped = fabric(ttl=64, **extra, **kw)(func)
    return wrapped, get_cache_key_template(func, key=kw.get("key"), prefix=kw.get("prefix", ""))


WRAP_OPTIONS = [{"time_condition": -1}, {"lock": True}, {"upper": True}, {"protected": False}, {"time_condition": -1, "lock": True},
                {"time_condition": -1, "upper": True}, {"upper": True, "lock": True, "protected": False}, {"time_condition": -1, "protected": False}]
STACK_KINDS = ["locked", "rate_limit", "slice_rate_limit", "circuit_breaker", "invalidate"]


def stack_under(cache, kind):
    return {"locked": lambda: cache.locked(ttl=64), "rate_limit": lambda: cache.rate_limit(limit=100000, period=64),
            "slice_rate_limit": lambda: cache.slice_rate_limit(limit=100000, period=64),
            "circuit_breaker": lambda: cache.circuit_breaker(errors_rate=50, period=64, ttl=64),
            "invalidate": lambda: cache.invalidate("zzz-unrelated:*")}[kind]()


def sibling_func(case):
    """another function with the same signature (name `sib`); its results are marked `SIB:`"""
    import functools

    names = case["names"]
    inner = build_func(dict(case, names={"module": names["module"], "name": "sib", "qualname": names["qualname"].replace(names["name"], "sib")}))

    @functools.wraps(inner)
    async def sib(*a, **k):
        return "SIB:" + await inner(*a, **k)

    return sib


FLIGHT_TURNS = 60


class FlightStuck(RuntimeError):
    """a bounded wait of the flight stage ran out (reported as a harness error, never a hang)"""


async def run_flight(case) -> list[dict]:
    """pairs of overlapping calls through the decorator: the first call is parked inside the function body (it awaits
    an Event there), the second one is started and given time to go as far as it can, then the body is released.
    Pairs: the first forms of every two groups (different bound arguments) and two forms of one group (same bound
    arguments).  Reported per pair: both results, how many times the body ran, whether the second call reached the body
    while the first one was parked.  Every wait is a bounded number of loop turns."""
    import asyncio

    from cashews import Cache

    groups = case["groups"]
    pairs = [((i, 0), (j, 0)) for i in range(len(groups)) for j in range(i + 1, len(groups))][:4]
    pairs += [((i, 0), (i, 1)) for i in range(len(groups)) if len(groups[i]["calls"]) > 1][:2]
    func = build_func(case)
    out = []
    for a, b in pairs:
        cache = Cache()
        cache.setup("mem://?check_interval=0&size=100000")
        await cache.init()
        try:
            wrapped, _ = decorate(cache, case, func, case["flight"], with_opts=False)
        except Exception:  # noqa: BLE001 - the decorator refused the template
            await cache.close()
            return out
        release = asyncio.Event()
        parked = []

        async def hook():
            parked.append(1)
            await release.wait()

        func._hook[:] = [hook]
        ran0 = len(func._calls)
        tasks = []
        try:
            ca, cb = groups[a[0]]["calls"][a[1]], groups[b[0]]["calls"][b[1]]
            args, kwargs = call_values(case, ca)
            ta = asyncio.ensure_future(wrapped(*args, **kwargs))
            tasks.append(ta)
            for _ in range(FLIGHT_TURNS):
                if parked or ta.done():
                    break
                await asyncio.sleep(0)
            if not parked:
                if not ta.done():
                    raise FlightStuck(f"flight: the first call neither reached the function body nor finished in {FLIGHT_TURNS} turns")
                ta.exception()
                continue        # unbindable call: nothing overlaps
            args, kwargs = call_values(case, cb)
            tb = asyncio.ensure_future(wrapped(*args, **kwargs))
            tasks.append(tb)
            for _ in range(FLIGHT_TURNS):
                if len(parked) > 1 or tb.done():
                    break
                await asyncio.sleep(0)
            overlapped = len(parked) > 1
            release.set()
            for _ in range(FLIGHT_TURNS * 4):
                if ta.done() and tb.done():
                    break
                await asyncio.sleep(0)
            if not (ta.done() and tb.done()):
                raise FlightStuck(f"flight: the calls did not finish within {FLIGHT_TURNS * 4} turns after the body was released")
            res = []
            for t in (ta, tb):
                res.append("E:" + type(t.exception()).__name__ if t.exception() else "R:" + str(t.result()))
            out.append({"a": list(a), "b": list(b), "ra": res[0], "rb": res[1], "ran": len(func._calls) - ran0,
                        "second_reached_body_while_first_parked": overlapped})
        finally:
            del func._hook[:]
            release.set()
            for t in tasks:
                if not t.done():
                    t.cancel()
            await cache.close()
    return out


async def run_decorated(case) -> dict:
    """the same calls through `@cache(ttl=..)` on a `Cache('mem://')` whose backend records the keys it is
    asked for; every call also reports what the call returned and whether the body ran"""
    from cashews import Cache

    cache = Cache()
    backend = cache.setup("mem://?check_interval=0&size=100000")
    await cache.init()
    rec: list = []
    og, os_ = backend.get, backend.set

    async def get(key, default=None):
        rec.append(("get", key))
        return await og(key, default=default)

    async def set(key, value, *a, **k):  # noqa: A001
        rec.append(("set", key))
        return await os_(key, value, *a, **k)

    backend.get, backend.set = get, set
    func = build_func(case)
    out = {"calls": []}
    try:
        wrapped, out["tmpl"] = decorate(cache, case, func)
    except Exception as exc:  # noqa: BLE001
        out["decor_error"] = type(exc).__name__
        await cache.close()
        return out
    from cashews.key import get_cache_key

    async def do_calls():
        for g in case["groups"]:
            for c in g["calls"]:
                args, kwargs = call_values(case, c)
                if getattr(wrapped, "_sibling", None) is not None:
                    try:
                        await wrapped._sibling(*args, **kwargs)
                    except Exception:  # noqa: BLE001 - an unbindable call
                        pass
                del rec[:]
                ran0 = len(func._calls)
                try:
                    res = await wrapped(*args, **kwargs)
                    res = "R:" + str(res)
                except Exception as exc:  # noqa: BLE001
                    res = "E:" + type(exc).__name__
                gets = [k for op, k in rec if op == "get"]
                sets = [k for op, k in rec if op == "set"]
                # the lock entries of lock=True / an underlying cache.locked (set through the same backend): "lock:<key>", "locked:<key>"
                locks = [k for k in sets if k.startswith(("lock:", "locked:"))]
                sets = [k for k in sets if k not in locks]
                out["calls"].append({
                    "key": ("K:" + gets[0]) if gets else res if res.startswith("E:") else "E:noget",
                    "gets": gets, "sets": sets, "result": res, "ran": len(func._calls) - ran0,
                })
                if case.get("inside"):
                    # what get_cache_key itself says at this place (inside the body of the enclosing decorated function)
                    try:
                        out["calls"][-1]["direct_here"] = "K:" + get_cache_key(func, out["tmpl"], args, kwargs)
                    except Exception as exc:  # noqa: BLE001
                        out["calls"][-1]["direct_here"] = "E:" + type(exc).__name__

    with _Ctx(case.get("ctx")):
        if case.get("inside"):
            try:
                outer, okw = enclosing_function(cache, case, do_calls)
            except Exception as exc:  # noqa: BLE001
                await cache.close()
                raise InsideError(f"could not build the enclosing function ({case['inside']}): {type(exc).__name__}: {exc}") from exc
            n0 = len(out["calls"])
            try:
                await outer(**okw)
            except Exception as exc:  # noqa: BLE001
                await cache.close()
                raise InsideError(f"the enclosing function ({case['inside']}) raised {type(exc).__name__}: {exc}") from exc
            if len(out["calls"]) - n0 != sum(len(g["calls"]) for g in case["groups"]):
                await cache.close()
                raise InsideError(f"the body of the enclosing function ({case['inside']}) did not run exactly once")
        else:
            await do_calls()
    await cache.close()
    return out


class InsideError(RuntimeError):
    """the enclosing decorated function of an `inside` case could not be built / run (a harness error)"""


OUTER_PREFIX = "O-"
INSIDE_KINDS = ["invalidate", "invalidate_tmpl", "cache", "early", "soft", "hit", "failover", "locked", "circuit_breaker", "rate_limit",
                "slice_rate_limit", "disabling"]
# not among them: cache.transaction() and cache.invalidate_further() - inside them a read does not reach the backend's
# `get` (transaction buffer / delete-instead-of-read), so the key a call reads is not observable the way the harness observes it


def outer_values(case) -> dict:
    """the keyword arguments of the enclosing call: every named parameter of the case's signature (and, with **kwargs,
    the extra keyword names the harness uses) with a value no inner call has"""
    okw = {}
    for kind, name, _ in case["sig"]:
        if kind in "pk":
            okw[name] = OUTER_PREFIX + name
        elif kind == "w":
            for n in EXTRA_KW_NAMES:
                okw[n] = OUTER_PREFIX + n
    return okw


def enclosing_function(cache, case, body):
    """an `async def outer(<the parameters of the case's function>)` whose body runs `body()` (the case's calls),
    decorated with the cashews decorator / entered through the cashews context manager named by case['inside']; the
    parameter names - and so every name a key context built from the enclosing call could hold - are those of the
    inner function's template fields, the values are different"""
    kind = case["inside"]
    params, ns = sig_source(case["sig"])
    ns["__name__"] = "m"
    ns["_BODY"] = body
    exec(f"async def outer({params}):\n    return await _BODY()\n", ns)
    outer = ns["outer"]
    okw = outer_values(case)
    named = [n for k, n, _ in case["sig"] if k in "pk"]
    fields = ":".join("{" + n + "}" for n in named)
    if kind == "invalidate":
        deco = cache.invalidate("inv:" + (("{" + named[0] + "}:") if named else "") + "*")
    elif kind == "invalidate_tmpl":
        deco = cache.invalidate("inv:" + fields + ":*", defaults={n: "D-" + n for n in named[:1]})
    elif kind == "cache":
        deco = cache(ttl=64, key="outer:" + fields if named else None)
    elif kind == "early":
        deco = cache.early(ttl=64, early_ttl=32)
    elif kind == "soft":
        deco = cache.soft(ttl=64, soft_ttl=32)
    elif kind == "hit":
        deco = cache.hit(ttl=64, cache_hits=3)
    elif kind == "failover":
        deco = cache.failover(ttl=64)
    elif kind == "locked":
        deco = cache.locked(ttl=64)
    elif kind == "circuit_breaker":
        deco = cache.circuit_breaker(errors_rate=50, period=64, ttl=64)
    elif kind == "rate_limit":
        deco = cache.rate_limit(limit=1000, period=64)
    elif kind == "slice_rate_limit":
        deco = cache.slice_rate_limit(limit=1000, period=64)
    elif kind == "disabling":
        inner = outer

        async def outer(**kw):  # noqa: F811
            from cashews.commands import Command
            with cache.disabling(Command.PING):
                return await inner(**kw)

        return outer, okw
    else:
        raise ValueError(f"unknown enclosing kind {kind!r}")
    return deco(outer), okw


def expected_result(case, call) -> str | None:
    """what the undecorated function returns for this call (None when the call is unbindable)"""
    func = build_func(case)
    psig = inspect.signature(func)
    args, kwargs = call_values(case, call)
    try:
        ba = psig.bind(*args, **kwargs)
    except TypeError:
        return None
    ba.apply_defaults()
    return "R:" + canon(dict(ba.arguments))
