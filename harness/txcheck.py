"""Shared body of the C03 and C04 checks (same model, same harness, different oracle)."""
from __future__ import annotations

import json
from pathlib import Path

from . import txhist
from .core import ROOT, Check, Driver, HarnessError, ddmin, proof_stage

DRIVER = Driver("driver_c03", "Drivers/C03.lean")
CMP_KEYS = ("tx", "direct", "b", "d")


def _assemble(case: dict, trace, stats, answers) -> dict:
    lines = [l for l, _ in trace]
    impl = [txhist.fields(o) for _, o in trace]
    model = [txhist.fields(a) for a in answers]
    if any(a.startswith("bad-op") for a in answers):
        raise HarnessError(f"driver rejected a line of {case}")
    ndc = {i: m["ndc"] == "T" for i, m in enumerate(model) if "ndc" in m}
    diff = None
    for i, (a, m) in enumerate(zip(impl, model)):
        for k in CMP_KEYS:
            if a.get(k) != m.get(k):
                diff = (i, k, a.get(k), m.get(k))
                break
        if diff:
            break
    return {
        "lines": lines, "impl": impl, "model": model, "ndc": ndc, "diff": diff, "stats": stats,
        "impl_bad": txhist.check_property(lines, impl, ndc),
        "model_bad": txhist.check_property(lines, model, ndc),
        "trace": trace, "answers": answers,
    }


def evaluate_many(cases: list[dict]) -> list[dict]:
    """run the cases on the implementation, then all of them on the model in ONE driver process"""
    runs = [txhist.execute(c) for c in cases]
    lines: list[str] = []
    for trace, _ in runs:
        lines.extend(txhist.model_lines(trace))
    answers = DRIVER.ask(lines) if lines else []
    out, pos = [], 0
    for case, (trace, stats) in zip(cases, runs):
        n = len(trace) + 1
        out.append(_assemble(case, trace, stats, answers[pos + 1:pos + n]))
        pos += n
    return out


def evaluate(case: dict):
    """run one case on the implementation and on the model; -> dict with everything the verdict needs"""
    return evaluate_many([case])[0]


def verdict(ev: dict, prop: str):
    """None | ('property', step, what) | ('correspondence', step, what)"""
    mine = [b for b in ev["impl_bad"] if b[0] == prop]
    if mine:
        return ("property", mine[0][1], mine[0][2])
    if ev["diff"] is not None:
        i, k, a, m = ev["diff"]
        return ("correspondence", i, f"`{ev['lines'][i]}`: field {k} is {a!r} on the implementation, {m!r} on the model")
    return None


def shrink(case: dict, prop: str, kind: str) -> dict:
    def fails_with(c):
        try:
            v = verdict(evaluate(c), prop)
        except HarnessError:
            return False
        return v is not None and v[0] == kind

    events = ddmin(case["events"], lambda ev: fails_with(dict(case, events=txhist.normalize(ev))))
    events = txhist.normalize(events)
    c2 = dict(case, events=events)
    if not fails_with(c2):
        return case
    init = ddmin(c2["init"], lambda ini: fails_with(dict(c2, init=ini)))
    c3 = dict(c2, init=init)
    return c3 if fails_with(c3) else c2


def report(chk: Check, case: dict, prop: str, origin: str):
    v = verdict(evaluate(case), prop)
    small = shrink(case, prop, v[0])
    ev = evaluate(small)
    v2 = verdict(ev, prop) or v
    replay = {
        "config": small["config"], "init": small["init"], "events": txhist.normalize(small["events"]),
        "trace": [{"line": l, "impl": o, "driver": a} for (l, o), a in zip(ev["trace"], ev["answers"])],
        "origin": origin,
        "replay_cmd": f"./check {prop} --replay <this file>",
    }
    if v2[0] == "property":
        chk.violation(f"step {v2[1]}: {v2[2]} (config {small['config']})", replay,
                      signature=ev["lines"][v2[1]].split()[0])
    else:
        chk.violation(
            f"correspondence broken (the property's own oracle still holds on this case): step {v2[1]} {v2[2]}",
            dict(replay, broken="correspondence Model/Tx.lean + Model/TxMatch.lean + Model/TxCtx.lean <-> cashews/backends/transaction.py + cashews/wrapper/transaction.py"),
            signature=None, no_input=True)


# ----------------------------------------------------------------------------------------------------
# D45: a transaction that buffers more writes than the default LRU size of `Memory` (the buffer must never evict)

BUFFER_SIGNATURE = "D45:transaction-buffer-evicts"


def buffer_case(mode: str, n: int, touch: bool, pre: str | None = None) -> dict:
    """one transaction in `mode` that writes `n` distinct keys (w0 .. w<n-1>; with `touch` it re-reads w1 half-way, which
    makes it "recent" in an LRU buffer), reads the oldest, a middle and the newest write back from inside, commits, and
    reads every key from outside; the same writes go directly to a second cache.  With `pre` = "commit" / "rollback" the block
    first writes one key and ends that part with an explicit `tx.commit()` / `tx.rollback()`, so that the `n` writes land in the
    buffer the transaction backend creates *after* a commit or rollback (round 7, C03-19: that buffer was an LRU of 1000
    entries while the first one was unbounded).  Real code only (the key universe of the
    Lean model's driver has three names; the model's buffer never evicts - Model/Tx.lean `overlaySize`)."""
    from . import vtime

    async def go():
        from cashews import Cache, TransactionMode

        url = "mem://?size=100000&check_interval=0"
        cache, direct = Cache(), Cache()
        cache.setup(url)
        direct.setup(url)
        await cache.init()
        await direct.init()
        probe = ["w0", "w1", f"w{n // 2}", f"w{n - 1}"]
        async with cache.transaction(TransactionMode(mode)) as tx:
            if pre:
                await cache.set("p0", 7)
                await (tx.commit() if pre == "commit" else tx.rollback())
            for i in range(n):
                await cache.set(f"w{i}", i)
                if touch and i == n // 2:
                    await cache.get("w1")
            inside = [await cache.get(k, default="-") for k in probe] + [await cache.exists("w0")]
        for i in range(n):
            await direct.set(f"w{i}", i)
        want_inside = [await direct.get(k, default="-") for k in probe] + [await direct.exists("w0")]
        missing = [f"w{i}" for i in range(n) if await cache.get(f"w{i}", default="-") != i]
        await cache.close()
        await direct.close()
        return {"inside": inside, "direct": want_inside, "missing_after_commit": missing}

    return vtime.run(go)


def buffer_stage(chk: Check, prop: str) -> tuple[int, int]:
    """-> (cases run, violations reported)"""
    runs = found = 0
    for mode in txhist.MODES:
        for n, touch, pre in ((1001, False, None), (1100, True, None), (1001, False, "commit"), (1001, True, "rollback")):
            obs = buffer_case(mode, n, touch, pre)
            after = f" after an explicit mid-block tx.{pre}()" if pre else ""
            runs += 1
            bad = None
            if prop == "C04" and obs["inside"] != obs["direct"]:
                bad = (f"a transaction ({mode}) wrote {n} distinct keys{after}; reading w0, w1, w{n // 2}, w{n - 1} and exists(w0) back from inside "
                       f"answered {obs['inside']}, on the directly updated copy {obs['direct']}: an earlier write of the same transaction disappeared")
            if prop == "C03" and obs["missing_after_commit"]:
                m = obs["missing_after_commit"]
                bad = (f"a transaction ({mode}) wrote {n} distinct keys{after} and committed; {len(m)} of them are not in the store afterwards "
                       f"({', '.join(m[:4])}{', ...' if len(m) > 4 else ''}): the commit did not apply all the writes")
            if bad:
                found += 1
                chk.violation(bad, {"stage": "transaction-buffer", "mode": mode, "n": n, "touch": touch, "pre": pre, "observed": obs,
                                    "replay_cmd": f"./check {prop} --replay <this file>"}, signature=BUFFER_SIGNATURE)
                break
        if found:
            break
    return runs, found


def corpus_cases(prop: str):
    for f in sorted((ROOT / "corpus" / prop).glob("*.json")):
        c = json.loads(f.read_text())
        yield f.name, {"config": c["config"], "init": c["init"], "events": c["events"]}


def exhaustive_cases():
    """all initial shapes of one key x all histories of <= 2 commands over that key from a small command
    alphabet (pattern commands included) x 3 modes x {commit, Exception, non-Exception BaseException, cancellation} (thorough tier)"""
    cmds = ["set 0 t:9 - a", "set 0 t:9 8 nx", "set 0 t:9 - xx", "incr 0 1 8", "delete 0", "expire 0 16",
            "get 0", "getexpire 0", "exists 0", "getmany 0 2", "adv 2",
            f"delmatch {txhist.enc('ka*')}", f"delmatch {txhist.enc('x*')}", f"scan {txhist.enc('k*')}"]
    inits = [["adv 3"], ["set 0 i:1 - a", "adv 3"], ["set 0 i:1 19 a", "adv 3"], ["set 0 i:1 2 a", "adv 3"]]
    hists = [[a] for a in cmds] + [[a, b] for a in cmds for b in cmds]
    for ini in inits:
        for h in hists:
            for mode in txhist.MODES:
                for end in txhist.ENDS:
                    yield {"config": "facade", "init": ini, "events": [f"enter {mode}", *h, f"exit {end}", "getexpire 0"]}


TRUSTED = [
    "Lean 4.33.0 kernel; axioms of every theorem audited to be within {propext, Classical.choice, Quot.sound}",
    "hand-written models lean/CashewsVerif/Model/Tx.lean + Model/TxMatch.lean (cashews/backends/transaction.py; the pattern commands over "
    "Model/Glob.lean, which C13 ties to Memory.scan / delete_match / get_match) and Model/TxCtx.lean "
    "(cashews/wrapper/transaction.py), tied to the code by this run's four-way history correspondence",
    "Model/Mem.lean for overlay and backend (C01 ties it to cashews/backends/memory.py)",
    "harness: virtual clock (harness/vtime.py), canonicalisation, the raw non-touching observer (harness/txhist.py)",
    "one task, one backend; lock contention between tasks is C05's business, failing backends C16's",
    "shared context objects are used by one task only",
]


def run_prop(chk: Check, prop: str) -> int:
    proof = proof_stage(prop, "driver_c03", chk.thorough) if not getattr(chk, "skip_proof", False) else None
    n = chk.budget(8000, 95000)
    cases = [("corpus:" + name, c) for name, c in corpus_cases(prop)]
    ncorpus = len(cases)
    nnest = 0
    for c in txhist.nesting_cases(None if chk.thorough else chk.rng):
        cases.append(("nesting", c))
        nnest += 1
    ndef = 0
    for c in txhist.default_cases(None if chk.thorough else chk.rng):
        cases.append(("caller-default", c))
        ndef += 1
    npat = 0
    for c in txhist.pattern_cases(None if chk.thorough else chk.rng, 3000):
        cases.append(("delete-match", c))
        npat += 1
    nout = ncont = 0
    for c in txhist.outside_write_cases():
        cases.append(("outside-write", c))
        nout += 1
    for c in txhist.container_cases():
        cases.append(("container-value", c))
        ncont += 1
    nmulti = 0
    for c in txhist.multi_backend_cases():
        cases.append(("multi-backend", c))
        nmulti += 1
    nfan = 0
    for c in txhist.fanout_cases():
        cases.append(("fan-out", c))
        nfan += 1
    nctl = 0
    for c in txhist.control_cases():
        cases.append(("control-state", c))
        nctl += 1
    for i in range(n):
        cases.append((f"gen:{i}", txhist.gen_case(chk.rng, i)))
    nexh = 0
    if chk.thorough:
        for c in exhaustive_cases():
            cases.append(("exhaustive", c))
            nexh += 1
    found = 0
    nbuf, fbuf = buffer_stage(chk, prop)
    found += fbuf
    evaluations = 0
    distinct = set()
    interesting: dict[str, int] = {}
    hist: dict[str, int] = {}
    samples = []
    nseg = nseg_ndc = 0
    prop_hits: list = []
    corr_hits: list = []
    BATCH = 250
    stop = False
    for start in range(0, len(cases), BATCH):
        if stop:
            break
        chunk = cases[start:start + BATCH]
        for (origin, case), ev in zip(chunk, evaluate_many([c for _, c in chunk])):
            evaluations += 1
            if ev["model_bad"]:
                raise HarnessError(f"the model itself contradicts the property on {case}: {ev['model_bad'][0]}")
            for l in ev["lines"]:
                w = l.split()
                if w[0] == "init":
                    continue
                name = w[0] + ("_" + w[4] if w[0] == "set" else "") + ("_" + w[1] if w[0] in ("enter", "exit") else "")
                hist[name] = hist.get(name, 0) + 1
            nseg += len(ev["ndc"])
            nseg_ndc += sum(ev["ndc"].values())
            for k in ev["stats"]:
                interesting[k] = interesting.get(k, 0) + 1
            if ev["stats"]:
                distinct.add(json.dumps(case, sort_keys=True))
            if len(samples) < 3 and len(ev["stats"]) >= 3 and len(case["events"]) <= 12:
                samples.append({"case": case, "impl": [o for _, o in ev["trace"]]})
            v = verdict(ev, prop)
            if v is not None:
                # SEARCH (DESIGN section 5): a broken correspondence alone is not yet a failing input of the property;
                # keep looking through the budget for a case on which the implementation contradicts the statement
                (prop_hits if v[0] == "property" else corr_hits).append((origin, case))
                if len(prop_hits) >= 3 or (len(corr_hits) >= 40 and not prop_hits):
                    stop = True
                    break
    for origin, case in (prop_hits[:3] or corr_hits[:2]):
        found += 1
        report(chk, case, prop, origin)
    if proof is not None:
        chk.proof_broken(proof, found > 0)
    chk.coverage.update({
        "transaction_buffer_cases": nbuf,
        "transaction_buffer_rule": "D45: per mode one transaction writing 1001 distinct keys and one writing 1100 (re-reading an early key half-way), and one each writing 1001 keys after an explicit mid-block tx.commit() / tx.rollback() (the buffer the backend creates afterwards), the "
                                   "oldest / a middle / the newest write read back from inside (C04) and every key read after commit (C03), against "
                                   "the same writes applied directly; real code only; a regression is reported under signature " + BUFFER_SIGNATURE,
        "outside_write_cases": nout,
        "outside_write_rule": "`out <command>`: a command of ANOTHER client (same Cache, a context without the transaction), applied to the direct copy as well, "
                              "placed where the running segment has issued nothing yet - after the outermost enter, after an explicit tx.commit() / tx.rollback() "
                              "(half of the generated ones are followed by one); enumerated: 6 first-segment writes of a key x {commitnow, rollback} x 4 outside "
                              "commands (re-create / overwrite / delete that key, write another) x 4 second segments x {normal exit, exception} x 3 modes (both tiers). "
                              "Judged by the ordinary oracles with the reference store moved to the one the other client left: the second segment's end must not "
                              "re-apply (or re-undo) anything of the first; driver: `out` = Mem.step on the backend store (no theorem: oracle + correspondence)",
        "container_value_cases": ncont,
        "container_value_rule": "values of the alphabet include a set and a list (memhist.CONTAINERS, opaque tokens t:500.. for the model); enumerated: a stored key "
                                "holding a set / empty set / list / empty list / dict, with and without ttl x 6 command scripts (expire, expire+reads, conditional set, "
                                "delete, incr, mixed) x 3 modes x {commit, exception, cancellation}: the outside observer must not see the deadline move before commit, "
                                "and not at all after a rollback",
        "multi_backend_cases": nmulti,
        "multi_backend_rule": "prefix-routed caches: configs facade2 (keys kb1, kb2 on a second backend) and facade3 (kb1 and kb2 each on a backend of its own) "
                              "are 20% / 10% of the generated cases, so one transaction holds a TransactionBackend per touched backend; plus the enumerated "
                              "sub-space 2 configs x 3 modes x 4 scripts touching several backends (one of them only by a read) x 2 stores x {commit, exception, "
                              "explicit commit mid-body and more writes} (144 cases, both tiers). The model has ONE store: the observer shows the union of the "
                              "backends' stores (no key is on two backends; the serializable lock, held once per touched backend, is shown once with the earliest "
                              "deadline), and a pattern command - routed to one backend by the text of its pattern - is only issued with patterns whose matching "
                              "keys all live on that backend. A commit has to apply the writes of every backend and leave no lock key on any",
        "fan_out_cases": nfan,
        "fan_out_rule": "commands issued from CHILD tasks that the body awaits inside the block (`fan gather|task|group c1 | c2 | ...`: asyncio.gather, "
                        "await asyncio.create_task(...), asyncio.TaskGroup): about 10% of the generated body events fan 1-3 commands out; plus the enumerated "
                        "sub-space 3 modes x 3 ways of fanning out x {commit, exception, cancellation, explicit rollback followed by more child writes} x 2 stores "
                        "(72 cases, both tiers): child writes after a parent write, parent reads of child writes, child reads and conditional writes, a child "
                        "delete_match and scan, child commands after the block. The children run one at a time, so every child command is an ordinary line of "
                        "the trace: the outside observer probes after it (a child write must stay invisible), the end of the block must commit / roll it back",
        "control_state_cases": nctl,
        "control_state_rule": "cache.disable(...) / cache.enable(...) are events of the programs (12% of the blocks are preceded by one, 2% of the "
                              "events inside a block are one; sets: a bulk command alone - delete_many, set_many -, a single command alone, both, "
                              "delete_match, reads), applied to the transactional cache and to the direct copy alike; plus the enumerated sub-space "
                              "15 control states x {set before the block, inside before the writes, inside after the writes right before the commit, "
                              "set before and lifted inside} x 2 write scripts (single-key writes / bulk + pattern writes + a conditional set) x 2 "
                              "initial stores x 3 modes (720 cases, both tiers, exhaustive over this space; every 5th left by an exception). A command "
                              "disabled when issued must change nothing and answer its default; the commit must apply every write that was accepted, "
                              "whatever is disabled by then (judged by the ordinary C03 oracle: store after commit = the direct copy, which ran the "
                              "same commands under the same control state)",
        "delete_match_cases": npat,
        "delete_match_rule": "pattern commands inside a transaction are commands of the histories like any other (delete_match 7%, scan and get_match 2.5% "
                             "each of the generated commands, half of the patterns repeating one used earlier in the same program; patterns over the names "
                             "ka / kb1 / kb2 selecting all keys, two, one or none, none of them reaching the reserved ':' lock keys); plus the enumerated "
                             "sub-space: 8 initial stores (each key absent / present) x [one earlier write or none: set, set with ttl, incr, delete of ka, "
                             "delete of kb1, expire, set only-if-absent, set only-if-present, delete_many, set_many] x delete_match(p1) x [one write in "
                             "between or none] x [delete_match(p2) or none], p1, p2 in {k*, kb*, ka, kb1, x* (nothing)} - so delete_match meets keys that are "
                             "only pending, only in the store, both, pending-deleted or absent, before and after writes of matching and non-matching keys, "
                             "repeated with the identical and with a different pattern - followed by get_many of all keys, scan, get_match, exists and a "
                             "conditional set from inside, the end of the block and a scan from outside: 29040 points; thorough tier: all of them, each in fast mode (plain backend) "
                             "and in one of the lock modes (lock backend; locked / serializable alternating) - exhaustive over this space -, every 7th also "
                             "left by an exception; quick tier: 3000 points drawn from VERIF_SEED, one of the three modes each, "
                             "15% left by an exception / a cancellation",
        "caller_default_cases": ndef,
        "caller_default_rule": "reads with a caller-supplied default (`get(k, default=d)`, `get_many(..., default=d)`, d a value of the alphabet "
                               "- None, a small int, the identical token object - instead of the harness's private sentinel): about half of the "
                               "generated reads, inside and outside blocks, preferring the value just written to the key; plus the enumerated "
                               "sub-space: key 0 initially absent / None / 0 / 1 / a token x one earlier command of the transaction on it "
                               "(none, set always|xx|nx and set_many with each of the 4 values, incr, expire, delete, delete_many: 21) x one read "
                               "(get, get_many in two key orders) x 5 defaults (private sentinel + the 4 values), repeated after commit; quick "
                               "tier: one mode per case drawn from VERIF_SEED, thorough tier: all three modes (exhaustive over this space). "
                               "Observable with default d: the stored value if there is one, else d (per key, by position)",
    })
    chk.coverage.update({
        "evaluations": evaluations,
        "distinct_nontrivial": len(distinct),
        "rule": "cases = (initial store over 3 keys x {absent, no ttl, live ttl, expired-unpurged}, one task's program of 1-3 "
                "outermost `Cache.transaction(mode)` blocks in fast/locked/serializable mode, nested up to three times, every block opened "
                "on a context object of its own (`async with cache.transaction(m):`), in decorator form (`@cache.transaction(m)`, or `@T[i]` with a shared object as the decorator) or on one "
                "of three SHARED context objects kept for the whole case (entered again nested in themselves, nested in each other, inside "
                "a decorator body, and re-used sequentially for later outermost blocks), every block (inner ones too) ended by running to its end / by "
                "a raised Exception / by a raised BaseException that is not an Exception / by the task being CANCELLED while suspended at a scripted "
                "point inside the body (task.cancel() from the loop, CancelledError raised at the await; the exception is caught right outside the "
                "block and the program goes on); explicit tx.rollback() / tx.commit() anywhere in a body with further commands after them; "
                "<= 14 commands per block, time advances inside) generated from "
                "VERIF_SEED, configs facade and facade_secret; every 8th case lets TTLs elapse inside the block (model comparison only); the object "
                "owning the transaction may be active three or four times at once; plus the enumerated nesting shapes (nesting_rule). "
                "A case is non-trivial iff at least one of the interesting states listed in interesting_states_cases was reached; "
                "distinct = distinct case JSON",
        "samples": samples,
        "corpus_cases": ncorpus,
        "nesting_cases": nnest,
        "nesting_rule": "every nesting shape of depth <= 3 over {own object, decorator form, shared object @0, shared object @1, decorator form with @0 as the decorator} (155 shapes) x "
                        "every block left normally / by a caught exception (an Exception, a BaseException that is not one, or a cancellation - quick tier: kind drawn per block; "
                        "thorough tier: each kind), a write after every block boundary, followed by a second "
                        "outermost block re-using the first block's object entered twice; quick tier: one mode per shape drawn from "
                        "VERIF_SEED, thorough tier: all three modes (exhaustive over this space)",
        "exhaustive": bool(nexh),
        "exhaustive_cases": nexh,
        "exhaustive_rule": "thorough tier: 4 initial shapes of one key x all histories of <= 2 commands from a 14-command alphabet (delete_match of the key, delete_match of nothing and scan included) x 3 modes x {commit, Exception, BaseException, cancellation}",
        "event_histogram": hist,
        "interesting_states_cases": interesting,
        "transaction_segments": nseg,
        "segments_satisfying_NoDeadlineCrossed": nseg_ndc,
        "comparisons": "per event: impl-tx = model-tx, impl-direct = model-direct, backend live view (values + deadlines + lock keys) "
                       "impl = model, direct view impl = model; on segments satisfying NoDeadlineCrossed additionally the property "
                       "additionally the property itself on the implementation's answers (and on the model's); "
                       "segments are syntactic (outermost enter .. matching exit), so a transaction ended early by an inner exit is a "
                       "violation of C03 (writes visible before the block ends / not rolled back); an outermost exit other than `ok` - Exception, "
                       "BaseException, cancellation - is judged as a rollback (store = store before the segment, no lock key left), and the "
                       "exception that comes out of the block must be the one that went in (a swallowed or replaced one is reported)",
        "trusted_base": TRUSTED,
        "partial": "one task and one Memory backend (so control state per PREFIX - several backends in one transaction - is not exercised; disable of set_lock / unlock, which the lock modes call on the backend object directly, is not either); a context object shared between tasks is not exercised; non-dyadic TTLs, more than 3 keys, blocks longer than 14 commands, transactions of more than "
                   "three keys other than the D45 stage (1001 / 1100 distinct keys, real code only), patterns that reach the reserved ':'-prefixed lock keys (excluded by the properties' proviso), pattern "
                   "metacharacters other than '*' (C13's subject) are not exercised",
    })
    chk.assumptions.extend(TRUSTED)
    return chk.finish(proof)


def replay_prop(chk: Check, prop: str, path: str) -> int:
    c = json.loads(Path(path).read_text())
    if c.get("stage") == "transaction-buffer":
        obs = buffer_case(c["mode"], c["n"], c["touch"], c.get("pre"))
        print(json.dumps(obs)[:600])
        bad = obs["missing_after_commit"] if prop == "C03" else obs["inside"] != obs["direct"]
        if not bad:
            print("replay: no disagreement")
            return 0
        print(f"VIOLATION property={prop} replay={path}")
        return 1
    case = {"config": c["config"], "init": c["init"], "events": c["events"]}
    ev = evaluate(case)
    for (l, o), a in zip(ev["trace"], ev["answers"]):
        print(f"{l:28s} impl:  {o}\n{'':28s} model: {a}")
    v = verdict(ev, prop)
    if v is None:
        print("replay: no disagreement")
        return 0
    print(f"{v[0]}: step {v[1]}: {v[2]}")
    print(f"VIOLATION property={prop} replay={path}")
    return 1
