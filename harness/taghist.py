"""Tagged command histories on the real `Cache` facade (C12): layouts (keys, tag templates, decorated
functions), executor under the virtual clock, property oracle from the harness's own log, generator.

A case is `{"config": <CONFIGS name>, "layout": <layout name>, "ops": [<op line>, ...]}`.  Keys and tags are
model numbers (indices into the layout's key / tag lists).  Op lines (see lean/Drivers/C12.lean):

  set K V TTL COND TAGS | incr K BY TTL TAGS | call K F TTL [MUT] | get K | exists K | delete K | delmany K..
  delmatch P | deltags T.. | adv N

`call K F TTL [MUT]` calls the decorated function F of the layout with (fresh copies of) the arguments that produce
key K; the body applies the scripted in-place mutation MUT (see MUTATIONS; `-` / absent = none) to its mutable
argument before it returns.  Model line: `call K t:<fresh> TTL <tags the decorator attaches>` where the tags are
the tag templates rendered by the harness from the arguments AS THEY WERE WHEN THE CALL WAS MADE (the key and the
tags of a decorated call are those of the call, whatever the body does to its arguments).
`delmatch P` uses pattern P of the layout - glob patterns with `*`, wildcard-free patterns naming one key exactly,
and patterns matching nothing (model line: `delmatch <keys of the universe that match>`).
TTLs / advances are ticks of 1/8 s.
"""
from __future__ import annotations

import asyncio
import copy
import re
import string

from . import vtime
from .core import HarnessError
from .vtime import CLOCK

SENT = object()
SIZE = 100000
BATCH = 100  # the literal in CommandsTagsWrapper._delete_tag, re-read from the source by `batch_literal()`


# ------------------------------------------------------------------------------------------------
# layouts


class Layout:
    """keys: list of (key string, template index, field dict); tags: list of concrete tag strings;
    registrations: list of (tag template, key template) done with cache.register_tag;
    funcs: decorated functions: (key template index, [tag templates], argument names);
    patterns: patterns for delete_match (all start with a data prefix, never match '_tag:*'): the glob patterns given,
    then (appended, so that old indices stay valid) wildcard-free patterns = exact key names, then patterns matching
    nothing (one with, one without a wildcard).
    Field values are strings, or lists / dicts of strings (mutable arguments of decorated functions); `render` is the
    harness's own reading of how the documentation says they appear in keys and tags (list: items joined by ':',
    dict: 'key:value' pairs sorted by key joined by ':')."""

    def __init__(self, name, templates, fields, tags_templates, regs, funcs, patterns, extra_tags=(), exact=None):
        self.name = name
        self.templates = templates
        self.keys = []  # (string, template idx, fields)
        for ti, tpl in enumerate(templates):
            names = [f for _, f, _, _ in string.Formatter().parse(tpl) if f]
            for combo in _product([fields[n] for n in names]):
                fd = dict(zip(names, combo))
                self.keys.append((fmt(tpl, fd), ti, fd))
        if len({k for k, _, _ in self.keys}) != len(self.keys):
            raise HarnessError(f"layout {name}: two argument combinations render to the same key")
        self.regs = regs
        self.funcs = funcs
        self.nglob = len(patterns)
        exact_keys = list(range(len(self.keys))) if exact is None else list(exact)
        self.patterns = list(patterns) + [self.keys[i][0] for i in exact_keys] + ["zz:*", "zz:none"]
        self.exact_of = {ki: self.nglob + j for j, ki in enumerate(exact_keys)}
        self.nomatch = [len(self.patterns) - 2, len(self.patterns) - 1]
        if any(self.match(pi) for pi in self.nomatch) or any(self.match(self.exact_of[ki]) != [ki] for ki in exact_keys):
            raise HarnessError(f"layout {name}: exact / no-match patterns do not match what they are meant to")
        # every concrete tag any registration / decorator can produce for a universe key, plus unregistered extras
        tagset = []
        for _, ti, fd in self.keys:
            for tt in tags_templates:
                try:
                    t = fmt(tt, fd)
                except KeyError:
                    continue
                if t not in tagset:
                    tagset.append(t)
        for t in extra_tags:
            if t not in tagset:
                tagset.append(t)
        self.tags = tagset
        self.extra_tags = list(extra_tags)

    # -- the harness's own reading of the registry: which tags does key K get?  (independent of cashews:
    #    plain substitution of the key's own field values into the tag template)
    def expected_key_tags(self, ki: int) -> list[int]:
        _, ti, fd = self.keys[ki]
        out = []
        for tag_tpl, key_tpl in self.all_registrations():
            if key_tpl != self.templates[ti] and key_tpl != self.keys[ki][0]:
                continue
            try:
                t = fmt(tag_tpl, fd)
            except KeyError:
                t = _format_missing(tag_tpl, fd)
            j = self.tags.index(t)
            if j not in out:
                out.append(j)
        return sorted(out)

    def all_registrations(self):
        regs = list(self.regs)
        for kti, tag_tpls, _ in self.funcs:
            for tt in tag_tpls:
                regs.append((tt, self.templates[kti]))
        return regs

    def func_tags(self, fi: int, ki: int) -> list[int]:
        _, tag_tpls, _ = self.funcs[fi]
        fd = self.keys[ki][2]
        return [self.tags.index(fmt(tt, fd)) for tt in tag_tpls]

    def wild_patterns_for(self, ki: int) -> list[int]:
        return [pi for pi in range(self.nglob) if ki in self.match(pi)]

    def funcs_for_key(self, ki: int) -> list[int]:
        return [fi for fi, (kti, _, _) in enumerate(self.funcs) if kti == self.keys[ki][1]]

    def match(self, pi: int) -> list[int]:
        rx = re.compile(".*".join(re.escape(p) for p in self.patterns[pi].split("*")), re.DOTALL)
        return [i for i, (k, _, _) in enumerate(self.keys) if rx.fullmatch(k)]

    def reg_field(self) -> str:
        ents = []
        for i in range(len(self.keys)):
            ts = self.expected_key_tags(i)
            if ts:
                ents.append(f"{i}:" + "+".join(map(str, ts)))
        return ";".join(ents) or "-"


def _product(lists):
    out = [()]
    for l in lists:
        out = [o + (x,) for o in out for x in l]
    return out


def render(v) -> str:
    """how an argument value appears in a key / tag (README "Template Keys": strings as they are, lists and tuples
    as their items joined by ':', dicts as 'key:value' pairs sorted by key joined by ':')"""
    if isinstance(v, str):
        return v
    if isinstance(v, (list, tuple)):
        return ":".join(render(x) for x in v)
    if isinstance(v, dict):
        return ":".join(k + ":" + render(x) for k, x in sorted(v.items()))
    raise HarnessError(f"no rendering for {type(v).__name__}")


def fmt(tpl: str, fd: dict) -> str:
    return tpl.format(**{k: render(v) for k, v in fd.items()})


def _format_missing(tpl, fd):
    class D(dict):
        def __missing__(self, k):
            return ""
    return string.Formatter().vformat(tpl, (), D({k: render(v) for k, v in fd.items()}))


# scripted in-place mutations a decorated function's body applies to its mutable argument
MUTATIONS = {
    "list": {
        "app": lambda l: l.append("z"),          # extends the list (['a','b'] -> ['a','b','z'])
        "sort": lambda l: l.sort(),              # normalises the order (['b','a'] -> ['a','b'])
        "rev": lambda l: l.reverse(),
        "pop": lambda l: l.pop() if l else None,
        "ins": lambda l: l.insert(0, "a") if "a" not in l[:1] else None,
    },
    "dict": {
        "sd": lambda d: d.setdefault("x", "1"),  # fills in a default ({'y':'2'} -> {'x':'1','y':'2'})
        "dely": lambda d: d.pop("y", None),
        "clr": lambda d: d.clear(),
        "upd": lambda d: d.update(y="2"),
    },
}


def mutations_for(value) -> list[str]:
    if isinstance(value, list):
        return list(MUTATIONS["list"])
    if isinstance(value, dict):
        return list(MUTATIONS["dict"])
    return []


def apply_mutation(name: str, obj):
    if name in ("-", None):
        return
    kind = "list" if isinstance(obj, list) else "dict" if isinstance(obj, dict) else None
    if kind is None or name not in MUTATIONS[kind]:
        raise HarnessError(f"mutation {name!r} does not apply to {type(obj).__name__}")
    MUTATIONS[kind][name](obj)


def make_layout(name: str) -> Layout:
    if name == "plain":
        # plain tags registered on a whole key family and on single keys
        return Layout(name, ["k:{i}"], {"i": ["0", "1", "2", "3"]}, ["ta", "tb", "tc"],
                      regs=[("ta", "k:{i}"), ("tb", "k:{i}"), ("tc", "k:0"), ("tc", "k:1"), ("tc", "k:2")], funcs=[],
                      patterns=["k:*", "k:1*", "k:*3"])
    if name == "templ":
        # templated tags: the tag's fields come out of the key through the registry's regular expression
        return Layout(name, ["u:{user}:p:{page}", "s:{user}"], {"user": ["1", "2"], "page": ["a", "b"]},
                      ["user:{user}", "page:{page}", "all"],
                      regs=[("user:{user}", "u:{user}:p:{page}"), ("page:{page}", "u:{user}:p:{page}"),
                            ("all", "u:{user}:p:{page}"), ("user:{user}", "s:{user}"), ("all", "s:{user}")],
                      funcs=[], patterns=["u:1:*", "u:*:p:a", "s:*", "u:*"])
    if name == "decor":
        # tags attached by @cache(..., tags=...) (the decorator registers them itself), mixed with direct writes
        return Layout(name, ["u:{user}:p:{page}", "c:{user}"], {"user": ["1", "2"], "page": ["a", "b"]},
                      ["user:{user}", "page:{page}", "all"],
                      regs=[("page:{page}", "u:{user}:p:{page}")],
                      funcs=[(0, ["user:{user}", "all"], ["user", "page"]), (0, ["user:{user}"], ["user", "page"]),
                             (1, ["user:{user}", "all"], ["user"])],
                      patterns=["u:2:*", "u:*:p:b", "c:*"])
    if name == "unreg":
        # malformed stream: tag `tx` is used but never registered (D21) - reported as a note, not judged
        return Layout(name, ["k:{i}"], {"i": ["0", "1", "2"]}, ["ta"],
                      regs=[("ta", "k:{i}")], funcs=[], patterns=["k:*"], extra_tags=["tx"])
    if name == "mut":
        # decorated functions with MUTABLE arguments (list / dict) in the key and tag templates, whose bodies may
        # change them in place: key and tags are those of the arguments at call time.  The mutable field is the only
        # field of its key template (a rendered list contains ':'; a second field would make the registry ambiguous).
        return Layout(name, ["r:{cols}", "q:{opts}"],
                      {"cols": [["a", "b"], ["b", "a"], ["a", "b", "z"], ["a"]],
                       "opts": [{"y": "2"}, {"x": "1", "y": "2"}, {"x": "1"}]},
                      ["cols:{cols}", "opts:{opts}", "all"],
                      regs=[],
                      funcs=[(0, ["cols:{cols}", "all"], ["cols"]), (0, ["cols:{cols}"], ["cols"]),
                             (1, ["all", "opts:{opts}"], ["opts"])],
                      patterns=["r:a*", "q:*", "r:*z", "r:*"])
    if name.startswith("big:"):
        n = int(name.split(":")[1])
        return Layout(name, ["b:{i}", "o:{i}"], {"i": [str(i) for i in range(n)]}, ["big", "odd"],
                      regs=[("big", "b:{i}"), ("odd", "b:{i}"), ("odd", "o:{i}")], funcs=[], patterns=["b:1*", "o:*"],
                      exact=[0, 1, n - 1, n])
    raise HarnessError(f"unknown layout {name}")


CONFIGS = {
    # tags backend: shared = the default backend holds the '_tag:' sets too; separate = setup_tags_backend
    "shared": dict(url="mem://?size={size}&check_interval=0", tags_url=None, purge=0),
    "separate": dict(url="mem://?size={size}&check_interval=0", tags_url="mem://?size={size}&check_interval=0", purge=0),
    "shared_secret": dict(url="mem://?size={size}&check_interval=0&secret=s3cr3t&digestmod=md5", tags_url=None, purge=0),
    "shared_purge": dict(url="mem://?size={size}&check_interval=1", tags_url=None, purge=8),
    "separate_purge": dict(url="mem://?size={size}&check_interval=1", tags_url="mem://?size={size}&check_interval=1", purge=8),
}


def val_of(tok: str):
    kind, x = tok.split(":")
    return int(x) if kind == "i" else f"t{x}"


def show_val(v) -> str:
    if v is SENT or v is None:
        return "-"
    if isinstance(v, bool):
        return f"?bool:{v}"
    if isinstance(v, int):
        return f"i:{v}"
    if isinstance(v, str) and v.startswith("t") and v[1:].isdigit():
        return f"t:{v[1:]}"
    return f"?{type(v).__name__}:{v!r}"


def ttl_of(tok: str):
    return None if tok == "-" else int(tok) / 8


def tags_of(tok: str) -> list[int]:
    return [] if tok == "-" else [int(x) for x in tok.split("+")]


def show_tags(ts) -> str:
    return "+".join(map(str, ts)) or "-"


class Runner:
    """Runs one case on the real code; produces the effective model lines with the implementation's
    canonical outputs, the oracle verdicts and the interesting-state counters."""

    def __init__(self, cfg: str, layout: Layout):
        self.cfgname = cfg
        self.cfg = CONFIGS[cfg]
        self.lay = layout
        self.stats: dict[str, int] = {}
        self.sweeps: list[float] = []
        self.oracle_failures: list[dict] = []   # the implementation contradicts the property statement
        self.notes: list[str] = []
        self.eff: list[tuple[str, str]] = []
        self.oracle_sets: list[tuple[int, list[int], list[int]]] = []  # (index in eff, die, stay) per deltags
        # the harness's own log
        n = len(layout.keys)
        self.last = [[] for _ in range(n)]      # tags of the latest successful write
        self.since = [[] for _ in range(n)]     # tags carried since the last explicit deletion
        self.ever = [set() for _ in range(n)]
        self.must_be_dead: dict[int, int] = {}  # key -> index of the deltags line that must have removed it
        self.removed_by = [None] * n            # how the key was last explicitly deleted (statistics only)
        self.fresh = 100
        self.body_ran = False
        self.next_mut = "-"
        self.registered = True                  # every tag used so far was registered for its key
        self.next_ttl = None

    def _bump(self, k: str, n: int = 1):
        self.stats[k] = self.stats.get(k, 0) + n

    # ---- raw, non-touching views of the stores (oracle + statistics only; never compared with the model)
    def _raw(self, ki: int):
        try:
            return self.backend.store.get(self.lay.keys[ki][0])
        except AttributeError as exc:  # pragma: no cover
            raise HarnessError(f"cannot peek into Memory.store: {exc}")

    def _readable(self, ki: int):
        ent = self._raw(ki)
        if ent is None or (ent[0] is not None and ent[0] <= CLOCK.t):
            return None
        return ent

    def _raw_set(self, ti: int):
        ent = self.tags_backend.store.get("_tag:" + self.lay.tags[ti])
        return ent

    def _live_set(self, ti: int):
        ent = self._raw_set(ti)
        if ent is None or (ent[0] is not None and ent[0] <= CLOCK.t):
            return None
        return ent

    # ---- setup
    async def _setup(self):
        from cashews import Cache

        lay = self.lay
        cache = Cache()
        self.backend = cache.setup(self.cfg["url"].format(size=SIZE))
        self.tags_backend = self.backend
        if self.cfg["tags_url"]:
            self.tags_backend = cache.setup_tags_backend(self.cfg["tags_url"].format(size=SIZE))
        for tag_tpl, key_tpl in lay.regs:
            cache.register_tag(tag_tpl, key_tpl)
        self.funcs = []
        runner = self

        def ttl_fn(*args, **kwargs):
            return runner.next_ttl

        for kti, tag_tpls, argnames in lay.funcs:
            self.funcs.append(self._make_func(cache, lay.templates[kti], tag_tpls, argnames, ttl_fn))
        await cache.init()
        self.cache = cache
        if self.cfg["purge"]:
            purge_task = getattr(self.backend, "_Memory__remove_expired_task")
            orig_get = self.backend.get

            async def get(key, default=None):
                if asyncio.current_task() is purge_task:
                    if not runner.sweeps or runner.sweeps[-1] != CLOCK.t:
                        runner.sweeps.append(CLOCK.t)
                return await orig_get(key, default=default)

            self.backend.get = get
            await asyncio.sleep(0)
        # the registry as the code computes it vs. the harness's own reading of the templates
        for i, (k, _, _) in enumerate(lay.keys):
            got = sorted(lay.tags.index(t) if t in lay.tags else -1 for t in cache.get_key_tags(k))
            if got != lay.expected_key_tags(i):
                self.eff.append((f"?keytags {i}", f"get_key_tags({k!r}) -> {cache.get_key_tags(k)!r}, expected tags "
                                                  f"{[lay.tags[j] for j in lay.expected_key_tags(i)]}"))

    def _make_func(self, cache, key_tpl, tag_tpls, argnames, ttl_fn):
        runner = self
        if argnames == ["user", "page"]:
            async def fn(user, page):
                runner.body_ran = True
                return runner.body_val
        elif argnames == ["user"]:
            async def fn(user):
                runner.body_ran = True
                return runner.body_val
        elif argnames == ["cols"]:
            async def fn(cols):
                runner.body_ran = True
                apply_mutation(runner.next_mut, cols)   # the body changes its (mutable) argument in place
                return runner.body_val
        elif argnames == ["opts"]:
            async def fn(opts):
                runner.body_ran = True
                apply_mutation(runner.next_mut, opts)
                return runner.body_val
        else:  # pragma: no cover
            raise HarnessError("unsupported signature")
        return cache(ttl=ttl_fn, key=key_tpl, tags=tuple(tag_tpls))(fn)

    # ---- bookkeeping of the harness's own log
    def _note_write(self, ki: int, tags: list[int]):
        self.last[ki] = list(tags)
        self.since[ki] = list(tags) + self.since[ki]
        self.ever[ki].update(tags)
        self.must_be_dead.pop(ki, None)
        exp = self.lay.expected_key_tags(ki)
        if any(t not in exp for t in tags):
            self.registered = False

    def _note_delete(self, ki: int, how: str = "delete"):
        self.since[ki] = []
        self.removed_by[ki] = how

    def _pre_write(self, ki: int, tags: list[int]):
        """snapshot (before a tagged write) of what the statistics need"""
        ent = self._raw(ki)
        if ent is not None and ent[0] is not None and ent[0] <= CLOCK.t:
            self._bump("write_over_expired_unpurged_key")
            if any(self._in_set(t, ki) for t in range(len(self.lay.tags))):
                self._bump("write_over_expired_unpurged_member")
        snap = []
        for t in tags:
            raw = self._raw_set(t)
            live = self._live_set(t)
            snap.append((raw is not None, None if live is None else (live[0],)))
        return snap

    def _post_write(self, snap, eff_ttl):
        """interesting states of set_add, given the TTL that the key really got (`eff_ttl`, None = none)"""
        for present, live in snap:
            if present and live is None:
                self._bump("add_to_expired_unpurged_set")
            if live is None:
                continue
            dl = live[0]
            if dl is not None and eff_ttl and CLOCK.t + eff_ttl < dl:
                self._bump("shorter_member_after_longer")       # the D20 shape
            if dl is not None and not eff_ttl:
                self._bump("ttl_less_member_after_finite")
            if dl is None and eff_ttl:
                self._bump("finite_member_into_persistent_set")
            if dl is not None and eff_ttl and CLOCK.t + eff_ttl > dl:
                self._bump("longer_member_extends_set")

    def _in_set(self, ti: int, ki: int) -> bool:
        raw = self._raw_set(ti)
        return raw is not None and self.lay.keys[ki][0] in raw[1]

    def _touch_stats(self, ki: int):
        ent = self._raw(ki)
        if ent is not None and ent[0] is not None and ent[0] <= CLOCK.t:
            if any(self._in_set(t, ki) for t in range(len(self.lay.tags))):
                self._bump("lazy_expiry_prunes_member")

    # ---- one command
    async def _exec(self, w: list[str]) -> tuple[str, str]:
        """returns (model line, canonical implementation output)"""
        lay, c = self.lay, self.cache
        op = w[0]
        line = " ".join(w)
        if op in ("get", "exists"):
            ki = int(w[1])
            self._touch_stats(ki)
            if op == "get":
                r = await c.get(lay.keys[ki][0], default=SENT)
                out = "v=" + show_val(r)
                dead = r is SENT
            else:
                r = await c.exists(lay.keys[ki][0])
                out = "T" if r is True else "F" if r is False else f"?{r!r}"
                dead = r is False
            if ki in self.must_be_dead and not dead:
                self._oracle_fail("complete", self.must_be_dead[ki], ki, f"`{line}` answered {out} after delete_tags")
            return line, out
        if op == "set":
            ki, v, ttl, cond, tags = int(w[1]), val_of(w[2]), ttl_of(w[3]), {"a": None, "nx": False, "xx": True}[w[4]], tags_of(w[5])
            if cond is not None:
                self._touch_stats(ki)
            snap = self._pre_write(ki, tags)
            r = await c.set(lay.keys[ki][0], v, expire=ttl, exist=cond, tags=[lay.tags[t] for t in tags])
            if r is True:
                self._note_write(ki, tags)
                self._post_write(snap, ttl)
            return line, ("T" if r is True else "F" if r is False else f"?{r!r}")
        if op == "incr":
            ki, by, ttl, tags = int(w[1]), int(w[2]), ttl_of(w[3]), tags_of(w[4])
            self._touch_stats(ki)
            snap = self._pre_write(ki, tags)
            try:
                r = await c.incr(lay.keys[ki][0], by, expire=ttl, tags=[lay.tags[t] for t in tags])
            except (ValueError, TypeError):
                return line, "E"
            if type(r) is not int:
                return line, f"?{r!r}"
            self._note_write(ki, tags)
            self._post_write(snap, ttl if r == 1 else None)
            if tags and r != 1:
                self._bump("tagged_incr_not_creating")          # the 8a2895c shape
                if r == 0:
                    self._bump("tagged_incr_result_zero")
            return line, f"n={r}"
        if op == "call":
            ki, fi, ttl = int(w[1]), int(w[2]), ttl_of(w[3])
            mut = w[4] if len(w) > 4 else "-"
            self._touch_stats(ki)
            # the tags of the entry are those of the call's arguments AT CALL TIME (rendered here, before the call)
            tags = lay.func_tags(fi, ki)
            self.fresh += 1
            self.body_val = f"t{self.fresh}"
            self.body_ran = False
            self.next_ttl = ttl
            self.next_mut = mut
            snap = self._pre_write(ki, tags)
            fd = lay.keys[ki][2]
            argnames = lay.funcs[fi][2]
            args = [copy.deepcopy(fd[a]) for a in argnames]     # fresh objects: the universe is never mutated
            try:
                r = await self.funcs[fi](*args)
            finally:
                self.next_mut = "-"
            mline = f"call {ki} t:{self.fresh} {w[3]} {show_tags(tags)}"
            if self.body_ran:
                self._note_write(ki, tags)
                self._post_write(snap, ttl)
                self._bump("decorator_miss_tagged_write")
                fd_after = dict(zip(argnames, args))
                if any(isinstance(a, (list, dict)) for a in args):
                    self._bump("decorator_miss_with_mutable_argument")
                if fd_after != {a: fd[a] for a in argnames}:
                    tags_after = [fmt(tt, fd_after) for tt in lay.funcs[fi][1]]
                    if tags_after != [lay.tags[t] for t in tags]:
                        self._bump("decorator_body_mutated_argument_of_tag_template")
                        if any(t in lay.tags for t in tags_after if t not in [lay.tags[x] for x in tags]):
                            self._bump("decorator_body_mutated_argument_into_another_live_tag")
                    if fmt(lay.templates[lay.funcs[fi][0]], fd_after) != lay.keys[ki][0]:
                        self._bump("decorator_body_mutated_argument_of_key_template")
            else:
                self._bump("decorator_hit")
                if ki in self.must_be_dead:
                    self._oracle_fail("complete", self.must_be_dead[ki], ki, f"`{line}` was served from the cache ({show_val(r)}) after delete_tags")
            return mline, ("vs=" if self.body_ran else "v=") + show_val(r)
        if op == "delete":
            ki = int(w[1])
            self._touch_stats(ki)
            r = await c.delete(lay.keys[ki][0])
            self._note_delete(ki)
            return line, ("T" if r is True else "F" if r is False else f"?{r!r}")
        if op == "delmany":
            ks = [int(x) for x in w[1:]]
            for ki in ks:
                self._touch_stats(ki)
            r = await c.delete_many(*[lay.keys[ki][0] for ki in ks])
            for ki in ks:
                self._note_delete(ki, "delete_many")
            return line, ("U" if r is None else f"?{r!r}")
        if op == "delmatch":
            pi = int(w[1])
            ks = lay.match(pi)
            live = [ki for ki in ks if self._readable(ki) is not None]
            for ki in ks:
                if ki not in live and self._raw(ki) is not None and any(self._in_set(t, ki) for t in range(len(lay.tags))):
                    self._bump("delete_match_skips_expired_unpurged_member")
            exact = "*" not in lay.patterns[pi]
            members = [ki for ki in live if any(self._in_set(t, ki) for t in range(len(lay.tags)))]
            if not ks:
                self._bump("delete_match_pattern_matches_nothing")
            if exact and members:
                self._bump("delete_match_wildcard_free_removes_member")
            if exact and ks and not live:
                self._bump("delete_match_wildcard_free_on_absent_or_expired_key")
            if not exact and len(members) == 1:
                self._bump("delete_match_glob_removes_one_member")
            if not exact and len(members) > 1:
                self._bump("delete_match_glob_removes_several_members")
            r = await c.delete_match(lay.patterns[pi])
            for ki in live:
                self._note_delete(ki, "delete_match_exact" if exact else "delete_match_glob")
            return "delmatch " + " ".join(map(str, ks)), ("U" if r is None else f"?{r!r}")
        if op == "deltags":
            return await self._deltags(w, line)
        raise HarnessError(f"bad op {w}")

    def _oracle_fail(self, clause: str, at: int, ki: int, what: str):
        self.oracle_failures.append({"clause": clause, "deltags_line": at, "key": ki, "key_name": self.lay.keys[ki][0], "what": what})

    async def _deltags(self, w, line):
        lay = self.lay
        tl = [int(x) for x in w[1:]]
        n = len(lay.keys)
        at = len(self.eff)
        die = [k for k in range(n) if any(t in self.last[k] for t in tl)]
        stay = [k for k in range(n) if all(t not in self.since[k] for t in tl)]
        before = [self._raw(k) for k in range(n)]
        readable_before = [self._readable(k) is not None for k in range(n)]
        # interesting states, measured on the state the command starts from
        for t in tl:
            s = self._live_set(t)
            if s is not None and len(s[1]) > BATCH:
                self._bump("deltags_more_than_100_members")
            if s is not None and len(s[1]) == BATCH:
                self._bump("deltags_exactly_100_members")
            carriers = [k for k in range(n) if t in self.last[k] and readable_before[k]]
            if carriers and s is None:
                self._bump("SET_GONE_WHILE_MEMBER_ALIVE")
            if carriers and s is not None:
                dead_members = [k for k in range(n) if lay.keys[k][0] in s[1] and not readable_before[k]]
                if dead_members:
                    self._bump("deltags_live_and_expired_members_mixed")
                if s[0] is None and any(before[k][0] is not None for k in carriers):
                    self._bump("deltags_persistent_set_finite_member")
            if carriers and len({tuple(self.last[k]) for k in carriers}) > 1:
                self._bump("deltags_members_with_different_tag_lists")
        if any(readable_before[k] and k in die for k in range(n)):
            self._bump("deltags_removes_live_key")
        recreated = [k for k in stay if readable_before[k] and any(t in self.ever[k] for t in tl)]
        if recreated:
            self._bump("deltags_spares_key_recreated_without_tag")
        for how in {self.removed_by[k] for k in recreated if self.removed_by[k]}:
            self._bump("deltags_spares_key_recreated_after_" + how)
        if any(readable_before[k] and k in stay and self.last[k] for k in range(n)):
            self._bump("deltags_spares_key_with_other_tags")
        r = await self.cache.delete_tags(*[lay.tags[t] for t in tl])
        out = "U" if r is None else f"?{r!r}"
        self.oracle_sets.append((at, die, stay))
        if not self.registered:
            self._bump("unregistered_tag_used(not judged)")
        for k in die:
            if self._readable(k) is not None:
                self._oracle_fail("complete", at, k, f"`{line}`: key {lay.keys[k][0]!r} whose latest write carried one of the tags is still readable")
            else:
                self.must_be_dead[k] = at
        for k in stay:
            if self._raw(k) != before[k] and self.registered:
                self._oracle_fail("precise", at, k, f"`{line}`: key {lay.keys[k][0]!r} never carried the tags (or was deleted and re-created without them) but was touched: {before[k]!r} -> {self._raw(k)!r}")
            elif self._raw(k) != before[k]:
                self.notes.append(f"D21 (unregistered tag): `{line}` removed {lay.keys[k][0]!r}")
        for k in range(n):
            if before[k] is not None and self._raw(k) is None:
                self._note_delete(k, "delete_tags")     # removed by delete_tags = explicitly deleted
        return line, out

    # ---- whole history
    async def run(self, ops: list[str]):
        await self._setup()
        for line in ops:
            w = line.split()
            if w[0] == "adv":
                dt = int(w[1])
                if not self.cfg["purge"]:
                    CLOCK.advance(dt)
                    self.eff.append((line, "U"))
                    continue
                start = CLOCK.t
                self.sweeps.clear()
                await vtime.vsleep(dt)
                for _ in range(6):      # a sweep falling due exactly now runs here, not inside a later command
                    await asyncio.sleep(0)
                cur = start
                for s in self.sweeps:
                    self.eff.append((f"adv {round((s - cur) * 8)}", "U"))
                    self.eff.append(("purge", "U"))
                    cur = s
                self.eff.append((f"adv {round((CLOCK.t - cur) * 8)}", "U"))
                if self.sweeps:
                    self._bump("purge_sweeps_spliced")
                self.sweeps.clear()
                if round((CLOCK.t - start) * 8) != dt:
                    self.eff.append(("?clock", f"slept {dt} ticks but clock moved {(CLOCK.t - start) * 8}"))
                continue
            try:
                mline, out = await self._exec(w)
            except HarnessError:
                raise
            except Exception as exc:  # an exception the model does not know is itself a disagreement
                mline, out = line, f"X:{type(exc).__name__}:{exc}"[:120]
            self.eff.append((mline, out))
        # which backend physically holds the tag sets (glue: prefix routing of '_tag:')
        data_has_sets = any(isinstance(k, str) and k.startswith("_tag:") for k in self.backend.store)
        if self.cfg["tags_url"] and data_has_sets:
            self.eff.append(("?routing", "tag sets found in the data backend although a tags backend is set up"))
        await self.cache.close()
        return self.eff


def execute(cfg: str, layout: Layout, ops: list[str]) -> Runner:
    r = Runner(cfg, layout)
    vtime.run(r.run, ops)
    return r


def batch_literal() -> int:
    """the `count=` literal of `_delete_tag`, read from the source the check runs against"""
    import ast
    import inspect

    from cashews.wrapper import tags as tagsmod

    tree = ast.parse(inspect.getsource(tagsmod))
    for node in ast.walk(tree):
        if isinstance(node, ast.Call) and getattr(node.func, "attr", "") == "set_pop":
            for kw in node.keywords:
                if kw.arg == "count" and isinstance(kw.value, ast.Constant):
                    return int(kw.value.value)
    return BATCH


# ------------------------------------------------------------------------------------------------
# generator

TTLS = ["-", "-", "0", "8", "8", "16", "24", "800", "800"]
ADVS = [0, 1, 4, 8, 8, 9, 16, 16, 17, 24, 40, 800]
VALS = ["i:0", "i:1", "i:2", "i:5", "t:1", "t:2", "t:3"]


def gen_tags(rng, lay: Layout, ki: int, registered_only: bool) -> str:
    exp = lay.expected_key_tags(ki)
    pool = exp if registered_only else list(range(len(lay.tags)))
    if not pool or rng.random() < 0.25:
        return "-"
    n = rng.choice([1, 1, 1, 2, 2, 3])
    return show_tags([rng.choice(pool) for _ in range(n)] if rng.random() < 0.1 else rng.sample(pool, min(n, len(pool))))


def gen_call(rng, lay: Layout, ki: int, fi: int, ttl: str) -> str:
    """a decorated call; when the function has a mutable argument its body mutates it in place in about half of the calls"""
    menu = []
    for a in lay.funcs[fi][2]:
        menu += mutations_for(lay.keys[ki][2][a])
    if menu and rng.random() < 0.55:
        return f"call {ki} {fi} {ttl} {rng.choice(menu)}"
    return f"call {ki} {fi} {ttl}"


def gen_pattern(rng, lay: Layout) -> int:
    """glob patterns (matching one / several / no universe keys), wildcard-free patterns (one exact key), no match"""
    x = rng.random()
    if x < 0.5 or not lay.exact_of:
        return rng.randrange(lay.nglob)
    if x < 0.88:
        return rng.choice(sorted(lay.exact_of.values()))
    return rng.choice(lay.nomatch)


def _noise(rng, lay: Layout, avoid_write: int, avoid_tags: list[int]) -> list[str]:
    """0..2 commands that neither write key `avoid_write` nor delete the tags `avoid_tags`"""
    nk = len(lay.keys)
    out = []
    for _ in range(rng.choice([0, 0, 1, 1, 2])):
        c = rng.choice(["get", "exists", "adv", "adv0", "set_other", "delmatch_none", "deltags_other", "get"])
        other = [k for k in range(nk) if k != avoid_write]
        if c == "get":
            out.append(f"get {rng.randrange(nk)}")
        elif c == "exists":
            out.append(f"exists {rng.randrange(nk)}")
        elif c == "adv":
            out.append(f"adv {rng.choice([1, 4, 8, 9])}")
        elif c == "adv0":
            out.append("adv 0")
        elif c == "set_other" and other:
            ko = rng.choice(other)
            out.append(f"set {ko} {rng.choice(VALS)} {rng.choice(TTLS)} a {gen_tags(rng, lay, ko, True)}")
        elif c == "delmatch_none":
            out.append(f"delmatch {rng.choice(lay.nomatch)}")
        elif c == "deltags_other":
            ts = [t for t in range(len(lay.tags)) if t not in avoid_tags and t not in [lay.tags.index(x) for x in lay.extra_tags]]
            if ts:
                out.append(f"deltags {rng.choice(ts)}")
    return out


def gen_recreate(rng, lay: Layout) -> list[str]:
    """directed at the second precision clause: a key carries tag t, is explicitly removed by ONE of the removal
    paths (delete, delete_many, delete_match with a wildcard-free pattern naming it, delete_match with a glob,
    delete_tags of another tag it carries), is written again without t, then delete_tags(t): every removal path has
    to prune the key from its tag sets.  Other keys carry t too (they must go), noise in between."""
    nk = len(lay.keys)
    cands = [k for k in range(nk) if lay.expected_key_tags(k)]
    ki = rng.choice(cands)
    exp = lay.expected_key_tags(ki)
    t = rng.choice(exp)
    others = [x for x in exp if x != t]
    carried = [t] + (rng.sample(others, rng.randint(0, len(others))) if others else [])
    rng.shuffle(carried)
    ops = []
    # companions under the same tag
    for ko in rng.sample([k for k in range(nk) if k != ki and t in lay.expected_key_tags(k)],
                         min(rng.randint(0, 2), len([k for k in range(nk) if k != ki and t in lay.expected_key_tags(k)]))):
        ops.append(f"set {ko} {rng.choice(VALS)} {rng.choice(['-', '800', '24'])} a {show_tags([t])}")
    fs = [fi for fi in lay.funcs_for_key(ki) if t in lay.func_tags(fi, ki)]
    ttl = rng.choice(["-", "-", "800", "24", "16"])
    w = rng.random()
    if fs and w < 0.35:
        fi = rng.choice(fs)
        carried = lay.func_tags(fi, ki)
        ops.append(gen_call(rng, lay, ki, fi, ttl if ttl != "-" else "800"))
    elif w < 0.5:
        ops.append(f"incr {ki} 1 {ttl} {show_tags(carried)}")
    else:
        ops.append(f"set {ki} {rng.choice(VALS)} {ttl} a {show_tags(carried)}")
    ops += _noise(rng, lay, ki, carried)
    paths = ["delete", "delmany", "exact", "exact", "exact", "glob", "glob"]
    if [x for x in carried if x != t]:
        paths += ["deltags_other", "deltags_other"]
    how = rng.choice(paths)
    if how == "delete":
        ops.append(f"delete {ki}")
    elif how == "delmany":
        ks = [ki] + [rng.randrange(nk) for _ in range(rng.randint(0, 2))]
        rng.shuffle(ks)
        ops.append("delmany " + " ".join(map(str, ks)))
    elif how == "exact" and ki in lay.exact_of:
        ops.append(f"delmatch {lay.exact_of[ki]}")
    elif how == "glob" and lay.wild_patterns_for(ki):
        ops.append(f"delmatch {rng.choice(lay.wild_patterns_for(ki))}")
    elif how == "deltags_other":
        ops.append(f"deltags {rng.choice([x for x in carried if x != t])}")
    else:
        ops.append(f"delete {ki}")
    ops += _noise(rng, lay, ki, [t])
    # written again without t
    new_tags = [x for x in exp if x != t]
    nt = rng.sample(new_tags, rng.randint(0, len(new_tags))) if new_tags and rng.random() < 0.4 else []
    w = rng.random()
    fs2 = [fi for fi in lay.funcs_for_key(ki) if t not in lay.func_tags(fi, ki)]
    if fs2 and w < 0.25:
        ops.append(gen_call(rng, lay, ki, rng.choice(fs2), "800"))
    elif w < 0.4:
        ops.append(f"incr {ki} {rng.choice([1, 2])} {rng.choice(['-', '800'])} {show_tags(nt)}")
    elif w < 0.5:
        ops.append(f"set {ki} {rng.choice(VALS)} {rng.choice(['-', '800'])} nx {show_tags(nt)}")
    else:
        ops.append(f"set {ki} {rng.choice(VALS)} {rng.choice(['-', '800', '24'])} a {show_tags(nt)}")
    ops += _noise(rng, lay, ki, [t])
    ops.append(f"deltags {t}")
    order = list(range(nk))
    rng.shuffle(order)
    ops += [f"{rng.choice(['get', 'get', 'exists'])} {k}" for k in order]
    return ops


def gen_mutcall(rng, lay: Layout) -> list[str]:
    """directed at tags attached by a decorator whose function changes its arguments: a few decorated calls (bodies
    mutating their list / dict argument in place, and non-mutating controls), maybe hits and noise, then
    delete_tags of a tag rendered from some call's arguments as the caller passed them, then probes (get and a
    further call: a removed entry has to be recomputed)."""
    nk = len(lay.keys)
    ops = []
    called = []
    for _ in range(rng.randint(1, 3)):
        ki = rng.randrange(nk)
        fs = lay.funcs_for_key(ki)
        if not fs:
            continue
        fi = rng.choice(fs)
        ops.append(gen_call(rng, lay, ki, fi, rng.choice(["800", "800", "24", "16"])))
        called.append((ki, fi))
        if rng.random() < 0.3:
            ops.append(gen_call(rng, lay, ki, rng.choice(fs), "800"))      # usually a hit
        ops += _noise(rng, lay, ki, list(range(len(lay.tags))))
    if not called:
        return gen_history(rng, lay, 10)
    ki, fi = rng.choice(called)
    tags = lay.func_tags(fi, ki)
    templated = [t for t, tt in zip(tags, lay.funcs[fi][1]) if "{" in tt]
    t = rng.choice(templated) if templated and rng.random() < 0.8 else rng.choice(tags)
    ops.append(f"deltags {t}")
    order = list(range(nk))
    rng.shuffle(order)
    ops += [f"get {k}" for k in order]
    if rng.random() < 0.6:
        ops.append(gen_call(rng, lay, ki, fi, "800"))
        ops.append(f"get {ki}")
    return ops


def gen_history(rng, lay: Layout, maxlen: int, registered_only: bool = True) -> list[str]:
    n = rng.randint(2, maxlen)
    nk = len(lay.keys)
    nt = len(lay.tags)
    ops: list[str] = []
    table = [("set", 26), ("setc", 6), ("incr", 12), ("call", 14 if lay.funcs else 0), ("get", 6), ("exists", 3),
             ("delete", 6), ("delmany", 2), ("delmatch", 4), ("adv", 18), ("deltags", 12)]
    names, ws = zip(*table)
    k = lambda: rng.randrange(nk)
    for _ in range(n):
        op = rng.choices(names, ws)[0]
        if op == "set":
            ki = k()
            ops.append(f"set {ki} {rng.choice(VALS)} {rng.choice(TTLS)} a {gen_tags(rng, lay, ki, registered_only)}")
        elif op == "setc":
            ki = k()
            ops.append(f"set {ki} {rng.choice(VALS)} {rng.choice(TTLS)} {rng.choice(['nx', 'xx'])} {gen_tags(rng, lay, ki, registered_only)}")
        elif op == "incr":
            ki = k()
            ops.append(f"incr {ki} {rng.choice([1, 1, 1, 1, 2, -1])} {rng.choice(TTLS)} {gen_tags(rng, lay, ki, registered_only)}")
        elif op == "call":
            ki = k()
            fs = lay.funcs_for_key(ki)
            if not fs:
                continue
            ops.append(gen_call(rng, lay, ki, rng.choice(fs), rng.choice(['8', '16', '24', '800', '800'])))
        elif op == "get":
            ops.append(f"get {k()}")
        elif op == "exists":
            ops.append(f"exists {k()}")
        elif op == "delete":
            ops.append(f"delete {k()}")
        elif op == "delmany":
            ops.append("delmany " + " ".join(str(k()) for _ in range(rng.randint(1, 3))))
        elif op == "delmatch":
            ops.append(f"delmatch {gen_pattern(rng, lay)}")
        elif op == "adv":
            ops.append(f"adv {rng.choice(ADVS)}")
        else:
            ts = rng.sample(range(nt), rng.choice([1, 1, 1, 2]) if nt > 1 else 1)
            ops.append("deltags " + " ".join(map(str, ts)))
            if rng.random() < 0.8:
                order = list(range(nk))
                rng.shuffle(order)
                for ki in order:
                    ops.append(f"{rng.choice(['get', 'get', 'exists'])} {ki}")
    return ops


def gen_big(rng, lay: Layout) -> list[str]:
    """more than 100 members under one tag: batching of `_delete_tag`"""
    nb = len([1 for k in lay.keys if k[1] == 0])
    ops = []
    big, odd = lay.tags.index("big"), lay.tags.index("odd")
    order = list(range(nb))
    rng.shuffle(order)
    members = order[: rng.choice([nb, nb, nb - 1, max(1, nb - 7)])]
    for ki in members:
        tags = [big] + ([odd] if rng.random() < 0.3 else [])
        ops.append(f"set {ki} t:{ki % 7} {rng.choice(['-', '800', '800', '16', '8'])} a {show_tags(tags)}")
        if rng.random() < 0.03:
            ops.append(f"adv {rng.choice([1, 4, 8])}")
    for ki in range(nb, len(lay.keys)):
        if rng.random() < 0.2:
            ops.append(f"set {ki} t:1 - a {odd}")
    for _ in range(rng.randint(0, 6)):
        ops.append(rng.choice([f"delete {rng.choice(members)}", f"adv {rng.choice([8, 9, 16])}", "delmatch 0",
                               f"set {rng.choice(members)} t:9 - a -", f"incr {rng.randrange(nb)} 1 8 {big}"]))
    ops.append(f"deltags {big}" if rng.random() < 0.8 else f"deltags {odd} {big}")
    for ki in range(len(lay.keys)):
        ops.append(f"get {ki}")
    return ops
