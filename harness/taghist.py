"""Tagged command histories on the real `Cache` facade (C12): layouts (keys, tag templates, decorated
functions), executor under the virtual clock, property oracle from the harness's own log, generator.

A case is `{"config": <CONFIGS name>, "layout": <layout name>, "ops": [<op line>, ...]}`.  Keys and tags are
model numbers (indices into the layout's key / tag lists).  Op lines (see lean/Drivers/C12.lean):

  set K V TTL COND TAGS | incr K BY TTL TAGS | call K F TTL [MUT] | get K | exists K | delete K | delmany K..
  delmatch P | deltags T.. | adv N

`call K F TTL [MUT]` calls the decorated function F of the layout with (fresh copies of) the arguments that produce
key K; the body applies the scripted in-place mutation MUT (see MUTATIONS; `-` / absent = none) to its mutable
argument before it returns.  Model line: `call K t:<fresh> TTL <tags the decorator attaches>` where the tags are
the tag templates rendered by the harness from the arguments AS THEY WERE WHEN THE CALL WAS MADE (the key and the
tags of a decorated call are those of the call, whatever the body does to its arguments).
In the layout `strat` the decorated functions use the re-writing strategies `early`, `soft`, `hit`, `dynamic` (every
decorator of cashews/wrapper/decorators.py that takes `tags=`): `call K F TTL [E]` (E = early_ttl in ticks, `early` only).
Model lines `early K LK X TTL E TAGS`, `soft K X TTL S TAGS`, `hit K KC X TTL TAGS CACHE_HITS UPDATE_AFTER` (X = number of
the fresh token, LK / KC = lock / counter key): the model decides from its own state whether the decorator serves the
entry, recalculates it ahead of its deadline (a tagged RE-WRITE of a live key) or computes it anew.
Layouts `strat+OPT+OPT..` decorate the same functions with the options that change the wrapping path
(cashews/wrapper/decorators.py): `upper` (upper=True: _wrap_with_condition), `lock` (lock=True, @cache only), `unprot`
(protected=False), `tc` (time_condition=1 s: a result is stored iff the body took longer; a call may carry `d=N`, the ticks
its body takes).  Model lines end in `D A AR` (ticks of the body, condition accepts a computed / a re-written result) and
the simple decorator's line is `scall K V TTL TAGS D A AR`.
`delmatch P` uses pattern P of the layout - glob patterns with `*`, wildcard-free patterns naming one key exactly,
and patterns matching nothing (model line: `delmatch <keys of the universe that match>`).
TTLs / advances are ticks of 1/8 s.
"""
from __future__ import annotations

import asyncio
import copy
import re
import string

from . import vtime
from .core import HarnessError
from .vtime import CLOCK

SENT = object()
SIZE = 100000
BATCH = 100  # the literal in CommandsTagsWrapper._delete_tag, re-read from the source by `batch_literal()`


# ------------------------------------------------------------------------------------------------
# layouts


class Layout:
    """keys: list of (key string, template index, field dict); tags: list of concrete tag strings;
    registrations: list of (tag template, key template) done with cache.register_tag;
    funcs: decorated functions: (key template index, [tag templates], argument names);
    patterns: patterns for delete_match (all start with a data prefix, never match '_tag:*'): the glob patterns given,
    then (appended, so that old indices stay valid) wildcard-free patterns = exact key names, then patterns matching
    nothing (one with, one without a wildcard).
    Field values are strings, or lists / dicts of strings (mutable arguments of decorated functions); `render` is the
    harness's own reading of how the documentation says they appear in keys and tags (list: items joined by ':',
    dict: 'key:value' pairs sorted by key joined by ':')."""

    def __init__(self, name, templates, fields, tags_templates, regs, funcs, patterns, extra_tags=(), exact=None,
                 direct=None):
        self.name = name
        self.templates = templates
        # a function may carry a 4th element: the strategy of its decorator, e.g. {"kind": "early", "bg": False,
        # "lock": <template idx of key + ":lock">} / {"kind": "soft", "soft": 8} / {"kind": "hit", "ttl": 24,
        # "cache_hits": 3, "update_after": 2, "bg": False, "counter": <template idx of key + ":counter">}
        self.fspec = [dict(f[3]) if len(f) > 3 else {"kind": "simple"} for f in funcs]
        funcs = [tuple(f[:3]) for f in funcs]
        self.lock_base = {sp["lock"]: f[0] for f, sp in zip(funcs, self.fspec) if "lock" in sp}   # lock template -> key template
        self.direct_templates = direct    # templates whose keys the generator may write directly (None = all)
        self.opts = frozenset()           # wrapping options applied to every decorated function that takes them
        self.late_regs = []               # (tag template, key template) registered by the history event `reg N`, not up front
        self.keys = []  # (string, template idx, fields)
        for ti, tpl in enumerate(templates):
            names = [f for _, f, _, _ in string.Formatter().parse(tpl) if f]
            for combo in _product([fields[n] for n in names]):
                fd = dict(zip(names, combo))
                self.keys.append((fmt(tpl, fd), ti, fd))
        if len({k for k, _, _ in self.keys}) != len(self.keys):
            raise HarnessError(f"layout {name}: two argument combinations render to the same key")
        self.regs = regs
        self.funcs = funcs
        self.nglob = len(patterns)
        exact_keys = list(range(len(self.keys))) if exact is None else list(exact)
        self.patterns = list(patterns) + [self.keys[i][0] for i in exact_keys] + ["zz:*", "zz:none"]
        self.exact_of = {ki: self.nglob + j for j, ki in enumerate(exact_keys)}
        self.nomatch = [len(self.patterns) - 2, len(self.patterns) - 1]
        if any(self.match(pi) for pi in self.nomatch) or any(self.match(self.exact_of[ki]) != [ki] for ki in exact_keys):
            raise HarnessError(f"layout {name}: exact / no-match patterns do not match what they are meant to")
        # every concrete tag any registration / decorator can produce for a universe key, plus unregistered extras
        tagset = []
        for _, ti, fd in self.keys:
            for tt in tags_templates:
                try:
                    t = fmt(tt, fd)
                except KeyError:
                    continue
                if t not in tagset:
                    tagset.append(t)
        for t in extra_tags:
            if t not in tagset:
                tagset.append(t)
        self.tags = tagset
        self.extra_tags = list(extra_tags)
        # PROVISO of the property as checked: a delete_match pattern that matches a key of the reserved namespace '_tag:' (e.g.
        # '*:1' matches '_tag:tag:1') deletes tag sets, after which delete_tags cannot find their members - such patterns
        # are excluded from the histories (like the ':' proviso of C03 / C04); this guard enforces it for every layout
        for pat in self.patterns:
            rx = re.compile(".*".join(re.escape(x) for x in pat.split("*")), re.DOTALL)
            hit = [t for t in self.tags if rx.fullmatch("_tag:" + t)]
            if hit or rx.fullmatch("_tag:"):
                raise HarnessError(f"layout {name}: pattern {pat!r} reaches the reserved '_tag:' namespace ({hit[:2]})")

    # -- the harness's own reading of the registry: which tags does key K get?  (independent of cashews:
    #    plain substitution of the key's own field values into the tag template)
    def expected_key_tags(self, ki: int, late=()) -> list[int]:
        """`late`: which of the layout's late registrations (`late_regs`: register_tag calls issued as history events `reg N`)
        have been made so far"""
        memo = self.__dict__.setdefault("_ekt", {})
        mk = (ki, tuple(sorted(late)))
        if mk not in memo:
            memo[mk] = self._expected_key_tags(ki, mk[1])
        return list(memo[mk])

    def _expected_key_tags(self, ki: int, late=()) -> list[int]:
        _, ti, fd = self.keys[ki]
        out = []
        if late:
            base = self._expected_key_tags(ki)
            for n in late:
                tag_tpl, key_tpl = self.late_regs[n]
                if key_tpl == self.templates[ti]:
                    j = self.tags.index(fmt(tag_tpl, fd))
                    if j not in base:
                        base.append(j)
            return sorted(base)
        if ti in self.lock_base:
            # the lock key `<key>:lock` of an `early` function is registered for nothing, but the regular expression of
            # its key's template takes it in (the last field swallows ':lock'): field-less tags of that template apply
            # to it, templated ones come out as tags no key of the case carries (`foreign_tags_of_lock_keys`)
            for tag_tpl, key_tpl in self.all_registrations():
                if key_tpl == self.templates[self.lock_base[ti]] and "{" not in tag_tpl and self.tags.index(tag_tpl) not in out:
                    out.append(self.tags.index(tag_tpl))
            return sorted(out)
        for tag_tpl, key_tpl in self.all_registrations():
            if key_tpl != self.templates[ti] and key_tpl != self.keys[ki][0]:
                continue
            try:
                t = fmt(tag_tpl, fd)
            except KeyError:
                t = _format_missing(tag_tpl, fd)
            j = self.tags.index(t)
            if j not in out:
                out.append(j)
        return sorted(out)

    def all_registrations(self):
        regs = list(self.regs)
        for (kti, tag_tpls, _), sp in zip(self.funcs, self.fspec):
            for tt in tag_tpls:
                if "counter" in sp:      # hit / dynamic register their tags for the counter key too
                    regs.append((tt, self.templates[sp["counter"]]))
                regs.append((tt, self.templates[kti]))
        return regs

    def key_index(self, ti: int, fd: dict) -> int:
        for i, (_, t, f) in enumerate(self.keys):
            if t == ti and f == fd:
                return i
        raise HarnessError(f"layout {self.name}: no key of template {ti} with fields {fd}")

    def side_key(self, fi: int, ki: int):
        """the lock key (early) / counter key (hit, dynamic) that goes with key `ki` of function `fi`, or None"""
        sp = self.fspec[fi]
        ti = sp.get("lock", sp.get("counter"))
        return None if ti is None else self.key_index(ti, self.keys[ki][2])

    def is_lock_key(self, ki: int) -> bool:
        return self.keys[ki][1] in self.lock_base

    def direct_keys(self) -> list[int]:
        return [i for i, (_, ti, _) in enumerate(self.keys) if self.direct_templates is None or ti in self.direct_templates]

    def strategy_funcs(self) -> list[int]:
        return [fi for fi, sp in enumerate(self.fspec) if sp["kind"] != "simple"]

    def func_tags(self, fi: int, ki: int) -> list[int]:
        _, tag_tpls, _ = self.funcs[fi]
        fd = self.keys[ki][2]
        return [self.tags.index(fmt(tt, fd)) for tt in tag_tpls]

    def wild_patterns_for(self, ki: int) -> list[int]:
        return [pi for pi in range(self.nglob) if ki in self.match(pi)]

    def funcs_for_key(self, ki: int) -> list[int]:
        return [fi for fi, (kti, _, _) in enumerate(self.funcs) if kti == self.keys[ki][1]]

    def match(self, pi: int) -> list[int]:
        rx = re.compile(".*".join(re.escape(p) for p in self.patterns[pi].split("*")), re.DOTALL)
        return [i for i, (k, _, _) in enumerate(self.keys) if rx.fullmatch(k)]

    def reg_field(self, late=()) -> str:
        ents = []
        for i in range(len(self.keys)):
            ts = self.expected_key_tags(i, late)
            if ts:
                ents.append(f"{i}:" + "+".join(map(str, ts)))
        return ";".join(ents) or "-"


def _product(lists):
    out = [()]
    for l in lists:
        out = [o + (x,) for o in out for x in l]
    return out


def render(v) -> str:
    """how an argument value appears in a key / tag (README "Template Keys": strings as they are, lists and tuples
    as their items joined by ':', dicts as 'key:value' pairs sorted by key joined by ':')"""
    if isinstance(v, str):
        return v
    if isinstance(v, (list, tuple)):
        return ":".join(render(x) for x in v)
    if isinstance(v, dict):
        return ":".join(k + ":" + render(x) for k, x in sorted(v.items()))
    raise HarnessError(f"no rendering for {type(v).__name__}")


def fmt(tpl: str, fd: dict) -> str:
    return tpl.format(**{k: render(v) for k, v in fd.items()})


def _format_missing(tpl, fd):
    class D(dict):
        def __missing__(self, k):
            return ""
    return string.Formatter().vformat(tpl, (), D({k: render(v) for k, v in fd.items()}))


# scripted in-place mutations a decorated function's body applies to its mutable argument
MUTATIONS = {
    "list": {
        "app": lambda l: l.append("z"),          # extends the list (['a','b'] -> ['a','b','z'])
        "sort": lambda l: l.sort(),              # normalises the order (['b','a'] -> ['a','b'])
        "rev": lambda l: l.reverse(),
        "pop": lambda l: l.pop() if l else None,
        "ins": lambda l: l.insert(0, "a") if "a" not in l[:1] else None,
    },
    "dict": {
        "sd": lambda d: d.setdefault("x", "1"),  # fills in a default ({'y':'2'} -> {'x':'1','y':'2'})
        "dely": lambda d: d.pop("y", None),
        "clr": lambda d: d.clear(),
        "upd": lambda d: d.update(y="2"),
    },
}


def mutations_for(value) -> list[str]:
    if isinstance(value, list):
        return list(MUTATIONS["list"])
    if isinstance(value, dict):
        return list(MUTATIONS["dict"])
    return []


def apply_mutation(name: str, obj):
    if name in ("-", None):
        return
    kind = "list" if isinstance(obj, list) else "dict" if isinstance(obj, dict) else None
    if kind is None or name not in MUTATIONS[kind]:
        raise HarnessError(f"mutation {name!r} does not apply to {type(obj).__name__}")
    MUTATIONS[kind][name](obj)


OPTIONS = ("upper", "lock", "unprot", "tc")
TC_LIMIT = 8      # time_condition of the layouts with `tc`, in ticks (1 s)


def make_layout(name: str) -> Layout:
    if "+" in name:
        base, *opts = name.split("+")
        if base != "strat" or any(o not in OPTIONS for o in opts):
            raise HarnessError(f"unknown layout {name}")
        lay = make_layout(base)
        lay.name = name
        lay.opts = frozenset(opts)
        return lay
    if name == "plain":
        # plain tags registered on a whole key family and on single keys
        return Layout(name, ["k:{i}"], {"i": ["0", "1", "2", "3"]}, ["ta", "tb", "tc"],
                      regs=[("ta", "k:{i}"), ("tb", "k:{i}"), ("tc", "k:0"), ("tc", "k:1"), ("tc", "k:2")], funcs=[],
                      patterns=["k:*", "k:1*", "k:*3"])
    if name == "templ":
        # templated tags: the tag's fields come out of the key through the registry's regular expression
        return Layout(name, ["u:{user}:p:{page}", "s:{user}"], {"user": ["1", "2"], "page": ["a", "b"]},
                      ["user:{user}", "page:{page}", "all"],
                      regs=[("user:{user}", "u:{user}:p:{page}"), ("page:{page}", "u:{user}:p:{page}"),
                            ("all", "u:{user}:p:{page}"), ("user:{user}", "s:{user}"), ("all", "s:{user}")],
                      funcs=[], patterns=["u:1:*", "u:*:p:a", "s:*", "u:*"])
    if name == "decor":
        # tags attached by @cache(..., tags=...) (the decorator registers them itself), mixed with direct writes
        return Layout(name, ["u:{user}:p:{page}", "c:{user}"], {"user": ["1", "2"], "page": ["a", "b"]},
                      ["user:{user}", "page:{page}", "all"],
                      regs=[("page:{page}", "u:{user}:p:{page}")],
                      funcs=[(0, ["user:{user}", "all"], ["user", "page"]), (0, ["user:{user}"], ["user", "page"]),
                             (1, ["user:{user}", "all"], ["user"])],
                      patterns=["u:2:*", "u:*:p:b", "c:*"])
    if name == "unreg":
        # malformed stream: tag `tx` is used but never registered (D21) - reported as a note, not judged
        return Layout(name, ["k:{i}"], {"i": ["0", "1", "2"]}, ["ta"],
                      regs=[("ta", "k:{i}")], funcs=[], patterns=["k:*"], extra_tags=["tx"])
    if name == "mut":
        # decorated functions with MUTABLE arguments (list / dict) in the key and tag templates, whose bodies may
        # change them in place: key and tags are those of the arguments at call time.  The mutable field is the only
        # field of its key template (a rendered list contains ':'; a second field would make the registry ambiguous).
        return Layout(name, ["r:{cols}", "q:{opts}"],
                      {"cols": [["a", "b"], ["b", "a"], ["a", "b", "z"], ["a"]],
                       "opts": [{"y": "2"}, {"x": "1", "y": "2"}, {"x": "1"}]},
                      ["cols:{cols}", "opts:{opts}", "all"],
                      regs=[],
                      funcs=[(0, ["cols:{cols}", "all"], ["cols"]), (0, ["cols:{cols}"], ["cols"]),
                             (1, ["all", "opts:{opts}"], ["opts"])],
                      patterns=["r:a*", "q:*", "r:*z", "r:*"])
    if name == "late":
        # registrations interleaved with the history: tag `t` and `g:{i}` are registered for the family a:{i} up front and for
        # the family b:{i} only by the events `reg 0` / `reg 1` - possibly after keys of b were already written, read and
        # removed (whatever the registry remembered about them must not outlive the new registration)
        lay = Layout(name, ["a:{i}", "b:{i}"], {"i": ["1", "2"]}, ["t", "g:{i}"],
                     regs=[("t", "a:{i}"), ("g:{i}", "a:{i}")], funcs=[], patterns=["a:*", "b:*", "b:1*"])
        lay.late_regs = [("t", "b:{i}"), ("g:{i}", "b:{i}")]
        return lay
    if name == "nl":
        # argument values that contain line breaks: the registry's regular expression has to take them in (a field is
        # `.+`: with re.DOTALL), or the on-remove pruning skips the key and a later delete_tags deletes its re-creation
        return Layout(name, ["n:{u}", "g:{u}"], {"u": ["a", "a\nb", "c\n"]}, ["nt:{u}", "all"],
                      regs=[("nt:{u}", "n:{u}"), ("all", "n:{u}")],
                      funcs=[(1, ["nt:{u}"], ["u"])], patterns=["n:*", "g:a*"])
    if name == "strat":
        # every decorator that takes tags= (cashews/wrapper/decorators.py: cache, early, soft, hit, dynamic), each with
        # its own key family; the per-argument tag tg:{x} is shared by the families (same x), `all` by some of them; a
        # plain family p:{x} is written directly (companions that may or may not keep a tag set alive).  Lock keys of
        # early and counter keys of hit / dynamic are keys of the case too.
        return Layout(name,
                      ["early:v2:e:{x}", "early:v2:e:{x}:lock", "early:v2:b:{x}", "early:v2:b:{x}:lock", "soft:s:{x}",
                       "hit:h:{x}", "hit:h:{x}:counter", "hit:g:{x}", "hit:g:{x}:counter", "dynamic:d:{x}", "dynamic:d:{x}:counter",
                       "c:{x}", "p:{x}"],
                      {"x": ["1", "2"]}, ["tg:{x}", "all"],
                      regs=[("tg:{x}", "p:{x}"), ("all", "p:{x}")],
                      funcs=[(0, ["tg:{x}", "all"], ["x"], {"kind": "early", "key": "e:{x}", "bg": False, "lock": 1}),
                             (2, ["tg:{x}"], ["x"], {"kind": "early", "key": "b:{x}", "bg": True, "lock": 3}),
                             (4, ["tg:{x}", "all"], ["x"], {"kind": "soft", "key": "s:{x}", "soft": 8}),
                             (5, ["tg:{x}"], ["x"], {"kind": "hit", "key": "h:{x}", "ttl": 24, "cache_hits": 3, "update_after": 2, "bg": False, "counter": 6}),
                             (7, ["all", "tg:{x}"], ["x"], {"kind": "hit", "key": "g:{x}", "ttl": 16, "cache_hits": 2, "update_after": 0, "bg": True, "counter": 8}),
                             (9, ["tg:{x}"], ["x"], {"kind": "dynamic", "key": "d:{x}", "ttl": 800, "cache_hits": 3, "update_after": 1, "bg": True, "counter": 10}),
                             (11, ["tg:{x}"], ["x"], {"kind": "simple", "key": "c:{x}"})],
                      patterns=["early:*", "hit:h:*", "hit:*:1", "p:*", "soft:s:2*"], exact=[0, 8, 10, 24], direct=[12])
    if name.startswith("big:"):
        n = int(name.split(":")[1])
        return Layout(name, ["b:{i}", "o:{i}"], {"i": [str(i) for i in range(n)]}, ["big", "odd"],
                      regs=[("big", "b:{i}"), ("odd", "b:{i}"), ("odd", "o:{i}")], funcs=[], patterns=["b:1*", "o:*"],
                      exact=[0, 1, n - 1, n])
    raise HarnessError(f"unknown layout {name}")


CONFIGS = {
    # tags backend: shared = the default backend holds the '_tag:' sets too; separate = setup_tags_backend
    "shared": dict(url="mem://?size={size}&check_interval=0", tags_url=None, purge=0),
    "separate": dict(url="mem://?size={size}&check_interval=0", tags_url="mem://?size={size}&check_interval=0", purge=0),
    "shared_secret": dict(url="mem://?size={size}&check_interval=0&secret=s3cr3t&digestmod=md5", tags_url=None, purge=0),
    "shared_purge": dict(url="mem://?size={size}&check_interval=1", tags_url=None, purge=8),
    "separate_purge": dict(url="mem://?size={size}&check_interval=1", tags_url="mem://?size={size}&check_interval=1", purge=8),
    # several data backends routed by key prefix: the keys of the layout under SPLIT_PREFIX live in a second in-memory backend
    # (cache.setup(url, prefix=...)), the others in the default one; one tag's members then live in both, and delete_tags /
    # delete_many have to reach each key in the backend that owns it.  Tag sets in the default backend / in a dedicated one.
    "split": dict(url="mem://?size={size}&check_interval=0", tags_url=None, purge=0, split=True),
    "split_tags": dict(url="mem://?size={size}&check_interval=0", tags_url="mem://?size={size}&check_interval=0", purge=0, split=True),
}

# which keys of a layout go to the second data backend of the configurations `split*` (a key prefix; it need not end at ':')
SPLIT_PREFIX = {"plain": "k:1", "unreg": "k:1", "templ": "s:", "decor": "c:", "mut": "q:", "strat": "hit:", "nl": "g:", "big": "o:", "late": "b:"}


def val_of(tok: str):
    kind, x = tok.split(":")
    return int(x) if kind == "i" else f"t{x}"


def show_val(v) -> str:
    if v is SENT or v is None:
        return "-"
    if isinstance(v, bool):
        return f"?bool:{v}"
    if isinstance(v, int):
        return f"i:{v}"
    if isinstance(v, str) and v.startswith("t") and v[1:].isdigit():
        return f"t:{v[1:]}"
    if (isinstance(v, list) and len(v) == 2 and isinstance(v[0], vtime._RealDatetime) and isinstance(v[1], str)
            and v[1].startswith("t") and v[1][1:].isdigit()):
        # what early / soft store: [early / soft deadline, result] -> l:<deadline in ticks>+<token number>
        return f"l:{round((v[0].timestamp() - vtime.BASE) / vtime.TICK)}+{v[1][1:]}"
    return f"?{type(v).__name__}:{v!r}"


def ttl_of(tok: str):
    return None if tok == "-" else int(tok) / 8


def tags_of(tok: str) -> list[int]:
    return [] if tok == "-" else [int(x) for x in tok.split("+")]


def show_tags(ts) -> str:
    return "+".join(map(str, ts)) or "-"


class Runner:
    """Runs one case on the real code; produces the effective model lines with the implementation's
    canonical outputs, the oracle verdicts and the interesting-state counters."""

    def __init__(self, cfg: str, layout: Layout):
        self.cfgname = cfg
        self.cfg = CONFIGS[cfg]
        self.lay = layout
        self.stats: dict[str, int] = {}
        self.sweeps: list[float] = []
        self.oracle_failures: list[dict] = []   # the implementation contradicts the property statement
        self.notes: list[str] = []
        self.eff: list[tuple[str, str]] = []
        self.oracle_sets: list[tuple[int, list[int], list[int]]] = []  # (index in eff, die, stay) per deltags
        # the harness's own log
        n = len(layout.keys)
        self.last = [[] for _ in range(n)]      # tags of the latest successful write
        self.since = [[] for _ in range(n)]     # tags carried since the last explicit deletion
        self.ever = [set() for _ in range(n)]
        self.must_be_dead: dict[int, int] = {}  # key -> index of the deltags line that must have removed it
        self.removed_by = [None] * n            # how the key was last explicitly deleted (statistics only)
        self.fresh = 100
        self.body_ran = False
        self.next_mut = "-"
        self.registered = True                  # every tag used so far was registered for its key
        self.next_ttl = None
        self.next_early = None
        self.next_dur = 0
        self.late: set[int] = set()             # late registrations made so far
        self.purge_task = None
        self.refreshed: dict[int, dict] = {}    # key -> what its entry / tag sets looked like before its latest write, if that was a decorator's re-write of a live entry

    def _bump(self, k: str, n: int = 1):
        self.stats[k] = self.stats.get(k, 0) + n

    # ---- raw, non-touching views of the stores (oracle + statistics only; never compared with the model)
    def _raw(self, ki: int):
        try:
            return self._owner(self.lay.keys[ki][0]).store.get(self.lay.keys[ki][0])
        except AttributeError as exc:  # pragma: no cover
            raise HarnessError(f"cannot peek into Memory.store: {exc}")

    def _owner(self, name: str):
        """the data backend that owns a key / a pattern: longest matching prefix"""
        return max((r for r in self.routes if name.startswith(r[0])), key=lambda r: len(r[0]))[1]

    def _readable(self, ki: int):
        ent = self._raw(ki)
        if ent is None or (ent[0] is not None and ent[0] <= CLOCK.t):
            return None
        return ent

    def _raw_set(self, ti: int):
        ent = self.tags_backend.store.get("_tag:" + self.lay.tags[ti])
        return ent

    def _live_set(self, ti: int):
        ent = self._raw_set(ti)
        if ent is None or (ent[0] is not None and ent[0] <= CLOCK.t):
            return None
        return ent

    # ---- setup
    async def _setup(self):
        from cashews import Cache

        lay = self.lay
        cache = Cache()
        self.backend = cache.setup(self.cfg["url"].format(size=SIZE))
        self.routes = [("", self.backend)]       # (key prefix, data backend) - the harness's own reading of the prefix routing
        if self.cfg.get("split"):
            if self.cfg["purge"]:
                raise HarnessError("split configurations run without the purge task")
            prefix = SPLIT_PREFIX[lay.name.split(":")[0].split("+")[0]]
            self.routes.append((prefix, cache.setup(self.cfg["url"].format(size=SIZE), prefix=prefix)))
            here = [k for k, _, _ in lay.keys if k.startswith(prefix)]
            if not here or len(here) == len(lay.keys):
                raise HarnessError(f"layout {lay.name}: the prefix {prefix!r} does not split its keys over two backends")
        self.tags_backend = self.backend
        if self.cfg["tags_url"]:
            self.tags_backend = cache.setup_tags_backend(self.cfg["tags_url"].format(size=SIZE))
        for tag_tpl, key_tpl in lay.regs:
            cache.register_tag(tag_tpl, key_tpl)
        self.funcs = []
        runner = self

        def ttl_fn(*args, **kwargs):
            return runner.next_ttl

        def early_fn(*args, **kwargs):
            return runner.next_early

        for (kti, tag_tpls, argnames), spec in zip(lay.funcs, lay.fspec):
            if spec["kind"] == "simple":
                self.funcs.append(self._make_func(cache, lay.templates[kti], tag_tpls, argnames, ttl_fn))
            else:
                self.funcs.append(self._make_strategy_func(cache, lay.templates[kti], tag_tpls, spec, ttl_fn, early_fn))
        await cache.init()
        self.cache = cache
        if self.cfg["purge"]:
            purge_task = getattr(self.backend, "_Memory__remove_expired_task")
            self.purge_task = purge_task
            orig_get = self.backend.get

            async def get(key, default=None):
                if asyncio.current_task() is purge_task:
                    if not runner.sweeps or runner.sweeps[-1] != CLOCK.t:
                        runner.sweeps.append(CLOCK.t)
                return await orig_get(key, default=default)

            self.backend.get = get
            await asyncio.sleep(0)
        # the registry as the code computes it vs. the harness's own reading of the templates
        for i, (k, _, _) in enumerate(lay.keys):
            got = sorted(lay.tags.index(t) if t in lay.tags else -1 for t in cache.get_key_tags(k))
            if lay.is_lock_key(i) and -1 in got:
                # `<key>:lock` read through the key's own template: the templated tags come out as tags of no key
                self._bump("foreign_tags_of_lock_keys(not judged)")
                got = [j for j in got if j != -1]
            if got != lay.expected_key_tags(i):
                self.eff.append((f"?keytags {i}", f"get_key_tags({k!r}) -> {cache.get_key_tags(k)!r}, expected tags "
                                                  f"{[lay.tags[j] for j in lay.expected_key_tags(i)]}"))

    def _make_func(self, cache, key_tpl, tag_tpls, argnames, ttl_fn):
        runner = self
        if argnames == ["user", "page"]:
            async def fn(user, page):
                runner.body_ran = True
                return runner.body_val
        elif argnames == ["user"]:
            async def fn(user):
                runner.body_ran = True
                return runner.body_val
        elif argnames == ["u"]:
            async def fn(u):
                runner.body_ran = True
                return runner.body_val
        elif argnames == ["x"]:
            async def fn(x):
                runner.body_ran = True
                CLOCK.advance(runner.next_dur)      # the body takes this long
                return runner.body_val
        elif argnames == ["cols"]:
            async def fn(cols):
                runner.body_ran = True
                apply_mutation(runner.next_mut, cols)   # the body changes its (mutable) argument in place
                return runner.body_val
        elif argnames == ["opts"]:
            async def fn(opts):
                runner.body_ran = True
                apply_mutation(runner.next_mut, opts)
                return runner.body_val
        else:  # pragma: no cover
            raise HarnessError("unsupported signature")
        return cache(ttl=ttl_fn, key=key_tpl, tags=tuple(tag_tpls), **self._wrap_options("simple"))(fn)

    def _wrap_options(self, kind: str) -> dict:
        """the options of the layout, as far as the decorator of this kind takes them"""
        o = self.lay.opts
        kw = {}
        if "upper" in o:
            kw["upper"] = True
        if "lock" in o and kind == "simple":
            kw["lock"] = True
        if "unprot" in o and kind in ("simple", "early", "soft"):
            kw["protected"] = False
        if "tc" in o:
            kw["time_condition"] = TC_LIMIT / 8
        return kw

    def _run_of(self, dur: int, background: bool):
        """(accept, acceptRefresh) of Model/Tags.lean `Run`, the harness's own reading of the options: time_condition accepts
        iff the body took longer than the limit; upper=True rejects what is computed after an entry was found, while the
        call is still in progress - a re-write in a background task (early / hit with background=True, dynamic) runs once the
        call has returned and its record of found entries is cleared, and is accepted"""
        accept = dur > TC_LIMIT if "tc" in self.lay.opts else True
        return accept, accept and ("upper" not in self.lay.opts or background)

    def _make_strategy_func(self, cache, full_tpl, tag_tpls, spec, ttl_fn, early_fn):
        """a function decorated with one of the re-writing strategies; its body returns a fresh token at once"""
        runner = self
        kind = spec["kind"]
        prefix = {"early": "early:v2:", "soft": "soft:", "hit": "hit:", "dynamic": "dynamic:"}[kind]
        if prefix + spec["key"] != full_tpl:
            raise HarnessError(f"layout {self.lay.name}: key template {full_tpl!r} is not {kind}'s {prefix + spec['key']!r}")

        async def fn(x):
            runner.body_ran = True
            CLOCK.advance(runner.next_dur)      # the body takes this long
            return runner.body_val

        tags = tuple(tag_tpls)
        kw = self._wrap_options(kind)
        if kind == "early":
            return cache.early(ttl=ttl_fn, early_ttl=early_fn, key=spec["key"], tags=tags, background=spec["bg"], **kw)(fn)
        if kind == "soft":
            return cache.soft(ttl=ttl_fn, soft_ttl=spec["soft"] / 8, key=spec["key"], tags=tags, **kw)(fn)
        if kind == "hit":
            # update_after=0: no update; the entry is computed anew by the call after cache_hits hits
            return cache.hit(ttl=spec["ttl"] / 8, cache_hits=spec["cache_hits"], update_after=spec["update_after"],
                             key=spec["key"], tags=tags, background=spec["bg"], **kw)(fn)
        if kind == "dynamic":
            return cache.dynamic(ttl=spec["ttl"] / 8, key=spec["key"], tags=tags, **kw)(fn)
        raise HarnessError(f"unknown decorator kind {kind}")

    async def _drain(self):
        """let the background tasks of a decorated call (early's recalculation and lock release, hit's update) finish
        before the next command: the histories are sequential"""
        loop = asyncio.get_running_loop()
        ready = getattr(loop, "_ready", None)
        if ready is None:  # pragma: no cover
            raise HarnessError("cannot see the ready queue of the event loop")
        for _ in range(60):
            if not ready:       # nothing else is runnable: the tasks the call left behind have run to their end
                return
            await asyncio.sleep(0)
        raise HarnessError("background tasks of a decorated call did not finish")

    # ---- bookkeeping of the harness's own log
    def _note_write(self, ki: int, tags: list[int]):
        self.last[ki] = list(tags)
        self.since[ki] = list(tags) + self.since[ki]
        self.ever[ki].update(tags)
        self.must_be_dead.pop(ki, None)
        self.refreshed.pop(ki, None)
        exp = self.lay.expected_key_tags(ki, self.late)
        if any(t not in exp for t in tags):
            self.registered = False

    def _note_delete(self, ki: int, how: str = "delete"):
        self.since[ki] = []
        self.removed_by[ki] = how
        self.refreshed.pop(ki, None)

    def _pre_write(self, ki: int, tags: list[int]):
        """snapshot (before a tagged write) of what the statistics need"""
        ent = self._raw(ki)
        if ent is not None and ent[0] is not None and ent[0] <= CLOCK.t:
            self._bump("write_over_expired_unpurged_key")
            if any(self._in_set(t, ki) for t in range(len(self.lay.tags))):
                self._bump("write_over_expired_unpurged_member")
        snap = []
        for t in tags:
            raw = self._raw_set(t)
            live = self._live_set(t)
            snap.append((raw is not None, None if live is None else (live[0],)))
        return snap

    def _post_write(self, snap, eff_ttl):
        """interesting states of set_add, given the TTL that the key really got (`eff_ttl`, None = none)"""
        for present, live in snap:
            if present and live is None:
                self._bump("add_to_expired_unpurged_set")
            if live is None:
                continue
            dl = live[0]
            if dl is not None and eff_ttl and CLOCK.t + eff_ttl < dl:
                self._bump("shorter_member_after_longer")       # the D20 shape
            if dl is not None and not eff_ttl:
                self._bump("ttl_less_member_after_finite")
            if dl is None and eff_ttl:
                self._bump("finite_member_into_persistent_set")
            if dl is not None and eff_ttl and CLOCK.t + eff_ttl > dl:
                self._bump("longer_member_extends_set")

    def _in_set(self, ti: int, ki: int) -> bool:
        raw = self._raw_set(ti)
        return raw is not None and self.lay.keys[ki][0] in raw[1]

    def _touch_stats(self, ki: int):
        ent = self._raw(ki)
        if ent is not None and ent[0] is not None and ent[0] <= CLOCK.t:
            if any(self._in_set(t, ki) for t in range(len(self.lay.tags))):
                self._bump("lazy_expiry_prunes_member")

    # ---- one command
    async def _exec(self, w: list[str]) -> tuple[str, str]:
        """returns (model line, canonical implementation output)"""
        lay, c = self.lay, self.cache
        op = w[0]
        line = " ".join(w)
        if op in ("get", "exists"):
            ki = int(w[1])
            self._touch_stats(ki)
            if op == "get":
                r = await c.get(lay.keys[ki][0], default=SENT)
                out = "v=" + show_val(r)
                dead = r is SENT
            else:
                r = await c.exists(lay.keys[ki][0])
                out = "T" if r is True else "F" if r is False else f"?{r!r}"
                dead = r is False
            if ki in self.must_be_dead and not dead:
                self._oracle_fail("complete", self.must_be_dead[ki], ki, f"`{line}` answered {out} after delete_tags")
            return line, out
        if op == "set":
            ki, v, ttl, cond, tags = int(w[1]), val_of(w[2]), ttl_of(w[3]), {"a": None, "nx": False, "xx": True}[w[4]], tags_of(w[5])
            if cond is not None:
                self._touch_stats(ki)
            snap = self._pre_write(ki, tags)
            r = await c.set(lay.keys[ki][0], v, expire=ttl, exist=cond, tags=[lay.tags[t] for t in tags])
            if r is True:
                self._note_write(ki, tags)
                self._post_write(snap, ttl)
            return line, ("T" if r is True else "F" if r is False else f"?{r!r}")
        if op == "incr":
            ki, by, ttl, tags = int(w[1]), int(w[2]), ttl_of(w[3]), tags_of(w[4])
            self._touch_stats(ki)
            snap = self._pre_write(ki, tags)
            try:
                r = await c.incr(lay.keys[ki][0], by, expire=ttl, tags=[lay.tags[t] for t in tags])
            except (ValueError, TypeError):
                return line, "E"
            if type(r) is not int:
                return line, f"?{r!r}"
            self._note_write(ki, tags)
            self._post_write(snap, ttl if r == 1 else None)
            if tags and r != 1:
                self._bump("tagged_incr_not_creating")          # the 8a2895c shape
                if r == 0:
                    self._bump("tagged_incr_result_zero")
            return line, f"n={r}"
        if op == "call" and (lay.fspec[int(w[2])]["kind"] != "simple" or lay.name.split("+")[0] == "strat"):
            return await self._call_strategy(w, line)
        if op == "call":
            ki, fi, ttl = int(w[1]), int(w[2]), ttl_of(w[3])
            mut = w[4] if len(w) > 4 else "-"
            self._touch_stats(ki)
            # the tags of the entry are those of the call's arguments AT CALL TIME (rendered here, before the call)
            tags = lay.func_tags(fi, ki)
            self.fresh += 1
            self.body_val = f"t{self.fresh}"
            self.body_ran = False
            self.next_ttl = ttl
            self.next_mut = mut
            snap = self._pre_write(ki, tags)
            fd = lay.keys[ki][2]
            argnames = lay.funcs[fi][2]
            args = [copy.deepcopy(fd[a]) for a in argnames]     # fresh objects: the universe is never mutated
            try:
                r = await self.funcs[fi](*args)
            finally:
                self.next_mut = "-"
            mline = f"call {ki} t:{self.fresh} {w[3]} {show_tags(tags)}"
            if self.body_ran:
                self._note_write(ki, tags)
                self._post_write(snap, ttl)
                self._bump("decorator_miss_tagged_write")
                fd_after = dict(zip(argnames, args))
                if any(isinstance(a, (list, dict)) for a in args):
                    self._bump("decorator_miss_with_mutable_argument")
                if fd_after != {a: fd[a] for a in argnames}:
                    tags_after = [fmt(tt, fd_after) for tt in lay.funcs[fi][1]]
                    if tags_after != [lay.tags[t] for t in tags]:
                        self._bump("decorator_body_mutated_argument_of_tag_template")
                        if any(t in lay.tags for t in tags_after if t not in [lay.tags[x] for x in tags]):
                            self._bump("decorator_body_mutated_argument_into_another_live_tag")
                    if fmt(lay.templates[lay.funcs[fi][0]], fd_after) != lay.keys[ki][0]:
                        self._bump("decorator_body_mutated_argument_of_key_template")
            else:
                self._bump("decorator_hit")
                if ki in self.must_be_dead:
                    self._oracle_fail("complete", self.must_be_dead[ki], ki, f"`{line}` was served from the cache ({show_val(r)}) after delete_tags")
            return mline, ("vs=" if self.body_ran else "v=") + show_val(r)
        if op == "delete":
            ki = int(w[1])
            self._touch_stats(ki)
            r = await c.delete(lay.keys[ki][0])
            self._note_delete(ki)
            return line, ("T" if r is True else "F" if r is False else f"?{r!r}")
        if op == "delmany":
            ks = [int(x) for x in w[1:]]
            if len(self.routes) > 1 and len({id(self._owner(lay.keys[k][0])) for k in ks if self._readable(k) is not None}) > 1:
                self._bump("delete_many_removes_live_keys_of_two_backends")
            for ki in ks:
                self._touch_stats(ki)
            r = await c.delete_many(*[lay.keys[ki][0] for ki in ks])
            for ki in ks:
                self._note_delete(ki, "delete_many")
            return line, ("U" if r is None else f"?{r!r}")
        if op == "delmatch":
            pi = int(w[1])
            ks = lay.match(pi)
            if len(self.routes) > 1:
                # a pattern command goes to ONE backend, the one the pattern's own prefix routes to: it sees that backend's keys only
                pat_owner = self._owner(lay.patterns[pi])
                elsewhere = [ki for ki in ks if self._owner(lay.keys[ki][0]) is not pat_owner]
                if elsewhere:
                    self._bump("delete_match_pattern_matches_keys_of_another_backend(not reached)")
                ks = [ki for ki in ks if ki not in elsewhere]
            live = [ki for ki in ks if self._readable(ki) is not None]
            for ki in ks:
                if ki not in live and self._raw(ki) is not None and any(self._in_set(t, ki) for t in range(len(lay.tags))):
                    self._bump("delete_match_skips_expired_unpurged_member")
            exact = "*" not in lay.patterns[pi]
            members = [ki for ki in live if any(self._in_set(t, ki) for t in range(len(lay.tags)))]
            if not ks:
                self._bump("delete_match_pattern_matches_nothing")
            if exact and members:
                self._bump("delete_match_wildcard_free_removes_member")
            if exact and ks and not live:
                self._bump("delete_match_wildcard_free_on_absent_or_expired_key")
            if not exact and len(members) == 1:
                self._bump("delete_match_glob_removes_one_member")
            if not exact and len(members) > 1:
                self._bump("delete_match_glob_removes_several_members")
            r = await c.delete_match(lay.patterns[pi])
            for ki in live:
                self._note_delete(ki, "delete_match_exact" if exact else "delete_match_glob")
            return "delmatch " + " ".join(map(str, ks)), ("U" if r is None else f"?{r!r}")
        if op == "deltags":
            return await self._deltags(w, line)
        if op == "reg":
            n = int(w[1])
            if n in self.late:
                return "adv 0", "U"                    # (already made: nothing happens)
            c.register_tag(*lay.late_regs[n])
            self.late.add(n)
            self._bump("late_registration")
            if any(self._raw(k) is not None or self.ever[k] for k in range(len(lay.keys)) if lay.keys[k][1] == lay.templates.index(lay.late_regs[n][1])):
                self._bump("late_registration_for_a_family_already_in_use")
            # from now on the registry has to derive the new tags from the keys of that family - whatever it answered before
            for i, (k, _, _) in enumerate(lay.keys):
                got = sorted(lay.tags.index(t) if t in lay.tags else -1 for t in c.get_key_tags(k))
                if got != lay.expected_key_tags(i, self.late):
                    return f"?keytags {i}", (f"after register_tag{lay.late_regs[n]!r}: get_key_tags({k!r}) -> {c.get_key_tags(k)!r}, expected tags "
                                              f"{[lay.tags[j] for j in lay.expected_key_tags(i, self.late)]}")
            return "reg " + lay.reg_field(self.late), "U"
        raise HarnessError(f"bad op {w}")

    async def _call_strategy(self, w, line):
        """a call of a function of the layouts strat / strat+OPTIONS (decorated with cache / early / soft / hit / dynamic, under
        the layout's wrapping options).  The model line leaves the decision (serve, re-write, compute) to the model; the
        harness's own log takes it from what happened: the body ran and the decorator's condition (the harness's own reading of
        the options, `_run_of`) accepts the result = the decorator wrote the key, with the tags rendered from this call's arguments."""
        lay = self.lay
        ki, fi = int(w[1]), int(w[2])
        spec = lay.fspec[fi]
        kind = spec["kind"]
        if lay.keys[ki][1] != lay.funcs[fi][0]:
            raise HarnessError(f"`{line}`: key {ki} is not a key of function {fi}")
        if kind in ("hit", "dynamic"):
            if w[3] != str(spec["ttl"]):
                raise HarnessError(f"`{line}`: the ttl of a hit function is fixed ({spec['ttl']})")
        ttl = ttl_of(w[3])
        rest = list(w[4:])
        dur = 0
        if rest and rest[-1].startswith("d="):
            dur = int(rest.pop()[2:])
        if dur and self.cfg["purge"]:
            raise HarnessError(f"`{line}`: bodies that take time are not run with the purge task on")
        early = int(rest[0]) if kind == "early" else None
        if kind == "early" and early < 1:
            raise HarnessError(f"`{line}`: early_ttl must be positive")
        self._touch_stats(ki)
        tags = lay.func_tags(fi, ki)
        side = lay.side_key(fi, ki)
        self.fresh += 1
        self.body_val = f"t{self.fresh}"
        self.body_ran = False
        self.next_ttl = ttl
        self.next_early = None if early is None else early / 8
        self.next_dur = dur
        snap = self._pre_write(ki, tags)
        prev = self._readable(ki)
        sets_before = {}
        for t in tags:
            ls = self._live_set(t)
            sets_before[t] = "absent" if ls is None else ls[0]
        t0 = CLOCK.t
        try:
            r = await self.funcs[fi](lay.keys[ki][2]["x"])
            await self._drain()
        finally:
            self.next_dur = 0
        ran = self.body_ran
        if CLOCK.t != t0 + (dur / 8 if ran else 0):
            raise HarnessError(f"the virtual clock moved by {(CLOCK.t - t0) * 8} ticks during `{line}`")
        served = (not ran) or r != self.body_val
        # what is compared with the model: served without running the body -> the cached value; body ran -> `vs=`.  Which
        # value a call that RE-WRITES returns (the entry it found or the fresh result) is the strategy's business, not
        # C12's, and whether the result was stored shows in the probes that follow: `compare` takes `vs=...` for `vs=...`.
        out = ("v=" + show_val(r)) if not ran else ("vs=" + show_val(self.body_val))
        accept, accept_refresh = self._run_of(dur, bool(spec.get("bg")))
        run = f"{dur} {int(accept)} {int(accept_refresh)}"
        tg = show_tags(tags)
        if kind == "simple":
            mline = f"scall {ki} t:{self.fresh} {w[3]} {tg} {run}"
        elif kind == "early":
            mline = f"early {ki} {side} {self.fresh} {w[3]} {early} {tg} {run}"
        elif kind == "soft":
            mline = f"soft {ki} {self.fresh} {w[3]} {spec['soft']} {tg} {run}"
        else:
            mline = f"hit {ki} {side} {self.fresh} {w[3]} {tg} {spec['cache_hits']} {spec['update_after']} {run}"
        # the harness's own log
        if kind in ("hit", "dynamic"):
            self._note_write(side, tags)           # the counter is incremented, with the tags, by every call
            self._bump("hit_counter_tagged_incr")
        if served and ki in self.must_be_dead:
            self._oracle_fail("complete", self.must_be_dead[ki], ki, f"`{line}` was served from the cache ({show_val(r)}) after delete_tags")
        # the path the call took, as far as the log needs it: a body that ran after an entry was found re-writes it
        # (early: the entry was readable; hit / dynamic: the call answered with it), anything else computes
        rewrites = ran and ((kind == "early" and prev is not None) or (kind in ("hit", "dynamic") and served))
        stored = ran and (accept_refresh if rewrites else accept)
        if ran and not stored:
            self._bump("time_condition_rejects_result" if not accept else "upper_rejects_rewrite_of_found_entry")
        if stored:
            for o in sorted(lay.opts):
                self._bump(f"tagged_write_through_option_{o}")
            if dur:
                self._bump("tagged_write_after_slow_body")
            if kind in ("hit", "dynamic"):
                self._note_delete(side, "decorator")   # _get_and_save drops the counter ...
            self._note_write(ki, tags)                 # ... and stores the result with the call's tags
            self._post_write(snap, ttl)
            if prev is None:
                self._bump(f"{kind}_miss_tagged_write" if kind != "simple" else "decorator_miss_tagged_write")
            else:
                self._bump("decorator_rewrites_live_entry")
                self.refreshed[ki] = {"prev_dl": prev[0], "sets": sets_before}
                if kind == "early":
                    self._bump("early_recalculation_" + ("background" if spec["bg"] else "foreground"))
                elif kind == "soft":
                    self._bump("soft_recompute_after_soft_deadline")
                elif served:
                    self._bump(f"{kind}_update_at_update_after")
                else:
                    self._bump(f"{kind}_recompute_beyond_cache_hits")
                new_dl = None if not ttl else CLOCK.t + ttl
                if prev[0] is not None and (new_dl is None or new_dl > prev[0]):
                    self._bump("rewrite_extends_key_deadline")
                if prev[0] is not None and new_dl is not None and new_dl < prev[0]:
                    self._bump("rewrite_shortens_key_deadline")
        elif not ran:
            self._bump(f"{kind}_served_from_cache" if kind != "simple" else "decorator_hit")
        return mline, out

    def _oracle_fail(self, clause: str, at: int, ki: int, what: str):
        self.oracle_failures.append({"clause": clause, "deltags_line": at, "key": ki, "key_name": self.lay.keys[ki][0], "what": what})

    async def _deltags(self, w, line):
        lay = self.lay
        tl = [int(x) for x in w[1:]]
        n = len(lay.keys)
        at = len(self.eff)
        die = [k for k in range(n) if any(t in self.last[k] for t in tl)]
        stay = [k for k in range(n) if all(t not in self.since[k] for t in tl)]
        before = [self._raw(k) for k in range(n)]
        readable_before = [self._readable(k) is not None for k in range(n)]
        # interesting states, measured on the state the command starts from
        for t in tl:
            s = self._live_set(t)
            if s is not None and len(s[1]) > BATCH:
                self._bump("deltags_more_than_100_members")
            if s is not None and len(s[1]) == BATCH:
                self._bump("deltags_exactly_100_members")
            carriers = [k for k in range(n) if t in self.last[k] and readable_before[k]]
            if carriers and s is None:
                self._bump("SET_GONE_WHILE_MEMBER_ALIVE")
            if carriers and s is not None:
                dead_members = [k for k in range(n) if lay.keys[k][0] in s[1] and not readable_before[k]]
                if dead_members:
                    self._bump("deltags_live_and_expired_members_mixed")
                if s[0] is None and any(before[k][0] is not None for k in carriers):
                    self._bump("deltags_persistent_set_finite_member")
            if carriers and len({tuple(self.last[k]) for k in carriers}) > 1:
                self._bump("deltags_members_with_different_tag_lists")
            for k in carriers:
                rf = self.refreshed.get(k)
                if rf is None:
                    continue
                self._bump("deltags_removes_key_rewritten_by_decorator")
                if rf["prev_dl"] is not None and rf["prev_dl"] <= CLOCK.t:
                    # the entry the decorator replaced would be gone by now: the key lives on the re-write's deadline
                    self._bump("deltags_after_original_deadline_of_rewritten_key")
                    sd = rf["sets"].get(t)
                    if sd == "absent" or (sd is not None and sd <= CLOCK.t):
                        # ... and so would the tag set, had the re-write not added the key again (or a later add)
                        self._bump("deltags_tag_set_outlived_its_deadline_before_the_rewrite")
        if any(readable_before[k] and k in die for k in range(n)):
            self._bump("deltags_removes_live_key")
        if len(self.routes) > 1:
            owners = {id(self._owner(lay.keys[k][0])) for k in die if readable_before[k]}
            if len(owners) > 1:
                self._bump("deltags_removes_live_keys_of_two_backends")
        recreated = [k for k in stay if readable_before[k] and any(t in self.ever[k] for t in tl)]
        if recreated:
            self._bump("deltags_spares_key_recreated_without_tag")
        for how in {self.removed_by[k] for k in recreated if self.removed_by[k]}:
            self._bump("deltags_spares_key_recreated_after_" + how)
        if any(readable_before[k] and k in stay and self.last[k] for k in range(n)):
            self._bump("deltags_spares_key_with_other_tags")
        r = await self.cache.delete_tags(*[lay.tags[t] for t in tl])
        out = "U" if r is None else f"?{r!r}"
        self.oracle_sets.append((at, die, stay))
        if not self.registered:
            self._bump("unregistered_tag_used(not judged)")
        for k in die:
            if self._readable(k) is not None:
                self._oracle_fail("complete", at, k, f"`{line}`: key {lay.keys[k][0]!r} whose latest write carried one of the tags is still readable")
            else:
                self.must_be_dead[k] = at
        for k in stay:
            if self._raw(k) != before[k] and self.registered:
                self._oracle_fail("precise", at, k, f"`{line}`: key {lay.keys[k][0]!r} never carried the tags (or was deleted and re-created without them) but was touched: {before[k]!r} -> {self._raw(k)!r}")
            elif self._raw(k) != before[k]:
                self.notes.append(f"D21 (unregistered tag): `{line}` removed {lay.keys[k][0]!r}")
        for k in range(n):
            if before[k] is not None and self._raw(k) is None:
                self._note_delete(k, "delete_tags")     # removed by delete_tags = explicitly deleted
        return line, out

    # ---- whole history
    async def run(self, ops: list[str]):
        await self._setup()
        for line in ops:
            w = line.split()
            if w[0] == "adv":
                dt = int(w[1])
                if not self.cfg["purge"]:
                    CLOCK.advance(dt)
                    self.eff.append((line, "U"))
                    continue
                start = CLOCK.t
                self.sweeps.clear()
                await vtime.vsleep(dt)
                for _ in range(6):      # a sweep falling due exactly now runs here, not inside a later command
                    await asyncio.sleep(0)
                cur = start
                for s in self.sweeps:
                    self.eff.append((f"adv {round((s - cur) * 8)}", "U"))
                    self.eff.append(("purge", "U"))
                    cur = s
                self.eff.append((f"adv {round((CLOCK.t - cur) * 8)}", "U"))
                if self.sweeps:
                    self._bump("purge_sweeps_spliced")
                self.sweeps.clear()
                if round((CLOCK.t - start) * 8) != dt:
                    self.eff.append(("?clock", f"slept {dt} ticks but clock moved {(CLOCK.t - start) * 8}"))
                continue
            loop = asyncio.get_running_loop()
            if hasattr(loop, "_spin"):
                loop._spin = 0      # a command is not a sleep(0) spin: the virtual loop must not let a tick pass for it
            t_before = CLOCK.t
            try:
                mline, out = await self._exec(w)
            except HarnessError:
                raise
            except Exception as exc:  # an exception the model does not know is itself a disagreement
                mline, out = line, f"X:{type(exc).__name__}:{exc}"[:120]
            if CLOCK.t != t_before and not (w[0] == "call" and w[-1].startswith("d=")):
                raise HarnessError(f"the virtual clock moved during `{line}`")
            self.eff.append((mline, out))
        # which backend physically holds the tag sets (glue: prefix routing of '_tag:')
        data_has_sets = any(isinstance(k, str) and k.startswith("_tag:") for _, b in self.routes for k in b.store)
        for prefix, b in self.routes:
            stray = [k for k in b.store if isinstance(k, str) and not k.startswith("_tag:") and self._owner(k) is not b]
            if stray:
                self.eff.append(("?routing", f"keys {stray[:3]} found in the backend of prefix {prefix!r}, which does not own them"))
        if self.cfg["tags_url"] and data_has_sets:
            self.eff.append(("?routing", "tag sets found in the data backend although a tags backend is set up"))
        await self.cache.close()
        return self.eff


def execute(cfg: str, layout: Layout, ops: list[str]) -> Runner:
    r = Runner(cfg, layout)
    vtime.run(r.run, ops)
    return r


def prefix_middleware_probe():
    """tags through a key-renaming middleware (cashews/helpers.py add_prefix): the commands the tag wrapper issues with a
    positional key (set_add) and with a keyword key (set_pop) must address the same tag set, or delete_tags never finds
    the members.  Returns None if a tagged key is unreadable after delete_tags, else a description.  (Only completeness
    is probed: the on-remove callback reports the renamed key, which the registry does not know - pruning, hence the
    precision clause, is outside what a renaming middleware supports.)"""
    from cashews import Cache
    from cashews.helpers import add_prefix

    async def go():
        cache = Cache()
        cache.setup("mem://?size=1000&check_interval=0", middlewares=(add_prefix("P:"),))
        cache.register_tag("pt", "pk:{i}")
        await cache.init()
        await cache.set("pk:A", "t1", expire=100, tags=["pt"])
        await cache.incr("pk:B", 1, tags=["pt"])
        await cache.delete_tags("pt")
        got = [await cache.get("pk:A", default=None), await cache.get("pk:B", default=None)]
        await cache.close()
        return got

    got = vtime.run(go)
    if got != [None, None]:
        return {"middleware": "add_prefix('P:')", "ops": ["set pk:A t1 ttl=100 tags=[pt]", "incr pk:B tags=[pt]", "delete_tags pt", "get pk:A", "get pk:B"],
                "observed": [repr(x) for x in got], "expected": ["None", "None"]}
    return None


def not_judged_probes() -> dict:
    """two behaviours reported against C12 that lie outside its alphabet (expire(), transactions): run once per check and
    recorded as observations, never judged.  True = the key survived delete_tags."""
    from cashews import Cache

    async def go():
        out = {}
        cache = Cache()
        cache.setup("mem://?size=1000&check_interval=0")
        cache.register_tag("t", "k")
        await cache.init()
        await cache.set("k", 1, expire=10, tags=["t"])
        await cache.expire("k", 100)          # moves the key's deadline, not the tag set's
        CLOCK.advance(160)
        await cache.delete_tags("t")
        out["expire_moves_key_past_its_tag_set_then_delete_tags_misses_it"] = await cache.get("k") is not None
        await cache.close()
        cache = Cache()
        cache.setup("mem://?size=1000&check_interval=0")
        cache.register_tag("t", "k")
        await cache.init()
        await cache.set("k", 1, tags=["t"])
        try:
            async with cache.transaction() as tx:
                await cache.delete_tags("t")  # set_pop is not buffered by the transaction: the membership is gone for good
                await tx.rollback()
            await cache.delete_tags("t")
            out["delete_tags_in_rolled_back_transaction_loses_membership"] = await cache.get("k") is not None
        except Exception as exc:  # noqa: BLE001
            out["delete_tags_in_rolled_back_transaction_loses_membership"] = f"X:{type(exc).__name__}"
        await cache.close()
        cache = Cache()
        cache.setup("mem://?size=1000&check_interval=0")
        await cache.init()
        await cache.set("a:1", 1, tags=["tag:1"])
        await cache.set("b:2", 2, tags=["tag:1"])
        await cache.delete_match("*:1")       # also matches the internal key '_tag:tag:1': the tag set is deleted
        await cache.delete_tags("tag:1")
        out["delete_match_pattern_reaching_the_reserved_tag_namespace_deletes_the_tag_set"] = await cache.get("b:2") is not None
        await cache.close()
        return out

    return vtime.run(go)


def disabled_incr_probe():
    """a tagged incr while the INCR command is disabled answers None and writes nothing: it must not file the key under the
    tags either (`set` is guarded by `if _set and tags`).  Otherwise a key that never carried the tag - written later, without
    tags - is deleted by delete_tags.  Returns None if the later key survives, else a description."""
    from cashews import Cache, Command

    async def go():
        cache = Cache()
        cache.setup("mem://?size=1000&check_interval=0")
        cache.register_tag("dt", "dk:{i}")
        await cache.init()
        cache.disable(Command.INCR)
        r = await cache.incr("dk:1", tags=["dt"])
        cache.enable(Command.INCR)
        await cache.set("dk:1", 5)
        await cache.delete_tags("dt")
        got = await cache.get("dk:1", default=None)
        await cache.close()
        return r, got

    r, got = vtime.run(go)
    if r is not None:
        raise HarnessError(f"a disabled incr answered {r!r}")
    if got != 5:
        return {"ops": ["disable INCR", "incr dk:1 tags=[dt] -> None", "enable INCR", "set dk:1 5 (no tags)", "delete_tags dt", "get dk:1"],
                "observed": repr(got), "expected": "5"}
    return None


def negative_cache_probe():
    """negative caching: a decorator whose `condition` returns the exception instance stores the failure (RaiseException) under
    the key - a write made by a decorator declaring tags=[t], so delete_tags(t) must remove it (round 7, C12-19: that branch of
    the simple @cache wrote without the tags).  For @cache / @early / @hit: a raising call, a second call (must be served from
    the stored failure), delete_tags, then no key of the function may be left and the next call must run the body again.
    Real code only; returns None or a description of the first decorator that keeps the failure readable."""
    from cashews import Cache

    async def go():
        out = []
        for kind in ("cache", "early", "hit"):
            cache = Cache()
            cache.setup("mem://?size=1000&check_interval=0")
            await cache.init()
            kw = {"ttl": 100, "key": "nk:{x}", "tags": ["nt"],
                  "condition": lambda result, args, kwargs, key=None: result if isinstance(result, Exception) else True}
            if kind == "early":
                kw["early_ttl"] = 50
            if kind == "hit":
                kw["cache_hits"] = 5
            ran = []

            @getattr(cache, kind)(**kw)
            async def fn(x):
                ran.append(x)
                raise ValueError(x)

            for _ in range(3):
                try:
                    await fn(1)
                except ValueError:
                    pass
            stored = len(ran) == 1
            await cache.delete_tags("nt")
            left = sorted([k async for k in cache.scan("*nk:1*")])
            try:
                await fn(1)
            except ValueError:
                pass
            out.append({"decorator": kind, "failure_was_stored": stored, "keys_left_after_delete_tags": left, "body_ran_again": len(ran) == 2})
            await cache.close()
        return out

    res = vtime.run(go)
    for r in res:
        if not r["failure_was_stored"]:
            raise HarnessError(f"negative caching probe: @{r['decorator']} did not store the failure ({r})")
        if r["keys_left_after_delete_tags"] or not r["body_ran_again"]:
            return {"ops": [f"@{r['decorator']}(ttl=100, key='nk:{{x}}', tags=['nt'], condition=<returns the exception>) on a body that raises",
                            "fn(1) x3 (one execution, the failure is stored)", "delete_tags nt", "scan *nk:1*", "fn(1)"],
                    "observed": r, "expected": "no key left, the body runs again"}
    return None


def batch_literal() -> int:
    """the `count=` literal of `_delete_tag`, read from the source the check runs against"""
    import ast
    import inspect

    from cashews.wrapper import tags as tagsmod

    tree = ast.parse(inspect.getsource(tagsmod))
    for node in ast.walk(tree):
        if isinstance(node, ast.Call) and getattr(node.func, "attr", "") == "set_pop":
            for kw in node.keywords:
                if kw.arg == "count" and isinstance(kw.value, ast.Constant):
                    return int(kw.value.value)
    return BATCH


# ------------------------------------------------------------------------------------------------
# generator

TTLS = ["-", "-", "0", "8", "8", "16", "24", "800", "800"]
ADVS = [0, 1, 4, 8, 8, 9, 16, 16, 17, 24, 40, 800]
VALS = ["i:0", "i:1", "i:2", "i:5", "t:1", "t:2", "t:3"]


def gen_tags(rng, lay: Layout, ki: int, registered_only: bool) -> str:
    exp = lay.expected_key_tags(ki)
    pool = exp if registered_only else list(range(len(lay.tags)))
    if not pool or rng.random() < 0.25:
        return "-"
    n = rng.choice([1, 1, 1, 2, 2, 3])
    return show_tags([rng.choice(pool) for _ in range(n)] if rng.random() < 0.1 else rng.sample(pool, min(n, len(pool))))


def gen_call(rng, lay: Layout, ki: int, fi: int, ttl: str) -> str:
    """a decorated call; when the function has a mutable argument its body mutates it in place in about half of the calls"""
    menu = []
    for a in lay.funcs[fi][2]:
        menu += mutations_for(lay.keys[ki][2][a])
    if menu and rng.random() < 0.55:
        return f"call {ki} {fi} {ttl} {rng.choice(menu)}"
    return f"call {ki} {fi} {ttl}"


def gen_pattern(rng, lay: Layout) -> int:
    """glob patterns (matching one / several / no universe keys), wildcard-free patterns (one exact key), no match"""
    x = rng.random()
    if x < 0.5 or not lay.exact_of:
        return rng.randrange(lay.nglob)
    if x < 0.88:
        return rng.choice(sorted(lay.exact_of.values()))
    return rng.choice(lay.nomatch)


def _noise(rng, lay: Layout, avoid_write: int, avoid_tags: list[int]) -> list[str]:
    """0..2 commands that neither write key `avoid_write` nor delete the tags `avoid_tags`"""
    nk = len(lay.keys)
    out = []
    for _ in range(rng.choice([0, 0, 1, 1, 2])):
        c = rng.choice(["get", "exists", "adv", "adv0", "set_other", "delmatch_none", "deltags_other", "get"])
        other = [k for k in range(nk) if k != avoid_write]
        if c == "get":
            out.append(f"get {rng.randrange(nk)}")
        elif c == "exists":
            out.append(f"exists {rng.randrange(nk)}")
        elif c == "adv":
            out.append(f"adv {rng.choice([1, 4, 8, 9])}")
        elif c == "adv0":
            out.append("adv 0")
        elif c == "set_other" and other:
            ko = rng.choice(other)
            out.append(f"set {ko} {rng.choice(VALS)} {rng.choice(TTLS)} a {gen_tags(rng, lay, ko, True)}")
        elif c == "delmatch_none":
            out.append(f"delmatch {rng.choice(lay.nomatch)}")
        elif c == "deltags_other":
            ts = [t for t in range(len(lay.tags)) if t not in avoid_tags and t not in [lay.tags.index(x) for x in lay.extra_tags]]
            if ts:
                out.append(f"deltags {rng.choice(ts)}")
    return out


def gen_recreate(rng, lay: Layout) -> list[str]:
    """directed at the second precision clause: a key carries tag t, is explicitly removed by ONE of the removal
    paths (delete, delete_many, delete_match with a wildcard-free pattern naming it, delete_match with a glob,
    delete_tags of another tag it carries), is written again without t, then delete_tags(t): every removal path has
    to prune the key from its tag sets.  Other keys carry t too (they must go), noise in between."""
    nk = len(lay.keys)
    cands = [k for k in range(nk) if lay.expected_key_tags(k)]
    ki = rng.choice(cands)
    exp = lay.expected_key_tags(ki)
    t = rng.choice(exp)
    others = [x for x in exp if x != t]
    carried = [t] + (rng.sample(others, rng.randint(0, len(others))) if others else [])
    rng.shuffle(carried)
    ops = []
    # companions under the same tag
    for ko in rng.sample([k for k in range(nk) if k != ki and t in lay.expected_key_tags(k)],
                         min(rng.randint(0, 2), len([k for k in range(nk) if k != ki and t in lay.expected_key_tags(k)]))):
        ops.append(f"set {ko} {rng.choice(VALS)} {rng.choice(['-', '800', '24'])} a {show_tags([t])}")
    fs = [fi for fi in lay.funcs_for_key(ki) if t in lay.func_tags(fi, ki)]
    ttl = rng.choice(["-", "-", "800", "24", "16"])
    w = rng.random()
    if fs and w < 0.35:
        fi = rng.choice(fs)
        carried = lay.func_tags(fi, ki)
        ops.append(gen_call(rng, lay, ki, fi, ttl if ttl != "-" else "800"))
    elif w < 0.5:
        ops.append(f"incr {ki} 1 {ttl} {show_tags(carried)}")
    else:
        ops.append(f"set {ki} {rng.choice(VALS)} {ttl} a {show_tags(carried)}")
    ops += _noise(rng, lay, ki, carried)
    paths = ["delete", "delmany", "exact", "exact", "exact", "glob", "glob"]
    if [x for x in carried if x != t]:
        paths += ["deltags_other", "deltags_other"]
    how = rng.choice(paths)
    if how == "delete":
        ops.append(f"delete {ki}")
    elif how == "delmany":
        ks = [ki] + [rng.randrange(nk) for _ in range(rng.randint(0, 2))]
        rng.shuffle(ks)
        ops.append("delmany " + " ".join(map(str, ks)))
    elif how == "exact" and ki in lay.exact_of:
        ops.append(f"delmatch {lay.exact_of[ki]}")
    elif how == "glob" and lay.wild_patterns_for(ki):
        ops.append(f"delmatch {rng.choice(lay.wild_patterns_for(ki))}")
    elif how == "deltags_other":
        ops.append(f"deltags {rng.choice([x for x in carried if x != t])}")
    else:
        ops.append(f"delete {ki}")
    ops += _noise(rng, lay, ki, [t])
    # written again without t
    new_tags = [x for x in exp if x != t]
    nt = rng.sample(new_tags, rng.randint(0, len(new_tags))) if new_tags and rng.random() < 0.4 else []
    w = rng.random()
    fs2 = [fi for fi in lay.funcs_for_key(ki) if t not in lay.func_tags(fi, ki)]
    if fs2 and w < 0.25:
        ops.append(gen_call(rng, lay, ki, rng.choice(fs2), "800"))
    elif w < 0.4:
        ops.append(f"incr {ki} {rng.choice([1, 2])} {rng.choice(['-', '800'])} {show_tags(nt)}")
    elif w < 0.5:
        ops.append(f"set {ki} {rng.choice(VALS)} {rng.choice(['-', '800'])} nx {show_tags(nt)}")
    else:
        ops.append(f"set {ki} {rng.choice(VALS)} {rng.choice(['-', '800', '24'])} a {show_tags(nt)}")
    ops += _noise(rng, lay, ki, [t])
    ops.append(f"deltags {t}")
    order = list(range(nk))
    rng.shuffle(order)
    ops += [f"{rng.choice(['get', 'get', 'exists'])} {k}" for k in order]
    return ops


def gen_mutcall(rng, lay: Layout) -> list[str]:
    """directed at tags attached by a decorator whose function changes its arguments: a few decorated calls (bodies
    mutating their list / dict argument in place, and non-mutating controls), maybe hits and noise, then
    delete_tags of a tag rendered from some call's arguments as the caller passed them, then probes (get and a
    further call: a removed entry has to be recomputed)."""
    nk = len(lay.keys)
    ops = []
    called = []
    for _ in range(rng.randint(1, 3)):
        ki = rng.randrange(nk)
        fs = lay.funcs_for_key(ki)
        if not fs:
            continue
        fi = rng.choice(fs)
        ops.append(gen_call(rng, lay, ki, fi, rng.choice(["800", "800", "24", "16"])))
        called.append((ki, fi))
        if rng.random() < 0.3:
            ops.append(gen_call(rng, lay, ki, rng.choice(fs), "800"))      # usually a hit
        ops += _noise(rng, lay, ki, list(range(len(lay.tags))))
    if not called:
        return gen_history(rng, lay, 10)
    ki, fi = rng.choice(called)
    tags = lay.func_tags(fi, ki)
    templated = [t for t, tt in zip(tags, lay.funcs[fi][1]) if "{" in tt]
    t = rng.choice(templated) if templated and rng.random() < 0.8 else rng.choice(tags)
    ops.append(f"deltags {t}")
    order = list(range(nk))
    rng.shuffle(order)
    ops += [f"get {k}" for k in order]
    if rng.random() < 0.6:
        ops.append(gen_call(rng, lay, ki, fi, "800"))
        ops.append(f"get {ki}")
    return ops


def gen_history(rng, lay: Layout, maxlen: int, registered_only: bool = True) -> list[str]:
    n = rng.randint(2, maxlen)
    nk = len(lay.keys)
    nt = len(lay.tags)
    ops: list[str] = []
    table = [("set", 26), ("setc", 6), ("incr", 12), ("call", 14 if lay.funcs else 0), ("get", 6), ("exists", 3),
             ("delete", 6), ("delmany", 2), ("delmatch", 4), ("adv", 18), ("deltags", 12)]
    names, ws = zip(*table)
    k = lambda: rng.randrange(nk)
    for _ in range(n):
        op = rng.choices(names, ws)[0]
        if op == "set":
            ki = k()
            ops.append(f"set {ki} {rng.choice(VALS)} {rng.choice(TTLS)} a {gen_tags(rng, lay, ki, registered_only)}")
        elif op == "setc":
            ki = k()
            ops.append(f"set {ki} {rng.choice(VALS)} {rng.choice(TTLS)} {rng.choice(['nx', 'xx'])} {gen_tags(rng, lay, ki, registered_only)}")
        elif op == "incr":
            ki = k()
            ops.append(f"incr {ki} {rng.choice([1, 1, 1, 1, 2, -1])} {rng.choice(TTLS)} {gen_tags(rng, lay, ki, registered_only)}")
        elif op == "call":
            ki = k()
            fs = lay.funcs_for_key(ki)
            if not fs:
                continue
            ops.append(gen_call(rng, lay, ki, rng.choice(fs), rng.choice(['8', '16', '24', '800', '800'])))
        elif op == "get":
            ops.append(f"get {k()}")
        elif op == "exists":
            ops.append(f"exists {k()}")
        elif op == "delete":
            ops.append(f"delete {k()}")
        elif op == "delmany":
            ops.append("delmany " + " ".join(str(k()) for _ in range(rng.randint(1, 3))))
        elif op == "delmatch":
            ops.append(f"delmatch {gen_pattern(rng, lay)}")
        elif op == "adv":
            ops.append(f"adv {rng.choice(ADVS)}")
        else:
            ts = rng.sample(range(nt), rng.choice([1, 1, 1, 2]) if nt > 1 else 1)
            ops.append("deltags " + " ".join(map(str, ts)))
            if rng.random() < 0.8:
                order = list(range(nk))
                rng.shuffle(order)
                for ki in order:
                    ops.append(f"{rng.choice(['get', 'get', 'exists'])} {ki}")
    return ops


# ---- the re-writing decorators (layout strat)

STRAT_TTLS = ["16", "24", "24", "40", "800", "-"]
STRAT_EARLY = [4, 8, 8, 12]
STRAT_ADVS = [0, 1, 4, 5, 8, 9, 9, 12, 13, 16, 17, 24, 25, 40]


def keys_of_func(lay: Layout, fi: int) -> list[int]:
    return [ki for ki, (_, ti, _) in enumerate(lay.keys) if ti == lay.funcs[fi][0]]


STRAT_DURS = [0, 8, 9, 9, 9, 16, 16]     # ticks a body takes under time_condition (limit 8: 0 and 8 are not stored)


def gen_strat_call(rng, lay: Layout, ki: int, fi: int, ttl=None, early=None) -> str:
    """a call of function fi of a strat layout; under time_condition (`tc`) the body takes some time"""
    sp = lay.fspec[fi]
    d = f" d={rng.choice(STRAT_DURS)}" if "tc" in lay.opts else ""
    if sp["kind"] in ("hit", "dynamic"):
        return f"call {ki} {fi} {sp['ttl']}{d}"
    ttl = ttl if ttl is not None else rng.choice(STRAT_TTLS)
    if sp["kind"] == "early":
        return f"call {ki} {fi} {ttl} {early if early is not None else rng.choice(STRAT_EARLY)}{d}"
    if sp["kind"] == "simple":
        return f"call {ki} {fi} {ttl if ttl != '-' or 'lock' not in lay.opts else 800}{d}"
    return f"call {ki} {fi} {ttl}{d}"


def dur_of(opline: str) -> int:
    w = opline.split()
    return int(w[-1][2:]) if w[-1].startswith("d=") else 0


def probe_keys(lay: Layout) -> list[int]:
    return [k for k in range(len(lay.keys)) if not lay.is_lock_key(k)]


def gen_strat_history(rng, lay: Layout, maxlen: int) -> list[str]:
    """random histories over the layout strat: calls of a few decorated functions (repeated, so that their re-write
    paths are reached), time, direct tagged writes of the plain family, deletions of every kind, delete_tags + probes"""
    n = rng.randint(3, maxlen)
    nt = len(lay.tags)
    focus = []
    for _ in range(rng.randint(1, 3)):
        fi = rng.randrange(len(lay.funcs))
        focus.append((rng.choice(keys_of_func(lay, fi)), fi))
    direct = lay.direct_keys()
    pk = probe_keys(lay)
    table = [("call", 40), ("adv", 24), ("deltags", 10), ("get", 5), ("exists", 2), ("delete", 5), ("delmany", 2),
             ("delmatch", 3), ("set", 7), ("incr", 2)]
    names, ws = zip(*table)
    ops: list[str] = []
    for _ in range(n):
        op = rng.choices(names, ws)[0]
        if op == "call":
            ki, fi = rng.choice(focus)
            if lay.fspec[fi]["kind"] == "simple":
                ops.append(gen_strat_call(rng, lay, ki, fi, ttl=rng.choice(['8', '16', '24', '800'])))
            else:
                ops.append(gen_strat_call(rng, lay, ki, fi))
        elif op == "adv":
            ops.append(f"adv {rng.choice(STRAT_ADVS)}")
        elif op == "deltags":
            ts = rng.sample(range(nt), rng.choice([1, 1, 1, 2]))
            ops.append("deltags " + " ".join(map(str, ts)))
            if rng.random() < 0.8:
                order = list(pk)
                rng.shuffle(order)
                ops += [f"{rng.choice(['get', 'get', 'exists'])} {k}" for k in order]
                if rng.random() < 0.5:
                    ki, fi = rng.choice(focus)
                    ops.append(gen_strat_call(rng, lay, ki, fi, ttl=None if lay.fspec[fi]["kind"] != "simple" else 800))
        elif op == "get":
            ops.append(f"get {rng.choice(pk)}")
        elif op == "exists":
            ops.append(f"exists {rng.choice(pk)}")
        elif op == "delete":
            ops.append(f"delete {rng.choice([k for k, _ in focus] + pk)}")
        elif op == "delmany":
            ops.append("delmany " + " ".join(str(rng.choice(pk)) for _ in range(rng.randint(1, 3))))
        elif op == "delmatch":
            ops.append(f"delmatch {gen_pattern(rng, lay)}")
        elif op == "set":
            ki = rng.choice(direct)
            ops.append(f"set {ki} {rng.choice(VALS)} {rng.choice(TTLS)} a {gen_tags(rng, lay, ki, True)}")
        else:
            ki = rng.choice(direct)
            ops.append(f"incr {ki} 1 {rng.choice(TTLS)} {gen_tags(rng, lay, ki, True)}")
    return ops


def gen_refresh(rng, lay: Layout) -> list[str]:
    """directed at the re-write paths: a decorated function is called, time passes up to the point where its decorator
    writes the live entry again (early: past early_ttl, in the foreground or in the background; soft: past soft_ttl;
    hit / dynamic: update_after hits, more than cache_hits hits), maybe more than once and with another ttl; then time
    passes to around the deadlines involved - the ORIGINAL deadline of the entry (and of its tag sets as first written) and
    the deadline of the re-write -, then delete_tags of a tag of the call, probes and a further call.  Companions under
    the same tags (direct writes of the plain family, other decorated functions with the same argument) are sometimes
    there and sometimes not: without them only the re-write's own set_add keeps the tag set as long-lived as the key."""
    fi = rng.choice(lay.strategy_funcs())
    sp = lay.fspec[fi]
    kind = sp["kind"]
    ki = rng.choice(keys_of_func(lay, fi))
    if lay.opts and rng.random() < 0.25:
        return gen_simple_opt(rng, lay)
    tags = lay.func_tags(fi, ki)
    direct = lay.direct_keys()
    pk = probe_keys(lay)
    ops: list[str] = []

    def light_noise():
        out = []
        for _ in range(rng.choice([0, 0, 0, 1, 2])):
            c = rng.choice(["get", "exists", "set", "get_self", "other_call"])
            if c == "get":
                out.append(f"get {rng.choice(pk)}")
            elif c == "exists":
                out.append(f"exists {rng.choice(pk)}")
            elif c == "get_self":
                out.append(f"get {ki}")
            elif c == "set":
                ko = rng.choice(direct)
                out.append(f"set {ko} {rng.choice(VALS)} {rng.choice(['8', '16', '24', '800', '-'])} a {gen_tags(rng, lay, ko, True)}")
            else:
                fo = rng.randrange(len(lay.funcs))
                ko = rng.choice(keys_of_func(lay, fo))
                if ko != ki:
                    out.append(gen_strat_call(rng, lay, ko, fo, ttl=None if lay.fspec[fo]["kind"] != "simple" else rng.choice(['8', '24', '800'])))
        return out

    if rng.random() < 0.3:
        ops += light_noise()
    start = len(ops)

    def clock() -> int:
        """ticks since the first call began: the advances, and the time the bodies took (layouts with `tc`)"""
        return sum(int(o.split()[1]) if o.startswith("adv ") else dur_of(o) for o in ops[start:])

    now = 0
    if kind in ("early", "soft"):
        T = rng.choice([16, 24, 24, 40, 800])
        E = rng.choice(STRAT_EARLY) if kind == "early" else sp["soft"]
        ops.append(gen_strat_call(rng, lay, ki, fi, ttl=T, early=E))
        deadlines = [clock() + T]
        ops += light_noise()
        for _ in range(rng.choice([1, 1, 1, 2, 3])):
            now = clock()
            # into the window where the entry is still alive but due for its re-write (sometimes just outside)
            lo = E + (1 if kind == "early" else 0)
            hi = min(deadlines[-1] - now - 1, lo + 12)
            a = rng.randint(lo, hi) if hi >= lo and rng.random() < 0.85 else rng.choice([max(lo - 1, 0), max(deadlines[-1] - now, 0), lo])
            ops.append(f"adv {a}")
            T2 = rng.choice([T, T, 16, 24, 40, 800])
            E = rng.choice(STRAT_EARLY) if kind == "early" else sp["soft"]
            ops.append(gen_strat_call(rng, lay, ki, fi, ttl=T2, early=E))
            deadlines.append(clock() + T2)
            ops += light_noise()
        first, last = deadlines[0], deadlines[-1]
    else:
        T = sp["ttl"]
        ncalls = rng.randint(2, sp["cache_hits"] + 3)
        deadlines = []
        for i in range(ncalls):
            ops.append(gen_strat_call(rng, lay, ki, fi))
            deadlines.append(clock() + T)
            if i < ncalls - 1:
                a = rng.choice([0, 0, 1, 4, 8, 9])
                if a:
                    ops.append(f"adv {a}")
            if rng.random() < 0.2:
                ops += light_noise()
        first, last = deadlines[0], deadlines[-1]
    now = clock()
    # around the deadlines: after the original one and before the last re-write's (the interesting window), or elsewhere
    x = rng.random()
    if x < 0.6 and last - 1 >= max(first, now):
        target = rng.randint(max(first, now), last - 1)
    elif x < 0.75:
        target = rng.randint(now, max(now, first - 1))
    elif x < 0.9:
        target = rng.choice(deadlines + [first, last]) + rng.choice([-1, 0, 0, 1])
    else:
        target = last + rng.choice([0, 1, 8])
    if target > now:
        ops.append(f"adv {target - now}")
    templated = [t for t, tt in zip(tags, lay.funcs[fi][1]) if "{" in tt]
    t = rng.choice(templated) if templated and rng.random() < 0.75 else rng.choice(tags)
    ops.append(f"deltags {t}")
    order = list(pk)
    rng.shuffle(order)
    ops += [f"{rng.choice(['get', 'get', 'exists'])} {k}" for k in order]
    if rng.random() < 0.6:
        ops.append(gen_strat_call(rng, lay, ki, fi))
        ops.append(f"get {ki}")
    return ops


def gen_latereg(rng, lay: Layout) -> list[str]:
    """directed at registrations made while the cache is in use (layout late): keys of the family b are written (untagged - their
    tags are not registered yet), read, removed in one of the ways, maybe after their ttl; then `reg N` registers a tag for the
    family; a key of it is written WITH the tag, explicitly removed, re-created without it; delete_tags of the tag must spare it
    (and remove the companions that carry it)."""
    nk = len(lay.keys)
    bkeys = [k for k in range(nk) if lay.keys[k][1] == 1]
    akeys = [k for k in range(nk) if lay.keys[k][1] == 0]
    kb = rng.choice(bkeys)
    n = rng.randrange(len(lay.late_regs))
    ops = []
    late = set()
    for _ in range(rng.randint(0, 3)):      # the family is in use before its tag is registered
        k = rng.choice(bkeys + [kb, kb])
        ops.append(rng.choice([f"set {k} {rng.choice(VALS)} {rng.choice(['-', '8', '800'])} a -", f"get {k}", f"delete {k}", f"exists {k}",
                               f"adv {rng.choice([1, 9, 17])}", f"delmatch {rng.choice(lay.wild_patterns_for(k))}", f"delmany {k} {rng.choice(akeys)}"]))
    if rng.random() < 0.3:
        m = rng.randrange(len(lay.late_regs))
        ops.append(f"reg {m}")
        late.add(m)
    for ko in rng.sample(akeys, rng.randint(0, 2)):
        ops.append(f"set {ko} {rng.choice(VALS)} {rng.choice(['-', '800'])} a {show_tags(rng.sample(lay.expected_key_tags(ko), 1))}")
    ops.append(f"reg {n}")
    late.add(n)
    t = [x for x in lay.expected_key_tags(kb, late) if x not in lay.expected_key_tags(kb, late - {n})][0]
    carried = [t] + [x for x in lay.expected_key_tags(kb, late) if x != t and rng.random() < 0.4]
    ops.append(f"set {kb} {rng.choice(VALS)} {rng.choice(['-', '800', '24'])} a {show_tags(carried)}" if rng.random() < 0.8 else f"incr {kb} 1 - {show_tags(carried)}")
    if rng.random() < 0.3:
        ops.append(f"get {rng.randrange(nk)}")
    how = rng.choice(["delete", "delete", "delmany", "exact", "glob"])
    if how == "delete":
        ops.append(f"delete {kb}")
    elif how == "delmany":
        ops.append(f"delmany {rng.choice(akeys)} {kb}")
    elif how == "exact":
        ops.append(f"delmatch {lay.exact_of[kb]}")
    else:
        ops.append(f"delmatch {rng.choice(lay.wild_patterns_for(kb))}")
    if rng.random() < 0.3:
        m = rng.randrange(len(lay.late_regs))
        ops.append(f"reg {m}")
    ops.append(f"set {kb} {rng.choice(VALS)} {rng.choice(['-', '800'])} a -")
    ops.append(f"deltags {t}")
    order = list(range(nk))
    rng.shuffle(order)
    ops += [f"get {k}" for k in order]
    return ops


def gen_simple_opt(rng, lay: Layout) -> list[str]:
    """directed at the wrapping options on the simple @cache (upper / lock / unprotected / time_condition): a few calls (misses
    that store under the call's tags, hits, under `tc` also fast bodies whose result is not stored), time, delete_tags of
    a tag of a call, probes and a further call"""
    fs = [fi for fi, sp in enumerate(lay.fspec) if sp["kind"] == "simple"]
    pk = probe_keys(lay)
    ops, called = [], []
    for _ in range(rng.randint(1, 3)):
        fi = rng.choice(fs)
        ki = rng.choice(keys_of_func(lay, fi))
        ops.append(gen_strat_call(rng, lay, ki, fi, ttl=rng.choice(["16", "24", "800", "800"])))
        called.append((ki, fi))
        if rng.random() < 0.4:
            ops.append(f"adv {rng.choice([0, 1, 8, 9, 17])}")
        if rng.random() < 0.3:
            ops.append(gen_strat_call(rng, lay, ki, fi, ttl="800"))
    ki, fi = rng.choice(called)
    ops.append(f"deltags {rng.choice(lay.func_tags(fi, ki))}")
    order = list(pk)
    rng.shuffle(order)
    ops += [f"get {k}" for k in order]
    if rng.random() < 0.6:
        ops.append(gen_strat_call(rng, lay, ki, fi, ttl="800"))
        ops.append(f"get {ki}")
    return ops


def exhaustive_refresh_cases(lay: Layout, maxlen: int):
    """third enumerated sub-space, on the decorators' re-writes: every history of 1..maxlen commands over calls of an early
    function (foreground recalculation; ttl 3 s, early_ttl 1 s) and a soft function (ttl 3 s, soft_ttl 1 s) with the same
    argument, a short-lived direct write under the same tag and time advances that land inside / outside the re-write
    windows; each followed by delete_tags of the per-argument tag and probes of the three keys"""
    fe = next(fi for fi, sp in enumerate(lay.fspec) if sp["kind"] == "early" and not sp["bg"])
    fs = next(fi for fi, sp in enumerate(lay.fspec) if sp["kind"] == "soft")
    ke, ks = keys_of_func(lay, fe)[0], keys_of_func(lay, fs)[0]
    kp = lay.direct_keys()[0]
    tg = lay.func_tags(fe, ke)[0]
    if tg not in lay.func_tags(fs, ks) or tg not in lay.expected_key_tags(kp):
        raise HarnessError("layout strat: the enumerated keys do not share their per-argument tag")
    alphabet = [f"call {ke} {fe} 24 8", f"call {ks} {fs} 24", "adv 9", "adv 16", f"set {kp} t:1 8 a {tg}"]
    tail = [f"deltags {tg}", f"get {ke}", f"get {ks}", f"get {kp}"]
    out = []

    def rec(prefix, depth):
        if prefix:
            out.append(list(prefix) + tail)
        if depth == 0:
            return
        for a in alphabet:
            prefix.append(a)
            rec(prefix, depth - 1)
            prefix.pop()

    rec([], maxlen)
    return out, len(alphabet)


def gen_big(rng, lay: Layout) -> list[str]:
    """more than 100 members under one tag: batching of `_delete_tag`"""
    nb = len([1 for k in lay.keys if k[1] == 0])
    ops = []
    big, odd = lay.tags.index("big"), lay.tags.index("odd")
    order = list(range(nb))
    rng.shuffle(order)
    members = order[: rng.choice([nb, nb, nb - 1, max(1, nb - 7)])]
    for ki in members:
        tags = [big] + ([odd] if rng.random() < 0.3 else [])
        ops.append(f"set {ki} t:{ki % 7} {rng.choice(['-', '800', '800', '16', '8'])} a {show_tags(tags)}")
        if rng.random() < 0.03:
            ops.append(f"adv {rng.choice([1, 4, 8])}")
    for ki in range(nb, len(lay.keys)):
        if rng.random() < 0.2:
            ops.append(f"set {ki} t:1 - a {odd}")
    for _ in range(rng.randint(0, 6)):
        ops.append(rng.choice([f"delete {rng.choice(members)}", f"adv {rng.choice([8, 9, 16])}", "delmatch 0",
                               f"set {rng.choice(members)} t:9 - a -", f"incr {rng.randrange(nb)} 1 8 {big}"]))
    ops.append(f"deltags {big}" if rng.random() < 0.8 else f"deltags {odd} {big}")
    for ki in range(len(lay.keys)):
        ops.append(f"get {ki}")
    return ops
