"""C13 helpers: pattern-command cases on the real code (Memory, Cache facade, transactions, invalidate),
protocol lines for lean/Drivers/C13.lean, generators and an independent Python glob.

A *case* is a JSON-able dict

  kind     "mem" (Memory directly) | "facade" | "facade_secret" (Cache().setup("mem://...")) | "tx" | "invalidate"
  keys     [[text, ttl_ticks|None, valtok], ...]   the store, written in this order at virtual time 0
  adv      ticks the clock is advanced afterwards (entries whose ttl <= adv are expired and NOT purged)
  cmd      "scan" | "get_match" | "delete_match"
  pattern  text
  mode     "fast"|"locked"|"serializable"        (tx; optional for invalidate = call inside a transaction)
  txops    [["set", text, valtok, ttl|None] | ["del", text] | ["delmatch"|"scan"|"getmatch", pattern|None], ...]
           commands issued inside the transaction before the judged pattern command: writes AND earlier pattern commands
           (pattern None = the case's own pattern, so "the identical pattern again" survives shrinking of the pattern)
  txadv    ticks advanced inside the transaction before the pattern command (crosses no deadline)
  template [["lit", text] | ["arg", name], ...], args {name: text}   (invalidate; pattern = the substitution)
  access   {name: "sub" | "attr" | "subattr"}   (invalidate, optional) how the template reaches the text of an argument: `{x[k]}` with the
           argument passed as {"k": text}, `{x.a}` with an object whose attribute a is the text, `{x[k].a}` with {"k": object}
  txops may also hold ["delm", text] - `delete_many(text)` instead of `delete(text)` (the model's pending delete all the same);
  crossing True: `txadv` lets a ttl ASSIGNED INSIDE the transaction elapse before the judged read (scan / get_match only).  The C03/C04
           proviso excludes that for the comparison with direct execution and with the commit (there the store's old value shows through
           again - documented); the selection inside the transaction is still judged against the model and the glob spec on the
           transaction's view (an expired buffered write does not hide the store's key).
  warm     [["scan"|"get_match", "outside"|"tx"], ...]   (tx / invalidate-in-a-transaction, optional) pattern reads issued on the SAME Cache object
           before the judged transaction: outside any transaction, or inside an earlier transaction that is committed empty

  kind "iter": an iteration consumed STEP BY STEP with other commands between two steps (never raising must hold for such consumers too):
  entry    "mem" | "facade" | "facade_secret";  size  None | n (the store's `size`: a full store evicts on a write of a new key)
  cmd      "scan" | "get_match";  between  [[op, ...], ...]   between[i] = what the consumer does after the (i+1)-th item it was
           handed: ["del", text] | ["set", text, valtok, ttl|None] | ["get", text] | ["adv", ticks] | ["delmatch", pattern]

Key texts are mapped to model numbers by their position in the universe (store keys, then transaction keys).
Values (`valtok`): `i:<int>` Python int, `t:<n>` the string 't<n>' (n < 1000), `n` a stored `None`, `e:<c>` the other
values a pattern command must treat as plain values although they are falsy / odd (`e:s` '', `e:b` b'', `e:l` [],
`e:f` False, `e:d` {}, `e:z` 0.0, `e:u` (), `e:T` True), and - in `keys` only - `b:<n>` a bit-field object: the key is
created with `incr_bits` (a `Bitarray` kept in the same store), which `scan` lists and `delete_match` deletes like any
other key and which `get_match` skips on purpose (it is not a cached value).  Results are rendered type-strictly
(`0`, `0.0` and `False` are three different observations; `-` = "no value", which get_match must never yield).
"""
from __future__ import annotations

import itertools
import json
import re

from . import vtime
from .memhist import SENT
from .vtime import CLOCK

SMALL_ALPHABET = "a:*.+("
META = ".+()|^${}"
FULL_ALPHABET = "abc" + ":" + "*" + META          # the property's alphabet
EXTRA = "\n \t-#&~é"                               # beyond it: other re.escape specials, newline (DOTALL), non-ASCII
EXCLUDED = "?[]\\"                                 # excluded by the property statement
RESERVED = (":tx_lock", ":serializable:lock")
BIG = 1_000_000

URLS = {
    "facade": "mem://?size={size}&check_interval=0",
    "facade_secret": "mem://?size={size}&check_interval=0&secret=s3cr3t&digestmod=sha1",
}


# ------------------------------------------------------------------------------------------------
# the value alphabet

EXTRA_VALS = {"s": "", "b": b"", "l": [], "f": False, "d": {}, "z": 0.0, "u": (), "T": True}


def is_bits(tok: str) -> bool:
    return tok.startswith("b:")


def val_of(tok: str):
    """the Python value a value token stands for (a fresh object each time); not for bit fields"""
    if tok == "n":
        return None
    kind, x = tok.split(":")
    if kind == "i":
        return int(x)
    if kind == "t":
        return f"t{x}"
    if kind == "e":
        v = EXTRA_VALS[x]
        return type(v)(v) if isinstance(v, (list, dict)) else v
    raise ValueError(f"not a plain value: {tok}")


def bits_args(tok: str) -> tuple[int, int]:
    """`b:<n>` is the bit field obtained by incr_bits(key, n % 4, size=2, by=1 + n // 4)"""
    n = int(tok[2:])
    return n % 4, 1 + n // 4


def show_val(v) -> str:
    """type-strict rendering of a value that came out of the implementation"""
    if v is SENT:
        return "-"
    if v is None:
        return "n"
    t = type(v)
    if t is bool:
        return "e:T" if v else "e:f"
    if t is int:
        return f"i:{v}"
    if t is str and v.startswith("t") and v[1:].isdigit() and int(v[1:]) < 1000:
        return f"t:{v[1:]}"
    for c, w in EXTRA_VALS.items():
        if t is type(w) and t is not bool and v == w:
            return f"e:{c}"
    if t.__name__ == "Bitarray":
        return "?bitfield"
    return f"?{t.__name__}:{v!r}"


def enc(s: str) -> str:
    return "x" + ".".join(str(ord(c)) for c in s)


def dec(tok: str) -> str:
    body = tok[1:]
    return "".join(chr(int(x)) for x in body.split(".")) if body else ""


def pyglob(pat: str, key: str) -> bool:
    """independent reading of the property: '*' = any run, every other character itself (DP over positions)"""
    cur = {0}
    for p in pat:
        if p == "*":
            if not cur:
                return False
            lo = min(cur)
            cur = set(range(lo, len(key) + 1))
        else:
            cur = {i + 1 for i in cur if i < len(key) and key[i] == p}
    return len(key) in cur


def old_regex_select(pat: str, keys: list[str]):
    """what the pre-repair code (`re.compile(pattern.replace('*', '.*'))`, fullmatch) would have selected; None = it raised"""
    try:
        rx = re.compile(pat.replace("*", ".*"))
    except re.error:
        return None
    return [k for k in keys if rx.fullmatch(k)]


def all_strings(alphabet: str, maxlen: int) -> list[str]:
    out = [""]
    for n in range(1, maxlen + 1):
        out.extend("".join(t) for t in itertools.product(alphabet, repeat=n))
    return out


PATTERN_OPS = ("delmatch", "scan", "getmatch")


def universe(case: dict) -> list[str]:
    u: list[str] = []
    for k in case["keys"]:
        if k[0] not in u:
            u.append(k[0])
    for op in case.get("txops") or []:
        if op[0] not in PATTERN_OPS and op[1] not in u:
            u.append(op[1])
    for ops in case.get("between") or []:
        for op in ops:
            if op[0] in ("del", "set", "get") and op[1] not in u:
                u.append(op[1])
    return u


def op_pattern(case: dict, op) -> str:
    """the pattern of a pattern command among the txops (None = the case's own pattern)"""
    return pattern_of(case) if op[1] is None else op[1]


def all_patterns(case: dict) -> list[str]:
    return ([pattern_of(case)] + [op_pattern(case, op) for op in case.get("txops") or [] if op[0] in PATTERN_OPS]
            + [op[1] for ops in case.get("between") or [] for op in ops if op[0] == "delmatch"])


def pattern_of(case: dict) -> str:
    if case["kind"] == "invalidate":
        return "".join(seg[1] if seg[0] == "lit" else case["args"][seg[1]] for seg in case["template"])
    return case["pattern"]


ACCESSORS = {None: "", "sub": "[k]", "attr": ".a", "subattr": "[k].a"}


def template_string(case: dict) -> str:
    acc = case.get("access") or {}
    return "".join(
        seg[1].replace("{", "{{").replace("}", "}}") if seg[0] == "lit" else "{" + seg[1] + ACCESSORS[acc.get(seg[1])] + "}"
        for seg in case["template"]
    )


class _Obj:
    def __init__(self, a):
        self.a = a


def shaped(text: str, how):
    """the argument value from which the accessor `how` of the template reads `text`"""
    if how == "sub":
        return {"k": text, "other": "zz"}
    if how == "attr":
        return _Obj(text)
    if how == "subattr":
        return {"k": _Obj(text)}
    return text


def reaches_reserved(case: dict) -> bool:
    """the property's proviso: in the locking modes a pattern must not reach the ':'-prefixed lock keys the
    transaction itself writes into the store"""
    mode = case.get("mode")
    for pat in all_patterns(case):
        if mode == "locked" and any(pyglob(pat, f":tx_lock:{k}") for k in universe(case)):
            return True
        if mode == "serializable" and pyglob(pat, ":serializable:lock"):
            return True
    return False


def well_formed(case: dict) -> bool:
    texts = universe(case)
    if any(t.startswith(RESERVED) for t in texts):
        return False
    if any(c in EXCLUDED for t in texts + all_patterns(case) for c in t):
        return False
    if any(op[0] == "set" and is_bits(op[2]) for op in case.get("txops") or []):
        return False        # a transaction cannot buffer a bit field (incr_bits is proxied to the backend)
    return not reaches_reserved(case)


def canon(case: dict) -> str:
    return json.dumps(case, sort_keys=True, ensure_ascii=True)


# ------------------------------------------------------------------------------------------------
# model side

def between_lines(case: dict, i: int, idx: dict) -> list[str]:
    out = []
    ops = case.get("between") or []
    for op in ops[i] if i < len(ops) else []:
        if op[0] == "del":
            out.append(f"mdel {idx[op[1]]}")
        elif op[0] == "set":
            out.append(f"mset {idx[op[1]]} {op[2]} {'-' if op[3] is None else op[3]}")
        elif op[0] == "get":
            out.append(f"mget {idx[op[1]]}")
        elif op[0] == "adv":
            out.append(f"madv {op[1]}")
        else:
            out.append(f"delmatch {enc(op[1])}")
    return out


def model_lines(case: dict, obs: dict | None = None) -> list[str]:
    u = universe(case)
    idx = {t: i for i, t in enumerate(u)}
    lines = ["univ " + " ".join(enc(t) for t in u)]
    if case["kind"] == "iter":
        # the same sequence the consumer executed: step, what it did after the item, step, ... (`obs["steps"]`)
        if case.get("size"):
            lines.append(f"cap {case['size']}")
        seen = {}
        for text, ttl, val in case["keys"]:
            seen[text] = f"{idx[text]}/{'-' if ttl is None else ttl}/{val}"
        lines.append(f"store {case.get('adv', 0)} " + " ".join(seen.values()))
        lines.append(f"itstart {'scan' if case['cmd'] == 'scan' else 'getmatch'} {enc(case['pattern'])}")
        for i, item in enumerate((obs or {}).get("steps", [])):
            lines.append("itnext")
            if item != "end" and not item.startswith("E:"):
                lines += between_lines(case, i, idx)
        return lines
    ents = []
    seen = {}
    for text, ttl, val in case["keys"]:
        seen[text] = f"{idx[text]}/{'-' if ttl is None else ttl}/{val}"
    # a later write of the same key moves it to the end (OrderedDict + move_to_end); cases never repeat a key
    ents = list(seen.values())
    lines.append(f"store {case.get('adv', 0)} " + " ".join(ents))
    pat = enc(pattern_of(case))
    kind = case["kind"]
    in_tx = kind == "tx" or (kind == "invalidate" and case.get("mode"))
    cmd = "delete_match" if kind == "invalidate" else case["cmd"]
    word = {"scan": "scan", "get_match": "getmatch", "delete_match": "delmatch"}[cmd]
    if in_tx:
        for what, _where in case.get("warm") or []:
            lines.append(f"{'scan' if what == 'scan' else 'getmatch'} {pat}")      # a read of the store (get_match touches it)
        lines.append("txbegin")
        for op in case.get("txops") or []:
            if op[0] == "set":
                lines.append(f"txset {idx[op[1]]} {op[2]} {'-' if op[3] is None else op[3]}")
            elif op[0] in PATTERN_OPS:
                lines.append(f"tx{'delmatch' if op[0] == 'delmatch' else op[0]} {enc(op_pattern(case, op))}")
            else:
                lines.append(f"txdel {idx[op[1]]}")
        if case.get("txadv"):
            lines.append(f"txadv {case['txadv']}")
        lines.append(f"tx{word} {pat}")
    else:
        lines.append(f"{word} {pat}")
    return lines


def parse_answer(ans: str):
    if not ans.startswith("model="):
        return None
    m, s = ans.split(" ", 1)
    return m[len("model="):], s[len("spec="):]


# ------------------------------------------------------------------------------------------------
# implementation side

def _ids(idx: dict, keys) -> str:
    known = sorted(idx[k] for k in keys if k in idx)
    unknown = sorted(repr(k) for k in keys if k not in idx)
    if len(set(keys)) != len(list(keys)):
        unknown.append("?duplicate")
    parts = [str(i) for i in known] + ["?" + u for u in unknown]
    return ",".join(parts) if parts else "-"


def _pairs(idx: dict, pairs) -> str:
    out = []
    seen = set()
    for k, v in pairs:
        if k in seen:
            out.append((10**9, "?duplicate"))
        seen.add(k)
        if k in idx:
            out.append((idx[k], f"{idx[k]}={show_val(v)}"))
        else:
            out.append((10**9, f"?{k!r}"))
    out.sort()
    return ";".join(s for _, s in out) if out else "-"


async def _make_api(kind: str, size: int = BIG):
    from cashews import Cache
    from cashews.backends.memory import Memory

    if kind == "mem":
        m = Memory(size=size, check_interval=0)
        await m.init()
        return m
    cache = Cache()
    cache.setup(URLS["facade_secret" if kind == "facade_secret" else "facade"].format(size=size))
    await cache.init()
    return cache


async def _put(api, text: str, ttl, val: str):
    """write one store entry: a plain value with `set`, a bit field with `incr_bits` (+ `expire` for its ttl)"""
    if is_bits(val):
        index, by = bits_args(val)
        await api.incr_bits(text, index, size=2, by=by)
        if ttl is not None:
            await api.expire(text, ttl / 8)
    else:
        await api.set(text, val_of(val), expire=None if ttl is None else ttl / 8)


async def _fill(api, case: dict):
    for text, ttl, val in case["keys"]:
        await _put(api, text, ttl, val)
    CLOCK.advance(case.get("adv", 0))


async def _cmd(api, cmd: str, pat: str, idx: dict) -> str:
    try:
        if cmd == "scan":
            return _ids(idx, [k async for k in api.scan(pat)])
        if cmd == "get_match":
            return _pairs(idx, [(k, v) async for k, v in api.get_match(pat)])
        r = await api.delete_match(pat)
        return "U" if r is None else f"?{r!r}"
    except Exception as exc:  # the property says: never raising
        return f"E:{type(exc).__name__}"


async def _live(api, u: list[str]) -> str:
    out = []
    for i, t in enumerate(u):
        if (await api.get(t, default=SENT)) is not SENT:
            out.append(str(i))
    return ",".join(out) if out else "-"


async def _txops(api, case: dict):
    for op in case.get("txops") or []:
        if op[0] == "set":
            await api.set(op[1], val_of(op[2]), expire=None if op[3] is None else op[3] / 8)
        elif op[0] == "delmatch":
            await api.delete_match(op_pattern(case, op))
        elif op[0] == "scan":
            [k async for k in api.scan(op_pattern(case, op))]
        elif op[0] == "getmatch":
            [kv async for kv in api.get_match(op_pattern(case, op))]
        elif op[0] == "delm":
            await api.delete_many(op[1])
        else:
            await api.delete(op[1])
    CLOCK.advance(case.get("txadv", 0))


async def _warm(cache, case: dict, mode):
    """pattern reads on this very Cache object before the judged transaction (results are not judged)"""
    from cashews.wrapper.transaction import TransactionMode

    pat = pattern_of(case)
    for what, where in case.get("warm") or []:
        async def read():
            if what == "scan":
                [k async for k in cache.scan(pat)]
            else:
                [kv async for kv in cache.get_match(pat)]
        if where == "tx" and mode:
            async with cache.transaction(TransactionMode(mode)):
                await read()
        else:
            await read()


async def _invalidating_call(cache, case: dict):
    tmpl = template_string(case)

    @cache.invalidate(tmpl)
    async def func(x="dx", y="dy"):
        return 7

    omit = case.get("omit") or []
    acc = case.get("access") or {}
    given = {k: shaped(v, acc.get(k)) for k, v in case["args"].items() if k not in omit}
    try:
        if case.get("positional") and "x" in given:
            r = await func(given.pop("x"), **given)
        else:
            r = await func(**given)
        return "U" if r == 7 else f"?{r!r}"
    except Exception as exc:
        return f"E:{type(exc).__name__}"


async def _between(api, case: dict, i: int):
    ops = case.get("between") or []
    for op in ops[i] if i < len(ops) else []:
        if op[0] == "del":
            await api.delete(op[1])
        elif op[0] == "set":
            await api.set(op[1], val_of(op[2]), expire=None if op[3] is None else op[3] / 8)
        elif op[0] == "get":
            await api.get(op[1])
        elif op[0] == "adv":
            CLOCK.advance(op[1])
        else:
            await api.delete_match(op[1])


async def exec_iter(case: dict, idx: dict) -> dict:
    """an iteration consumed step by step; `steps` = what each `__anext__` handed out ('end', or 'E:<exception>')"""
    api = await _make_api(case["entry"], case.get("size") or BIG)
    await _fill(api, case)
    it = (api.scan(case["pattern"]) if case["cmd"] == "scan" else api.get_match(case["pattern"])).__aiter__()
    steps: list[str] = []
    while True:
        if len(steps) > 10000:
            raise RuntimeError("an iteration over a finite snapshot does not end")
        try:
            item = await it.__anext__()
        except StopAsyncIteration:
            steps.append("end")
            break
        except Exception as exc:  # the property says: never raising
            steps.append(f"E:{type(exc).__name__}")
            break
        if case["cmd"] == "scan":
            steps.append(str(idx[item]) if item in idx else f"?{item!r}")
        else:
            steps.append(f"{idx[item[0]]}={show_val(item[1])}" if item[0] in idx else f"?{item[0]!r}")
        await _between(api, case, len(steps) - 1)
    return {"steps": steps, "res": steps[-1] if steps[-1].startswith("E:") else "U", "live": await _live(api, list(idx))}


async def exec_case(case: dict) -> dict:
    """run one case on the real code; returns the canonical observations"""
    from cashews.wrapper.transaction import TransactionMode

    CLOCK.reset()
    u = universe(case)
    idx = {t: i for i, t in enumerate(u)}
    kind = case["kind"]
    pat = pattern_of(case)
    obs: dict = {}
    if kind == "iter":
        return await exec_iter(case, idx)
    if kind in ("mem", "facade", "facade_secret"):
        api = await _make_api(kind)
        await _fill(api, case)
        obs["res"] = await _cmd(api, case["cmd"], pat, idx)
        obs["live"] = await _live(api, u)
        return obs
    mode = case.get("mode")
    cache = await _make_api("facade_secret" if case.get("secret") else "facade")
    await _fill(cache, case)
    if kind == "invalidate" and not mode:
        obs["res"] = await _invalidating_call(cache, case)
        obs["live"] = await _live(cache, u)
        return obs
    # --- inside a transaction, and the same commands executed directly on an equal store
    t_after_fill = CLOCK.t
    await _warm(cache, case, mode)
    try:
        async with cache.transaction(TransactionMode(mode)):
            await _txops(cache, case)
            if kind == "invalidate":
                obs["res"] = await _invalidating_call(cache, case)
            else:
                obs["res"] = await _cmd(cache, case["cmd"], pat, idx)
            obs["live_inside"] = await _live(cache, u)
    except Exception as exc:
        obs["res"] = f"E:{type(exc).__name__}"
    obs["live_after_commit"] = await _live(cache, u)
    CLOCK.reset()
    direct = await _make_api("facade_secret" if case.get("secret") else "facade")
    await _fill(direct, case)
    if CLOCK.t != t_after_fill:
        raise RuntimeError("clock drift between the transactional and the direct run")
    await _warm(direct, case, None)
    await _txops(direct, case)
    if kind == "invalidate":
        obs["direct_res"] = await _invalidating_call(direct, case)
    else:
        obs["direct_res"] = await _cmd(direct, case["cmd"], pat, idx)
    obs["direct_live"] = await _live(direct, u)
    return obs


def run_cases(cases: list[dict]) -> list[dict]:
    async def go():
        return [await exec_case(c) for c in cases]

    return vtime.run(go)


def stable_keys(case: dict) -> list[str]:
    """keys that match, are live when the iteration starts and that nothing the consumer does between the steps touches or
    lets expire: they have to be yielded exactly once (provided they are still there at the end: eviction)"""
    adv = case.get("adv", 0)
    ops = [op for step in case.get("between") or [] for op in step]
    total = adv + sum(op[1] for op in ops if op[0] == "adv")
    named = {op[1] for op in ops if op[0] in ("del", "set", "get")}
    out = []
    for text, ttl, _val in case["keys"]:
        if not pyglob(case["pattern"], text) or text in named:
            continue
        if ttl is not None and ttl <= total:
            continue
        if any(op[0] == "delmatch" and pyglob(op[1], text) for op in ops):
            continue
        out.append(text)
    return out


def judge_iter(case: dict, obs: dict, answers: list[str]) -> tuple[list[str], list[str]]:
    u = universe(case)
    steps = obs["steps"]
    bad: list[str] = []
    diff: list[str] = []
    if steps[-1].startswith("E:"):
        bad.append(f"step {len(steps)} of the {case['cmd']} iteration raised {steps[-1][2:]}")
    items = [s.split("=")[0] for s in steps if s != "end" and not s.startswith("E:")]
    if len(set(items)) != len(items):
        bad.append(f"a key was yielded twice: {steps}")
    for it in items:
        if not it.isdigit():
            bad.append(f"yielded {it}")
        elif not pyglob(case["pattern"], u[int(it)]):
            bad.append(f"yielded key {it} ({u[int(it)]!r}) does not match")
    if not bad:
        live_end = set() if obs["live"] == "-" else set(obs["live"].split(","))
        vals = {k[0]: k[2] for k in case["keys"]}
        for text in stable_keys(case):
            i = str(u.index(text))
            if case["cmd"] == "get_match" and is_bits(vals[text]):
                continue        # get_match skips bit-field objects on purpose
            if i in live_end and i not in items:
                bad.append(f"key {i} ({text!r}) matched and stayed live and untouched through the whole iteration but was not yielded: {steps}")
            if case["cmd"] == "get_match" and i in live_end and not is_bits(vals[text]):
                got = [s for s in steps if s.split("=")[0] == i]
                if got and got[0] != f"{i}={vals[text]}":
                    bad.append(f"key {i} was yielded as {got[0]}, it holds {vals[text]}")
    model = [a[len("model="):] if a.startswith("model=") else f"?{a}" for a in answers]      # the answers to the `itnext` lines
    if model != steps and not steps[-1].startswith("E:"):
        diff.append(f"iteration steps: implementation {steps}, model {model}")
    return bad, diff


def judge(case: dict, obs: dict, ans: str, answers: list[str] | None = None) -> tuple[list[str], list[str]]:
    """(property violations, model-only differences) of one executed case"""
    if case["kind"] == "iter":
        return judge_iter(case, obs, answers or [])
    pa = parse_answer(ans)
    if pa is None:
        return [], [f"driver answered {ans!r}"]
    model, spec = pa
    kind = case["kind"]
    cmd = "delete_match" if kind == "invalidate" else case["cmd"]
    in_tx = "direct_res" in obs or "live_after_commit" in obs
    bad: list[str] = []
    diff: list[str] = []
    res = obs.get("res", "?")
    if res.startswith("E:"):
        bad.append(f"{cmd} raised {res[2:]}")
        return bad, diff
    if cmd == "delete_match":
        if res != "U":
            bad.append(f"unexpected result {res}")
        seen = obs["live_inside"] if in_tx else obs["live"]
        what = "keys left after delete_match"
    else:
        seen = res
        what = f"{cmd} result"
    if seen != spec:
        bad.append(f"{what}: implementation {seen}, property (glob on live keys) {spec}")
    if seen != model:
        diff.append(f"{what}: implementation {seen}, model {model}")
    if in_tx and not case.get("crossing"):
        if obs.get("direct_res") != res:
            bad.append(f"inside the transaction {res}, executed directly {obs.get('direct_res')}")
        if cmd == "delete_match":
            if obs.get("direct_live") != seen:
                bad.append(f"keys left inside the transaction {seen}, after direct execution {obs.get('direct_live')}")
            if obs.get("live_after_commit") != seen:
                bad.append(f"keys left inside the transaction {seen}, after commit {obs.get('live_after_commit')}")
    elif cmd != "delete_match":
        # a read-only command must not change what a reader sees (expired keys stay invisible)
        pass
    return bad, diff


# ------------------------------------------------------------------------------------------------
# big frames: one store, many patterns (exhaustive sweeps)

async def sweep(kind: str, keys: list, adv: int, patterns: list[str], cmd: str) -> list[str]:
    """run `cmd` for every pattern against the same store; for delete_match the deleted entries are written back
    (only used with stores whose entries have no ttl, so the restored store is identical)"""
    CLOCK.reset()
    api = await _make_api(kind)
    case = {"keys": keys, "adv": adv}
    await _fill(api, case)
    u = [k[0] for k in keys]
    idx = {t: i for i, t in enumerate(u)}
    vals = {k[0]: k for k in keys}
    out = []
    for pat in patterns:
        if cmd != "delete_match":
            out.append(await _cmd(api, cmd, pat, idx))
            continue
        r = await _cmd(api, cmd, pat, idx)
        if r != "U":
            out.append(r)
            continue
        present = await api.get_many(*u, default=SENT)
        live = [i for i, v in enumerate(present) if v is not SENT]
        out.append(",".join(map(str, live)) if live else "-")
        gone = [u[i] for i, v in enumerate(present) if v is SENT]
        for t in gone:
            _, ttl, val = vals[t]
            if ttl is None:
                await _put(api, t, None, val)
    return out


def sweep_lines(keys: list, adv: int, patterns: list[str], cmd: str) -> list[str]:
    u = [k[0] for k in keys]
    store = f"store {adv} " + " ".join(f"{i}/{'-' if ttl is None else ttl}/{val}" for i, (_, ttl, val) in enumerate(keys))
    lines = ["univ " + " ".join(enc(t) for t in u), store]
    word = {"scan": "scan", "get_match": "getmatch", "delete_match": "delmatch"}[cmd]
    for pat in patterns:
        lines.append(f"{word} {enc(pat)}")
        if cmd == "delete_match":
            lines.append(store)
    return lines


# ------------------------------------------------------------------------------------------------
# generators

ORDINARY_VALS = ["i:1", "i:7", "t:0", "t:1", "t:2", "t:3", "e:T"]
FALSY_VALS = ["i:0", "e:s", "e:b", "e:l", "e:f", "e:d", "e:z", "e:u"]       # values a truthiness test would drop
PLAIN_VALS = ["n"] + FALSY_VALS + ORDINARY_VALS                              # what `set` can store
BIT_VALS = ["b:0", "b:5"]                                                    # bit fields (store only)
STORE_VALS = PLAIN_VALS + BIT_VALS


def rand_val(rng, store: bool) -> str:
    """a value token: None 18%, another falsy value 22%, a bit field 10% (store entries only), else an ordinary one"""
    r = rng.random()
    if r < 0.18:
        return "n"
    if r < 0.40:
        return rng.choice(FALSY_VALS)
    if r < 0.50 and store:
        return rng.choice(BIT_VALS)
    return rng.choice(ORDINARY_VALS)


PLACEMENTS = ["A", "S", "X", "O", "SO", "XO", "SD", "D", "SDO", "OD", "St", "Ot", "B", "BO", "BD", "SOD"]
# SOD: store entry overwritten in the transaction and then removed with delete_many
# A absent; S in the store (live, no ttl); St in the store with a live ttl; X in the store, expired and unpurged;
# O written in the transaction; Ot written in the transaction with a ttl; SO / XO store entry overwritten in the
# transaction; SD store entry deleted in the transaction; D delete of an absent key; SDO deleted then written again;
# OD written then deleted; B the store holds a bit field under the key; BO ... overwritten with a value in the transaction;
# BD ... deleted in the transaction.


def rand_string(rng, alphabet: str, lo: int, hi: int) -> str:
    return "".join(rng.choice(alphabet) for _ in range(rng.randint(lo, hi)))


def rand_pattern(rng, alphabet: str, maxlen: int) -> str:
    n = rng.randint(0, maxlen)
    out = []
    for _ in range(n):
        r = rng.random()
        if r < 0.22:
            out.append("*")
        elif r < 0.62:
            out.append(rng.choice(META if all(c in alphabet for c in META) else alphabet))
        else:
            out.append(rng.choice(alphabet))
    return "".join(out)


def instantiate(rng, pat: str, alphabet: str) -> str:
    """a key the pattern matches: every '*' replaced by a random run (which may itself contain '*')"""
    return "".join(rand_string(rng, alphabet, 0, 3) if c == "*" else c for c in pat)


def near_miss(rng, pat: str, key: str, alphabet: str) -> str:
    """mutations that a regex reading would confuse: a metacharacter position replaced, one character dropped,
    doubled or appended"""
    if not key:
        return rng.choice(alphabet)
    i = rng.randrange(len(key))
    r = rng.random()
    if r < 0.4:
        return key[:i] + rng.choice("abc:") + key[i + 1:]
    if r < 0.6:
        return key[:i] + key[i + 1:]
    if r < 0.8:
        return key[:i] + key[i] + key[i:]
    return key + rng.choice(alphabet)


def gen_keys(rng, pat: str, alphabet: str, n: int) -> list[str]:
    keys: list[str] = []
    tries = 0
    while len(keys) < n and tries < 50:
        tries += 1
        r = rng.random()
        base = instantiate(rng, pat, alphabet.replace("*", "") or alphabet)
        k = base if r < 0.45 else near_miss(rng, pat, base, alphabet) if r < 0.85 else rand_string(rng, alphabet, 0, 8)
        if k not in keys and not k.startswith(RESERVED) and not any(c in EXCLUDED for c in k):
            keys.append(k)
    return keys


def store_entry(rng, text: str, adv: int):
    """(text, ttl, val) with a mix of no ttl / live ttl / expired-unpurged (only when the clock is advanced)"""
    r = rng.random()
    if adv > 0 and r < 0.3:
        ttl = rng.choice([t for t in (1, 4, 8, adv) if t <= adv])      # deadline <= now: expired, never purged
    elif r < 0.55:
        ttl = adv + rng.choice([40, 80, 800])
    else:
        ttl = None
    return [text, ttl, rand_val(rng, True)]


def rand_warm(rng, cmd: str) -> list:
    """1-2 pattern reads before the transaction, the judged command itself more often than not"""
    own = cmd if cmd in ("scan", "get_match") else rng.choice(["scan", "get_match"])
    return [[own if rng.random() < 0.7 else rng.choice(["scan", "get_match"]), rng.choice(["outside", "outside", "tx"])]
            for _ in range(rng.choice([1, 1, 2]))]


def gen_small(rng, kind: str, alphabet: str = FULL_ALPHABET, maxpat: int = 8, mode: str | None = None) -> dict:
    pat = rand_pattern(rng, alphabet, maxpat)
    adv = rng.choice([0, 8, 8, 16, 24])
    texts = gen_keys(rng, pat, alphabet, rng.randint(2, 7))
    case: dict = {"kind": kind, "keys": [store_entry(rng, t, adv) for t in texts], "adv": adv,
                  "cmd": rng.choice(["scan", "get_match", "delete_match"]), "pattern": pat}
    if kind == "tx":
        case["mode"] = mode or rng.choice(["fast", "locked", "serializable"])
        extra = gen_keys(rng, pat, alphabet, rng.randint(0, 3))
        ops = []
        for t in rng.sample(texts + extra, k=min(len(texts + extra), rng.randint(1, 5))):
            r = rng.random()
            if r < 0.45:
                ops.append(["set", t, rand_val(rng, False), rng.choice([None, None, 80])])
            elif r < 0.8:
                ops.append([rng.choice(["del", "del", "delm"]), t])
            elif r < 0.9:
                ops += [[rng.choice(["del", "delm"]), t], ["set", t, rand_val(rng, False), None]]
            else:
                ops += [["set", t, rand_val(rng, False), None], [rng.choice(["del", "delm"]), t]]
        if rng.random() < 0.4:
            # earlier pattern commands between the writes: the identical pattern (None), or another one
            for _ in range(rng.randint(1, 2)):
                what = rng.choice(["delmatch", "delmatch", "delmatch", "scan", "getmatch"])
                other = rng.choice([None, None, rand_pattern(rng, alphabet, maxpat), pat[:-1] + "*", "*"])
                ops.insert(rng.randint(0, len(ops)), [what, other])
        case["txops"] = ops
        case["txadv"] = rng.choice([0, 0, 4])
        if rng.random() < 0.3:
            case["secret"] = True
        if rng.random() < 0.45:
            case["warm"] = rand_warm(rng, case["cmd"])
        if case["cmd"] != "delete_match" and texts and rng.random() < 0.12:
            # a ttl assigned inside the transaction elapses before the judged read
            case["txops"] = ops + [["set", rng.choice(texts), rand_val(rng, False), 4]]
            case["txadv"] = 8
            case["crossing"] = True
    return case


def gen_invalidate(rng, alphabet: str = FULL_ALPHABET, mode: str | None = None) -> dict:
    """a templated pattern: literal pieces (any characters, braces doubled in the template) and the fields {x}, {y}"""
    segs = []
    for _ in range(rng.randint(1, 4)):
        if rng.random() < 0.5:
            segs.append(["lit", rand_pattern(rng, alphabet, 3)])
        else:
            segs.append(["arg", rng.choice(["x", "y"])])
    if not any(s[0] == "arg" for s in segs):
        segs.insert(rng.randrange(len(segs) + 1), ["arg", "x"])
    args = {"x": rand_pattern(rng, alphabet.replace("*", "") if rng.random() < 0.7 else alphabet, 3)}
    if any(s == ["arg", "y"] for s in segs) and rng.random() < 0.8:
        args["y"] = rand_pattern(rng, alphabet.replace("*", ""), 2)
    case: dict = {"kind": "invalidate", "template": segs, "args": args, "adv": rng.choice([0, 8, 16]), "cmd": "delete_match"}
    omit = []
    for name, dflt in (("x", "dx"), ("y", "dy")):
        if name not in args and any(s == ["arg", name] for s in segs):
            args[name] = dflt           # the function's own default is used: the argument is not passed
            omit.append(name)
    if omit:
        case["omit"] = omit
    if rng.random() < 0.3:
        case["positional"] = True
    pat = pattern_of(case)
    texts = gen_keys(rng, pat, alphabet, rng.randint(2, 6))
    case["keys"] = [store_entry(rng, t, case["adv"]) for t in texts]
    if mode:
        case["mode"] = mode
        case["txops"] = [["set", t, rand_val(rng, False), None] for t in gen_keys(rng, pat, alphabet, rng.randint(0, 2))]
        if rng.random() < 0.3:
            case["warm"] = rand_warm(rng, "scan")
    if rng.random() < 0.5:
        # the template reaches the argument's text through an accessor: {x[k]}, {x.a}, {x[k].a}
        case["access"] = {n: rng.choice(["sub", "sub", "attr", "subattr"]) for n in args if n not in omit and rng.random() < 0.8}
    return case


def split_case(rng, texts: list[str], placement: list[str], pattern: str, cmd: str, mode: str, vals=None) -> dict:
    """the transaction case in which key i of `texts` is placed as `placement[i]` says (see PLACEMENTS);
    `vals[i] = (store value, value written in the transaction)` when given, else drawn from `rng`"""
    adv = 16
    keys, ops = [], []
    for i, (t, p) in enumerate(zip(texts, placement)):
        if vals is not None:
            v, w = vals[i]
        else:
            v = rand_val(rng, False)
            w = rand_val(rng, False)
        if p in ("B", "BO", "BD"):
            keys.append([t, None, v if is_bits(v) else rng.choice(BIT_VALS)])
        elif p in ("S", "SO", "SD", "SDO", "SOD"):
            keys.append([t, None, v])
        elif p == "St":
            keys.append([t, adv + 80, v])
        elif p in ("X", "XO"):
            keys.append([t, 8, v])
        if p in ("O", "SO", "XO", "BO"):
            ops.append(["set", t, w, None])
        elif p == "Ot":
            ops.append(["set", t, w, 80])
        elif p in ("SD", "D", "BD"):
            ops.append(["del", t])
        elif p == "SDO":
            ops += [["del", t], ["set", t, w, None]]
        elif p == "OD":
            ops += [["set", t, w, None], ["del", t]]
        elif p == "SOD":
            ops += [["set", t, w, None], ["delm", t]]
    return {"kind": "tx", "mode": mode, "keys": keys, "adv": adv, "txops": ops, "txadv": 0, "cmd": cmd, "pattern": pattern}


def crossing_cases():
    """a ttl assigned inside the transaction elapses before the judged scan / get_match: the key is also in the store (its old value
    is what the transaction sees again) or only in the buffer (gone), next to a key written without ttl - x 3 modes x warm-ups"""
    out = []
    for mode in ("fast", "locked", "serializable"):
        for cmd in ("scan", "get_match"):
            for stored in (True, False):
                for also in ([], [["set", "a.c", "t:2", None]], [["del", "a.c"]], [["set", "a.c", "t:2", 4]]):
                    for i in range(len(WARMS)):
                        keys = ([["a.b", None, "t:1"]] if stored else []) + [["a.c", None, "n"], ["axb", None, "t:3"]]
                        c = {"kind": "tx", "mode": mode, "keys": keys, "adv": 0, "txops": [["set", "a.b", "t:9", 4]] + also, "txadv": 8,
                             "cmd": cmd, "pattern": "a.*", "crossing": True}
                        out.append((f"crossing:{mode}:{cmd}:{stored}:{len(also)}:{i}", with_warm(c, i)))
    return out


WARMS = [None, [["scan", "outside"]], [["get_match", "outside"]], [["scan", "tx"]], [["get_match", "tx"]],
         [["scan", "outside"], ["get_match", "tx"]]]


def with_warm(case: dict, i: int) -> dict:
    """the case preceded by the i-th warm-up of `WARMS` (none / scan or get_match outside a transaction / in an earlier one)"""
    w = WARMS[i % len(WARMS)]
    return dict(case, warm=w) if w else case


MULTI_FIRST = [["delmatch", None], ["delmatch", "a.b*"], ["delmatch", "*b"], ["scan", None], ["getmatch", None]]


def multi_space():
    """(placement of the three keys, earlier pattern command, write in between, judged command, its pattern)"""
    texts = ["a.b", "a.c", "axb"]
    for pl in itertools.product(["S", "A", "X"], repeat=3):
        for first in MULTI_FIRST:
            for t in texts:
                for w in (["set", t, "t:2", None], ["set", t, "t:2", 80], ["del", t]):
                    for cmd in ("scan", "get_match", "delete_match"):
                        for pat in ("a.*", "a.b*"):
                            yield pl, first, w, cmd, pat


def multi_case(pl, first, w, cmd, pat, mode: str) -> dict:
    """pattern command, write, pattern command again - inside one transaction"""
    texts = ["a.b", "a.c", "axb"]
    keys = []
    for t, p in zip(texts, pl):
        if p == "S":
            keys.append([t, None, "t:1"])
        elif p == "X":
            keys.append([t, 8, "t:1"])
    return {"kind": "tx", "mode": mode, "keys": keys, "adv": 16, "txops": [list(first), list(w)], "txadv": 0, "cmd": cmd, "pattern": pat}


ITER_OPS = [[], [["del", "a.b"]], [["del", "a.c"]], [["del", "a.d"]], [["del", "axb"]], [["set", "a.e", "t:2", None]],
            [["set", "zz", "t:2", None]], [["set", "a.d", "t:2", None]], [["delmatch", "a.d*"]], [["adv", 16]],
            [["adv", 16], ["get", "a.c"]], [["get", "a.b"], ["get", "a.c"], ["set", "new", "i:1", None]]]


def iter_space():
    """one store - "a.b", "a.c" (ttl 12 ticks), "a.d" (holds None), "axb" - iterated with pattern a.* by scan / get_match on
    Memory, the facade and the signed facade, the store unlimited or exactly full (`size` = 4: a write of a new key evicts
    the least recently used one); after the first and after the second item the consumer does one of `ITER_OPS`: nothing,
    delete each key, write a new matching / non-matching key, rewrite a key, delete_match, let the ttl elapse, let it elapse
    and read the expired key (which purges it), touch two keys and write a new one (evicts a key not yet visited)"""
    keys = [["a.b", None, "t:1"], ["a.c", 12, "t:2"], ["a.d", None, "n"], ["axb", None, "t:3"]]
    for entry in ("mem", "facade", "facade_secret"):
        for size in (None, 4):
            for cmd in ("scan", "get_match"):
                for o1 in ITER_OPS:
                    for o2 in ITER_OPS:
                        yield {"kind": "iter", "entry": entry, "size": size, "keys": keys, "adv": 0, "cmd": cmd, "pattern": "a.*",
                               "between": [o1, o2]}


def gen_iter(rng, alphabet: str = FULL_ALPHABET) -> dict:
    """a random store and pattern, iterated step by step; between the steps the consumer deletes, writes (into a full store
    40% of the time), reads, deletes by pattern and lets time pass"""
    pat = rand_pattern(rng, alphabet, 8)
    adv = rng.choice([0, 0, 8])
    texts = gen_keys(rng, pat, alphabet, rng.randint(2, 7))
    keys = [store_entry(rng, t, adv) for t in texts]
    extra = gen_keys(rng, pat, alphabet, 2)
    between = []
    for _ in range(len(texts)):
        ops = []
        for _ in range(rng.choice([0, 1, 1, 2])):
            r = rng.random()
            if r < 0.35:
                ops.append(["del", rng.choice(texts)])
            elif r < 0.6:
                ops.append(["set", rng.choice(extra + texts) if extra else rng.choice(texts), rand_val(rng, False), rng.choice([None, None, 80])])
            elif r < 0.75:
                ops.append(["get", rng.choice(texts)])
            elif r < 0.9:
                ops.append(["adv", rng.choice([4, 8, 40])])
            else:
                ops.append(["delmatch", rng.choice([pat, pat[:-1] + "*", rand_pattern(rng, alphabet, 4)])])
        between.append(ops)
    return {"kind": "iter", "entry": rng.choice(["mem", "facade", "facade_secret"]), "size": len(texts) if rng.random() < 0.4 else None,
            "keys": keys, "adv": adv, "cmd": rng.choice(["scan", "get_match"]), "pattern": pat, "between": between}


def value_grid() -> list[tuple[str, dict]]:
    """Every value of the alphabet in every position a pattern command can meet it (fully enumerated, no randomness).
    One subject key 'a.b' (matches 'a.*') next to a matching bystander 'a.c' with an ordinary value and a
    non-matching bystander 'axb' holding None.
    Outside a transaction: each store value (plain values and bit fields) x {no ttl, live ttl, expired-unpurged} x the three
    commands x Memory / facade / signed facade.  Inside a transaction: each placement of the subject key that involves a value
    (in the store, written in the transaction, both) x each store value x each written value x the three commands x the three modes."""
    out = []
    others = [["axb", None, "n"], ["a.c", None, "t:1"]]
    for kind in ("mem", "facade", "facade_secret"):
        for v in STORE_VALS:
            for ttl, adv in ((None, 0), (96, 16), (8, 16)):
                for cmd in ("scan", "get_match", "delete_match"):
                    c = {"kind": kind, "keys": [["a.b", ttl, v]] + others, "adv": adv, "cmd": cmd, "pattern": "a.*"}
                    out.append((f"values:{kind}:{v}:{ttl}:{cmd}", c))
    store_only, tx_only, both = ("S", "St", "X", "SD"), ("O", "Ot", "OD"), ("SO", "XO", "SDO")
    for mode in ("fast", "locked", "serializable"):
        for cmd in ("get_match", "scan", "delete_match"):
            combos = [(p, v, "t:2") for p in store_only for v in STORE_VALS]
            combos += [(p, "t:2", w) for p in tx_only for w in PLAIN_VALS]
            combos += [(p, v, w) for p in both for v in STORE_VALS for w in PLAIN_VALS]
            for p, v, w in combos:
                c = split_case(None, ["a.b", "axb", "a.c"], [p, "S", "S"], "a.*", cmd, mode,
                               vals=[(v, w), ("n", "n"), ("t:1", "t:1")])
                out.append((f"values:tx:{mode}:{p}:{v}:{w}:{cmd}", c))
    return out


# ------------------------------------------------------------------------------------------------
# interesting states

def interesting(case: dict) -> list[str]:
    """which of the property's interesting states the case reaches (computed from the case alone, with the
    harness's own glob and Python's `re` for the pre-repair reading)"""
    pat = pattern_of(case)
    adv = case.get("adv", 0)
    tags = []
    live = [k[0] for k in case["keys"] if k[1] is None or k[1] > adv]
    expired = [k[0] for k in case["keys"] if k[1] is not None and k[1] <= adv]
    sel = [k for k in live if pyglob(pat, k)]
    if any(c in META or c in EXTRA for c in pat) and sel:
        tags.append("metachar_pattern_selects_a_key")
    old = old_regex_select(pat, live)
    if old is None:
        tags.append("regex_reading_would_raise")
    elif sorted(old) != sorted(sel):
        tags.append("regex_reading_would_select_differently")
    if any(pyglob(pat, k) for k in expired):
        tags.append("expired_unpurged_key_matches")
    if "*" in pat and sel and len(sel) < len(live):
        tags.append("wildcard_splits_the_live_keys")
    ops = case.get("txops") or []
    cmd = "delete_match" if case["kind"] == "invalidate" else case["cmd"]
    if ops:
        written, deleted = {}, set()
        earlier: list[str] = []           # patterns of the delete_match calls so far
        marked: dict[str, set] = {}       # pattern -> live store keys an earlier delete_match(pattern) marked
        rewritten: dict[str, bool] = {}   # pattern -> a key it marked has been written again since
        write_since_pattern_cmd = False
        for op in ops:
            if op[0] == "set":
                written[op[1]] = True
                deleted.discard(op[1])
                for p_, ks in marked.items():
                    if op[1] in ks:
                        rewritten[p_] = True
                write_since_pattern_cmd = bool(earlier) or write_since_pattern_cmd
            elif op[0] == "delmatch":
                p_ = op_pattern(case, op)
                if p_ in earlier:
                    tags.append("tx_delete_match_repeated_with_the_identical_pattern")
                    if rewritten.get(p_):
                        tags.append("tx_identical_delete_match_after_a_marked_store_key_was_written_again")
                    rewritten[p_] = False
                elif earlier:
                    tags.append("tx_delete_match_after_a_different_pattern")
                earlier.append(p_)
                marked.setdefault(p_, set()).update(k for k in live if pyglob(p_, k))
                for k in [k for k in written if pyglob(p_, k)]:
                    written.pop(k)
                deleted.update(k for k in live if pyglob(p_, k))
                write_since_pattern_cmd = False
            elif op[0] in PATTERN_OPS:
                tags.append("tx_earlier_read_by_pattern")
            else:
                written.pop(op[1], None)
                deleted.add(op[1])
                write_since_pattern_cmd = bool(earlier) or write_since_pattern_cmd
        if earlier:
            tags.append("tx_pattern_command_after_an_earlier_delete_match")
            if write_since_pattern_cmd:
                tags.append("tx_delete_match_then_write_then_pattern_command")
            if cmd == "delete_match" and pat in earlier:
                tags.append("tx_delete_match_repeated_with_the_identical_pattern")
                if rewritten.get(pat):
                    tags.append("tx_identical_delete_match_after_a_marked_store_key_was_written_again")
        if any(k in live and pyglob(pat, k) for k in deleted):
            tags.append("tx_pending_delete_of_a_matching_store_key")
        if any(k in live and pyglob(pat, k) for k in written):
            tags.append("tx_matching_key_in_overlay_and_store")
        if any(k not in live and pyglob(pat, k) for k in written):
            tags.append("tx_matching_key_only_in_overlay")
    if case["kind"] == "invalidate" and sel:
        tags.append("invalidate_template_selects_a_key")
    if case.get("warm") and (case.get("txops") or case["kind"] == "invalidate"):
        cmd_ = "delete_match" if case["kind"] == "invalidate" else case["cmd"]
        tags.append("tx_pattern_reads_before_the_transaction_on_the_same_cache")
        if any(w[0] == cmd_ for w in case["warm"]) and case.get("txops"):
            tags.append("tx_judged_read_was_already_used_" + ("in_an_earlier_transaction" if any(w[0] == cmd_ and w[1] == "tx" for w in case["warm"]) else "outside_a_transaction"))
    if case["kind"] == "invalidate" and any((case.get("access") or {}).get(seg[1]) for seg in case["template"] if seg[0] == "arg"):
        tags.append("invalidate_template_with_accessor")
        if any((case.get("access") or {}).get(seg[1]) in ("sub", "subattr") for seg in case["template"] if seg[0] == "arg"):
            tags.append("invalidate_template_field_starts_with_a_subscript")
    if case.get("crossing"):
        tags.append("tx_buffered_write_expired_before_the_pattern_read")
        if any(op[0] == "set" and op[3] is not None and op[3] <= case.get("txadv", 0) and op[1] in live and pyglob(pat, op[1]) for op in ops):
            tags.append("tx_expired_buffered_write_over_a_matching_store_key")
    if any(op[0] == "delm" for op in ops):
        tags.append("tx_delete_many")
        wr = set()
        for op in ops:
            if op[0] == "set":
                wr.add(op[1])
            elif op[0] == "delm" and op[1] in wr and op[1] in live and pyglob(pat, op[1]):
                tags.append("tx_matching_store_key_written_then_removed_by_delete_many")
    if case["kind"] == "iter":
        between = case.get("between") or []
        flat = [op for step in between for op in step]
        tags.append("iter_consumed_step_by_step")
        if any(op[0] == "del" and op[1] in sel for op in flat) or any(op[0] == "delmatch" and any(pyglob(op[1], k) for k in sel) for op in flat):
            tags.append("iter_matching_key_removed_between_steps")
        if case.get("size") and any(op[0] == "set" and op[1] not in [k[0] for k in case["keys"]] for op in flat):
            tags.append("iter_write_into_a_full_store_between_steps")
        if any(op[0] == "adv" for op in flat):
            tags.append("iter_time_passes_between_steps")
            total = adv + sum(op[1] for op in flat if op[0] == "adv")
            if any(k[1] is not None and adv < k[1] <= total and pyglob(pat, k[0]) for k in case["keys"]):
                tags.append("iter_matching_key_expires_between_steps")
                if any(op[0] == "get" for op in flat):
                    tags.append("iter_expired_key_purged_between_steps")
        if any(op[0] == "set" and op[1] in sel for op in flat):
            tags.append("iter_matching_key_rewritten_between_steps")
    # --- values: what the reader sees under each key when the pattern command runs
    visible = {k[0]: k[2] for k in case["keys"] if k[0] in live}
    store_val = dict(visible)
    for op in ops:
        if op[0] == "set":
            visible[op[1]] = op[2]
        elif op[0] == "delmatch":
            for k in [k for k in visible if pyglob(op_pattern(case, op), k)]:
                visible.pop(k)
        elif op[0] not in PATTERN_OPS:
            visible.pop(op[1], None)
    hit = {k: v for k, v in visible.items() if pyglob(pat, k)}
    if any(is_bits(v) for v in hit.values()):
        tags.append("matching_key_holds_a_bit_field")
    if cmd == "get_match":
        if "n" in hit.values():
            tags.append("get_match_matching_key_holds_None")
        if any(v in FALSY_VALS for v in hit.values()):
            tags.append("get_match_matching_key_holds_a_falsy_value")
        for op in ops:
            k = op[1]
            if op[0] == "set" and k in hit and hit[k] == op[2] and k in store_val and store_val[k] != op[2]:
                if op[2] == "n":
                    tags.append("tx_None_written_over_a_matching_store_value")
                elif is_bits(store_val[k]):
                    tags.append("tx_value_written_over_a_matching_bit_field")
    return sorted(set(tags))
