"""C20: histories of several real `BcastClientSide` instances sharing one stub server (the Lean model, with BCAST tracking).

An op is a JSON-able list whose second element is the client index, e.g. ["set", 0, "k:a", "t1", 8, "nx"],
["deliver", 1] (no-op marker: the harness pumps every listener after every command anyway), ["drop", 1],
["refuse", 1], ["reconnect", 1], ["adv", 8].  TTLs / advances are ticks of 1/8 s.

The reconnect schedule of an outage is explicit in the history: after ["drop", c] the listener of c waits `_RECONNECT_WAIT`
(80 ticks of VIRTUAL time: the code's own `asyncio.sleep(10)` on the virtual loop, never patched to 0) and then makes a
connect attempt, which HANGS at the stub until the history answers it: ["refuse", c] = the attempt is refused now (the code
clears the local copy again and waits another 80 ticks), ["reconnect", c] = it is accepted now.  Both require that the wait is
over (enough ["adv", t] since the drop / the last refusal); commands placed between them run DURING the outage.
"""
from __future__ import annotations

import asyncio
import logging

from . import redisstub as rs
from . import vtime
from .core import HarnessError
from .redishist import MS, SENT, TOKENS, VALUES, Codec, _bool, _int, bytes_tok, hx, secs, ttl_ms
from .vtime import CLOCK

logging.getLogger("cashews").setLevel(logging.CRITICAL + 1)

KEYS = ["k:a", "k:b", "j:a"]
LOCKS = ["L:a"]
PATTERNS = ["k:*", "*:a", "*", "k:a", "j*"]
READ_PATTERNS = ["k:*", "k:a", "j*", "k*", "j:*", "k:b*"]      # (lock keys hold raw tokens: never swept by get_match)
CVALS = ["i1", "i2", "i-1", "i0", "t0", "t1", "t2", "none", "bytes"]
TTLS = [None, None, None, 0, 4, 8, 16, 80]
ADVS = [0, 1, 4, 8, 16, 40]
RECONNECT_TICKS = 80          # `_RECONNECT_WAIT = 10` seconds
PREFIX = "cashews:"


def gen_history(rng, nclients: int, maxlen: int, with_drops: bool = True):
    ops = []
    dropped: dict[int, int] = {}      # client -> ticks since its drop
    n = rng.randint(2, maxlen)
    pick = rng.choice
    kinds = (["get"] * 6 + ["set"] * 5 + ["setc"] * 3 + ["getmany"] * 2 + ["exists"] * 2 + ["incr"] * 2 + ["delete"] * 2 +
             ["delmany", "delmatch", "expire", "clear", "setmany", "setlock", "unlock", "adv", "adv", "adv"] +
             ["getmatch", "scan", "getexpire", "getexpire"] +
             (["drop", "reconnect", "reconnect"] if with_drops else []))
    while len(ops) < n:
        k = pick(kinds)
        c = rng.randrange(nclients)
        if k == "get":
            ops.append(["get", c, pick(KEYS)])      # (lock keys hold raw tokens, not serializer output: they are probed with exists)
        elif k == "getmany":
            ks = rng.sample(KEYS + ["k:zz"], rng.randint(1, 3))
            if rng.random() < 0.2:
                ks.insert(rng.randint(0, len(ks)), pick(ks))        # a key asked for twice: one answer per position
            if rng.random() < 0.35:
                # a caller's default that a stored value may EQUAL (0, None): the answer must not be remembered as "absent"
                ops.append(["getmany", c, ks, pick(["i0", "none"])])
                ops.append(["get", c, pick(ks)])
            else:
                ops.append(["getmany", c, ks])
        elif k == "exists":
            ops.append(["exists", c, pick(KEYS + LOCKS)])
        elif k == "getmatch":
            ops.append(["getmatch", c, pick(READ_PATTERNS)])
        elif k == "scan":
            ops.append(["scan", c, pick(PATTERNS)])
        elif k == "getexpire":
            ops.append(["getexpire", c, pick(KEYS + LOCKS)])
        elif k == "set":
            ops.append(["set", c, pick(KEYS), pick(CVALS), pick(TTLS), "a"])
        elif k == "setc":
            key = pick(KEYS)
            ops.append(["set", c, key, pick(CVALS), pick(TTLS), pick(["nx", "xx"])])
            ops.append(["get", c, key])                      # a rejected conditional write must not be readable
        elif k == "setmany":
            keys = rng.sample(KEYS, rng.randint(1, 2))
            ops.append(["setmany", c, pick(TTLS), [[kk, pick(CVALS)] for kk in keys]])
        elif k == "incr":
            ops.append(["incr", c, pick(["k:b", "j:a"]), pick([1, 1, -1, 2]), pick([None, None, 8, 16])])
        elif k == "delete":
            ops.append(["delete", c, pick(KEYS)])
        elif k == "delmany":
            ops.append(["delmany", c, rng.sample(KEYS, rng.randint(1, 2))])
        elif k == "delmatch":
            ops.append(["delmatch", c, pick(PATTERNS)])
        elif k == "expire":
            ops.append(["expire", c, pick(KEYS), pick([0, 4, 8, 16, 80])])      # (0: the server deletes the key, D37)
        elif k == "clear":
            ops.append(["clear", c])
        elif k == "setlock":
            ops.append(["setlock", c, pick(LOCKS), pick(["tokA", "tokB"]), pick([4, 8, 16])])
            ops.append(["exists", c, LOCKS[0]])
        elif k == "unlock":
            ops.append(["unlock", c, pick(LOCKS), pick(["tokA", "tokB"])])
        elif k == "adv":
            t = pick(ADVS)
            ops.append(["adv", t])
            for d in dropped:
                dropped[d] += t
        elif k == "drop":
            if c not in dropped:
                ops.append(["drop", c])
                dropped[c] = 0
            elif nclients > 1 and rng.random() < 0.7:
                # a disconnected client keeps working: what it wrote itself must not be served from its local copy
                key = pick(KEYS)
                other = pick([x for x in range(nclients) if x != c])
                ops.append(["set", c, key, pick(CVALS), None, "a"])
                ops.append(pick([["delete", other, key], ["set", other, key, pick(CVALS), None, "a"]]))
                ops.append(["exists", c, key])
                ops.append(["get", c, key])
        elif k == "reconnect":
            cand = [d for d in dropped]
            if cand:
                d = pick(cand)
                if dropped[d] < RECONNECT_TICKS:
                    t = RECONNECT_TICKS - dropped[d] if rng.random() < 0.7 else RECONNECT_TICKS - dropped[d] + pick([0, 8, 40])
                    # part of the wait may be spent working: a write by the dropped client shortly before it reconnects
                    if rng.random() < 0.5 and t > 8:
                        ops.append(["adv", t - 8])
                        ops.append(["set", d, pick(KEYS), pick(CVALS), None, "a"])
                        ops.append(["adv", 8])
                    else:
                        ops.append(["adv", t])
                    for x in dropped:
                        dropped[x] += t
                if rng.random() < 0.3:
                    # this attempt is refused: the outage goes on, the listener waits again
                    ops.append(["refuse", d])
                    dropped[d] = 0
                    continue
                ops.append(["reconnect", d])
                del dropped[d]
                # what the staleness would show up on: the reconnected client reads, another client writes, it reads again
                if rng.random() < 0.6 and nclients > 1:
                    key = pick(KEYS)
                    other = pick([x for x in range(nclients) if x != d])
                    ops.append(["get", d, key])
                    ops.append(["set", other, key, pick(CVALS), None, "a"])
                    ops.append(["get", d, key])
    return ops


def _read_op(rng, c, keys):
    """a read by client c that touches `keys` (every such read made while c is disconnected is answered by the server AND
    written into c's local copy)"""
    r = rng.random()
    if r < 0.45 or len(keys) == 0:
        return [["get", c, k] for k in keys] or [["get", c, rng.choice(KEYS)]]
    if r < 0.75:
        return [["getmany", c, list(keys)]]
    if r < 0.9:
        return [["exists", c, k] for k in keys] + [["get", c, k] for k in keys]
    return [["getmatch", c, rng.choice(["k:*", "k*", "j*", "k:a"])]] + [["get", c, k] for k in keys]


def _change_op(rng, o, k):
    """a change of key k made by client o (k may be absent: then most of these create it)"""
    pick = rng.choice
    kind = pick(["set", "set", "set", "setttl", "delete", "delete", "incr", "expire0", "setmany", "clear", "delmatch", "setnx"])
    if k == "k:zz" and kind in ("incr",):
        kind = "set"
    if kind == "set":
        return ["set", o, k, pick(CVALS), None, "a"]
    if kind == "setttl":
        return ["set", o, k, pick(CVALS), pick([8, 16, 80, 240]), "a"]
    if kind == "setnx":
        return ["set", o, k, pick(CVALS), None, "nx"]
    if kind == "delete":
        return ["delete", o, k]
    if kind == "incr":
        return ["incr", o, k if k in ("k:b", "j:a") else "k:b", pick([1, 2, -1]), pick([None, None, 16])]
    if kind == "expire0":
        return ["expire", o, k, 0]
    if kind == "setmany":
        return ["setmany", o, None, [[k, pick(CVALS)]]]
    if kind == "clear":
        return ["clear", o]
    return ["delmatch", o, pick(["k:*", "*", "j*"])]


def _spread_advances(rng, body, total):
    """insert advances summing to `total` ticks at random positions of `body`"""
    parts = rng.choice([[total], [total], [total - 8, 8], [8, total - 8], [total // 2, total - total // 2], [1, total - 1]])
    out = list(body)
    for t in parts:
        out.insert(rng.randint(0, len(out)), ["adv", t])
    return out


def gen_outage_history(rng, nclients: int, maxpre: int = 6):
    """one outage of one client's invalidation connection with an explicit reconnect schedule:
        warm-up; drop c; (window; refuse c) x r; last window; reconnect c; reads; tail
    Every window lasts at least `_RECONNECT_WAIT` of virtual time (advances are spread over it, so the commands fall before
    and after the moment the listener starts its next attempt).  In the windows - in the LAST one always - c reads keys
    (hit or miss), other clients change / create / delete them, c may read again; after the reconnect c reads them again,
    somebody changes them once more and c reads a last time (the re-established connection must invalidate)."""
    pick = rng.choice
    c = rng.randrange(nclients)
    others = [x for x in range(nclients) if x != c] or [c]
    allkeys = KEYS + ["k:zz"]
    ops = gen_history(rng, nclients, maxpre, with_drops=False) if maxpre >= 2 else []
    ops.append(["drop", c])
    nref = pick([0, 0, 1, 1, 2, 3])
    watched: list[str] = []
    for w in range(nref + 1):
        last = w == nref
        body = []
        if last or rng.random() < 0.6:
            keys = rng.sample(allkeys, rng.randint(1, 3))
            body += _read_op(rng, c, keys)
            for k in keys:
                if rng.random() < 0.85:
                    body.append(_change_op(rng, pick(others), k))
            if rng.random() < 0.3:
                # the disconnected client writes too (its local copy takes the value); somebody else overwrites
                k = pick(keys)
                body.append(["set", c, k, pick(CVALS), None, "a"])
                body.append(_change_op(rng, pick(others), k))
            if rng.random() < 0.5:
                body += _read_op(rng, c, keys)          # still disconnected: must already see the change
            if last:
                watched = keys
        if rng.random() < 0.4:
            body += [op for op in gen_history(rng, nclients, 3, with_drops=False)]
        ops += _spread_advances(rng, body, RECONNECT_TICKS + pick([0, 0, 0, 8, 40]))
        ops.append(["reconnect", c] if last else ["refuse", c])
    ops += _read_op(rng, c, watched)
    if watched and rng.random() < 0.7:
        k = pick(watched)
        ops.append(_change_op(rng, pick(others), k))
        ops += _read_op(rng, c, [k])
    if rng.random() < 0.5:
        ops += gen_history(rng, nclients, 4, with_drops=False)
    return ops


# what a client may know about a key before it issues a command on it …
ECHO_STATES = ["known_absent", "cached", "unknown"]
# … and the commands whose echo mark / local write must match what the server really did (a command the server treats as a
# no-op announces nothing: a mark left behind would swallow the NEXT announcement, somebody else's)
ECHO_OPS = ["expire", "expire_long", "getexpire", "setnx", "setxx", "incr", "incr_ttl", "delete", "delmany", "setmany", "expire0"]
# (locks are left to the random generator: a key locked with a raw token must be probed with exists, not get)
ECHO_PAIRS = [(st, o) for st in ECHO_STATES for o in ECHO_OPS]


def _echo_motif(rng, nclients, state, opk, key):
    """client a gets into `state` about `key`, issues `opk` on it, another client changes the key shortly afterwards (inside or
    outside the 5 s life of an echo mark), a reads"""
    pick = rng.choice
    a = rng.randrange(nclients)
    b = pick([x for x in range(nclients) if x != a] or [a])
    ops = []
    if state == "known_absent":
        ops.append(["delete", b, key])
        ops.append(pick([["get", a, key], ["getmany", a, [key, "k:zz"]], ["delete", a, key], ["expire", a, key, 0]]))
    elif state == "cached":
        ops.append(["set", b, key, pick(["i1", "i2", "t0"]), pick([None, None, 80]), "a"])
        ops.append(pick([["get", a, key], ["getmany", a, [key]]]))
    else:
        ops.append(pick([["delete", b, key], ["set", b, key, pick(["i1", "t1"]), None, "a"]]))
    if opk == "expire":
        ops.append(["expire", a, key, pick([8, 16, 80])])
    elif opk == "expire_long":
        ops.append(["expire", a, key, 800])
    elif opk == "expire0":
        ops.append(["expire", a, key, 0])
    elif opk == "getexpire":
        ops.append(["getexpire", a, key])
    elif opk == "setnx":
        ops.append(["set", a, key, pick(CVALS), pick([None, 16]), "nx"])
    elif opk == "setxx":
        ops.append(["set", a, key, pick(CVALS), pick([None, 16]), "xx"])
    elif opk == "incr":
        ops.append(["incr", a, key, pick([1, -1, 2]), None])
    elif opk == "incr_ttl":
        ops.append(["incr", a, key, pick([1, -1]), pick([8, 16])])
    elif opk == "delete":
        ops.append(["delete", a, key])
    elif opk == "delmany":
        ops.append(["delmany", a, [key, "k:zz"]])
    elif opk == "setmany":
        ops.append(["setmany", a, pick([None, 16]), [[key, pick(CVALS)]]])
    delay = pick([0, 0, 1, 8, 16, 39, 41, 80])
    if delay:
        ops.append(["adv", delay])
    ops.append(pick([["set", b, key, pick(["i1", "i2", "t2", "none"]), None, "a"], ["set", b, key, pick(["t1", "i0"]), None, "a"],
                     ["setmany", b, None, [[key, pick(CVALS)]]], ["incr", b, key, 1, None], ["delete", b, key],
                     ["expire", b, key, 0]]))
    ops.append(pick([["get", a, key], ["get", a, key], ["getmany", a, [key]], ["exists", a, key]]))
    if rng.random() < 0.4:
        ops.append(["adv", pick([8, 40])])
        ops.append(["get", a, key])
    return ops


def gen_echo_history(rng, nclients: int, index: int, per_history: int = 4):
    """`per_history` motifs `state x command -> foreign change -> read`; the (state, command) pairs are swept round-robin by
    `index`, so that every pair is exercised several times in a run whatever the seed"""
    ops = []
    for j in range(per_history):
        state, opk = ECHO_PAIRS[(index * per_history + j) % len(ECHO_PAIRS)]
        ops += _echo_motif(rng, nclients, state, opk, rng.choice(KEYS))
    return ops


# ---------------------------------------------------------------------------------------------- prefixes and key alphabets

DEFAULT_PREFIX = "cashews:"
PREFIXES = [None, "c:", None, "k:", "v1:"]       # None = the default `client_side_prefix`; short custom ones occur INSIDE ordinary keys


def keymaps(prefix: str | None):
    """renamings of the abstract key alphabet (k:a, k:b, j:a, k:zz, L:a) into keys that stress prefixing / unprefixing:
    0 plain;  1 the prefix text again INSIDE the key, a key EQUAL to the prefix, the prefix at the end of a key;
    2 keys that are prefixes of each other, a fragment of the prefix, the doubled prefix.
    (The get_match patterns of the generators never match a key starting with "L:", which holds a raw lock token.)"""
    p = prefix or DEFAULT_PREFIX
    return [
        {},
        {"k:a": "k:" + p + "a", "j:a": p, "k:zz": "k:zz" + p, "L:a": "L:" + p + "a"},
        {"k:a": "k:", "k:b": "k:" + p, "j:a": p[:-1], "k:zz": p + p},
    ]


def rename_ops(ops, km: dict):
    """apply a key renaming to the key arguments of a history (patterns are left as they are)"""
    if not km:
        return ops
    r = lambda k: km.get(k, k)  # noqa: E731
    out = []
    for op in ops:
        n = op[0]
        op = list(op)
        if n in ("get", "exists", "delete", "getexpire", "set", "incr", "expire", "setlock", "unlock"):
            op[2] = r(op[2])
        elif n in ("getmany", "delmany"):
            op[2] = [r(k) for k in op[2]]
        elif n == "setmany":
            op[3] = [[r(k), v] for k, v in op[3]]
        out.append(op)
    return out


def case_keys(ops) -> list[str]:
    """every key named in a history, in order of first appearance"""
    seen: list[str] = []
    for op in ops:
        n = op[0]
        ks = ([op[2]] if n in ("get", "exists", "delete", "getexpire", "set", "incr", "expire", "setlock", "unlock") else
              list(op[2]) if n in ("getmany", "delmany") else [kv[0] for kv in op[3]] if n == "setmany" else [])
        for k in ks:
            if k not in seen:
                seen.append(k)
    return seen


def model_line(op, codec: Codec) -> str:
    n = op[0]
    if n == "adv":
        return f"adv {op[1] * MS}"
    c = op[1]
    if n in ("get", "exists", "delete", "getexpire", "getmatch", "scan"):
        return f"{n} {c} {hx(op[2])}"
    if n in ("getmany", "delmany"):
        return " ".join([n, str(c)] + [hx(k) for k in op[2]])
    if n == "set":
        return f"set {c} {hx(op[2])} {codec.table[op[3]]} {ttl_ms(op[4])} {op[5]}"
    if n == "setmany":
        return " ".join(["setmany", str(c), ttl_ms(op[2])] + [f"{hx(k)}={codec.table[v]}" for k, v in op[3]])
    if n == "incr":
        return f"incr {c} {hx(op[2])} {op[3]} {ttl_ms(op[4])}"
    if n == "delmatch":
        return f"delmatch {c} {hx(op[2])}"
    if n == "expire":
        return f"expire {c} {hx(op[2])} {op[3] * MS}"
    if n == "setlock":
        return f"setlock {c} {hx(op[2])} {bytes_tok(TOKENS[op[3]])} {op[4] * MS}"
    if n == "unlock":
        return f"unlock {c} {hx(op[2])} {bytes_tok(TOKENS[op[3]])}"
    if n in ("clear", "drop", "reconnect", "deliver", "refuse"):
        return f"{n} {c}"
    raise HarnessError(f"unknown op {op!r}")


class Runner:
    def __init__(self, drv: rs.PersistentDriver, nclients: int, prefix: str | None = None):
        self.drv = drv
        self.n = nclients
        self.prefix = prefix            # None: the default client_side_prefix

    async def setup(self):
        from cashews.backends.redis.client_side import BcastClientSide

        self.hub = rs.Hub(self.drv, self.n, self.prefix)
        rs.unregister()
        self.clients = []
        for i in range(self.n):
            url = f"redis://c{i}:6379"
            rs.register(self.hub.ports[i], url)
            b = (BcastClientSide(address=url, suppress=True) if self.prefix is None else
                 BcastClientSide(address=url, suppress=True, client_side_prefix=self.prefix))
            await b.init()
            if not b._listen_started.is_set():
                raise HarnessError(f"listener of client {i} did not start")
            self.clients.append(b)
        self.codec = Codec(self.clients[0]._serializer, self.clients[0])
        encs = await self.codec.prepare()
        if self.drv.ask("enc " + " ".join(encs)) != "ok":
            raise HarnessError("driver refused enc")
        self.dropped: set[int] = set()
        self.due: dict[int, int] = {}      # dropped client -> virtual tick at which its listener's reconnect wait is over

    async def settle(self, what=lambda: True, limit=400):
        for _ in range(limit):
            if what():
                return
            await asyncio.sleep(0)
        raise HarnessError("the listeners did not settle")

    async def pump(self):
        """let every connected listener process everything that was announced to it (a quiescent point)"""
        self.hub.sync_time()
        for _ in range(50):
            q = self.hub.qlens()
            busy = [i for i in range(self.n) if i not in self.dropped and q[i] > 0]
            if not busy:
                return
            for i in busy:
                conn = self.hub.ports[i].conn
                conn.idle = False
                conn.wakeup.set()
            await self.settle(lambda: all(self.hub.ports[i].conn.idle for i in busy))
        raise HarnessError("announcement queues never drained")

    async def server_value(self, key: str) -> tuple[str, bool]:
        # (the driver adds the prefix: Model/ClientSidePrefix.lean addPrefix)
        ans = self.drv.ask("sget " + hx(key))
        v, p = ans.split(" ")
        return v.split("=", 1)[1], p.endswith("T")

    async def server_match(self, pattern: str) -> tuple[str, str]:
        """the server's keys matching the (prefixed) pattern and its readable content under them, as the caller names them
        (the driver translates with addPrefix / removePrefix)"""
        ans = self.drv.ask("smatch " + hx(pattern))
        if not ans.startswith("ks="):
            raise HarnessError(f"driver answered {ans!r} to smatch")
        ks, ps = ans.split(" ")
        return ks, ps

    async def exec_op(self, op):
        n = op[0]
        tok = self.codec.tok
        if n == "adv":
            CLOCK.advance(op[1])
            self.hub.sync_time()
            return "N", None
        c = op[1]
        b = self.clients[c]
        if n == "get":
            want, _ = await self.server_value(op[2])
            return "v=" + await tok(await b.get(op[2], default=SENT)), "v=" + want
        if n == "getmany":
            dflt = SENT if len(op) < 4 else VALUES[op[3]]
            dtok = await tok(dflt)
            want = [(await self.server_value(k))[0] for k in op[2]]
            vs = await b.get_many(*op[2], default=dflt)
            if not isinstance(vs, tuple) or len(vs) != len(op[2]):
                return f"?shape:{len(vs)} answers for {len(op[2])} keys", None
            # (with a default of the caller's, "nothing there" reads as that default)
            return "vs=" + ",".join([await tok(v) for v in vs]), "vs=" + ",".join(dtok if w == "-" else w for w in want)
        if n == "exists":
            _, p = await self.server_value(op[2])
            return _bool(await b.exists(op[2])), "T" if p else "F"
        if n == "scan":
            want, _ = await self.server_match(op[2])
            return "ks=" + ",".join([hx(k) async for k in b.scan(op[2])]), want
        if n == "getmatch":
            _, want = await self.server_match(op[2])
            out = []
            async for k, v in b.get_match(op[2]):
                out.append(hx(k) + "=" + await tok(v))
            return "ps=" + ",".join(out), want
        if n == "getexpire":
            # (no oracle: the answer may come from the local copy's own deadline, which the code lets differ from the server's)
            return _int(await b.get_expire(op[2])), None
        if n == "set":
            r = await b.set(op[2], VALUES[op[3]], expire=secs(op[4]), exist={"a": None, "nx": False, "xx": True}[op[5]])
            return _bool(r), None
        if n == "setmany":
            await b.set_many({k: VALUES[v] for k, v in op[3]}, expire=secs(op[2]))
            return "N", None
        if n == "incr":
            return _int(await b.incr(op[2], op[3], expire=secs(op[4]))), None
        if n == "delete":
            return _bool(await b.delete(op[2])), None
        if n == "delmany":
            await b.delete_many(*op[2])
            return "N", None
        if n == "delmatch":
            await b.delete_match(op[2])
            return "N", None
        if n == "expire":
            await b.expire(op[2], op[3] / 8)
            return "N", None
        if n == "clear":
            await b.clear()
            return "N", None
        if n == "setlock":
            return _bool(await b.set_lock(op[2], TOKENS[op[3]], op[4] / 8)), None
        if n == "unlock":
            return _int(await b.unlock(op[2], TOKENS[op[3]])), None
        if n == "deliver":
            return "N", None
        if n == "drop":
            port = self.hub.ports[c]
            port.allow_connect.clear()
            if self.drv.ask(f"untrack {c}") != "ok":
                raise HarnessError("driver refused untrack")
            port.conn.broken = True
            port.conn.wakeup.set()
            self.dropped.add(c)
            await self.settle(lambda: not b._listen_started.is_set())
            self.due[c] = CLOCK.ticks() + RECONNECT_TICKS
            return "N", None
        if n == "refuse":
            # the connect attempt the listener makes once its wait is over is answered by a refusal NOW
            port = self.hub.ports[c]
            if c not in self.dropped:
                raise HarnessError(f"history refuses a connect attempt of client {c}, which is connected")
            if CLOCK.ticks() < self.due[c]:
                raise HarnessError(f"history answers a connect attempt of client {c} before its reconnect wait is over")
            await self.settle(lambda: port.waiting_connect)
            r0 = port.refused
            port.refuse_next = 1
            port.allow_connect.set()
            await self.settle(lambda: port.refused == r0 + 1 and not port.waiting_connect)
            if b._listen_started.is_set():
                raise HarnessError("listener running after a refused connect attempt")
            self.due[c] = CLOCK.ticks() + RECONNECT_TICKS
            return "N", None
        if n == "reconnect":
            port = self.hub.ports[c]
            if c in self.dropped and CLOCK.ticks() < self.due[c]:
                raise HarnessError(f"history answers a connect attempt of client {c} before its reconnect wait is over")
            port.allow_connect.set()
            self.dropped.discard(c)
            self.due.pop(c, None)
            await self.settle(lambda: b._listen_started.is_set() and port.conn is not None and port.conn.idle)
            return "N", None
        raise HarnessError(f"unknown op {op!r}")


def run_case(drv, nclients, ops, prefix=None):
    lockeys = case_keys(ops)

    async def go():
        rn = Runner(drv, nclients, prefix)
        await rn.setup()
        steps = []
        for op in ops:
            try:
                out, want = await rn.exec_op(op)
                detail = ""
            except HarnessError:
                raise
            except Exception as exc:  # noqa: BLE001
                out, want, detail = "RAISEOTHER", None, f"{type(exc).__name__}: {exc}"
            await rn.pump()
            line = model_line(op, rn.codec)
            a = drv.ask("op " + line)
            if not a.startswith("model="):
                raise HarnessError(f"driver answered {a!r} to `{line}`")
            model = a.split(" ")[0].split("=", 1)[1]
            if op[0] == "getmany" and len(op) > 3 and model.startswith("vs="):
                dtok = await rn.codec.tok(VALUES[op[3]])
                model = "vs=" + ",".join(dtok if x == "-" else x for x in model[3:].split(","))
            mq = a.split(" q=")[1]
            # the model delivers explicitly: after every command, every connected client
            if op[0] not in ("drop",):
                for i in range(nclients):
                    if i not in rn.dropped:
                        drv.ask(f"op deliver {i}")
            d = drv.ask("dump")
            step = {"op": op, "line": line, "impl": out, "server": want, "model": model, "detail": detail,
                    "model_queues_before_delivery": mq, "dump": d}
            if rn.dropped or op[0] in ("reconnect", "refuse", "drop"):
                # what the model says the local copies of the clients in an outage hold at this point (shown in replays)
                who = sorted(rn.dropped | ({op[1]} if op[0] in ("reconnect", "refuse", "drop") else set()))
                step["model_local"] = {str(i): drv.ask(f"loc {i} " + " ".join(hx(k) for k in lockeys)) for i in who}
            steps.append(step)
        return steps            # (no close(): it would wait for the parked listeners; vtime.run cancels them)

    try:
        return vtime.run(go)
    finally:
        rs.unregister()
