"""C20: histories of several real `BcastClientSide` instances sharing one stub server (the Lean model, with BCAST tracking).

An op is a JSON-able list whose second element is the client index, e.g. ["set", 0, "k:a", "t1", 8, "nx"],
["deliver", 1] (no-op marker: the harness pumps every listener after every command anyway), ["drop", 1],
["reconnect", 1], ["adv", 8].  TTLs / advances are ticks of 1/8 s.
"""
from __future__ import annotations

import asyncio
import logging

from . import redisstub as rs
from . import vtime
from .core import HarnessError
from .redishist import MS, SENT, TOKENS, VALUES, Codec, _bool, _int, bytes_tok, hx, secs, ttl_ms
from .vtime import CLOCK

logging.getLogger("cashews").setLevel(logging.CRITICAL + 1)

KEYS = ["k:a", "k:b", "j:a"]
LOCKS = ["L:a"]
PATTERNS = ["k:*", "*:a", "*", "k:a", "j*"]
READ_PATTERNS = ["k:*", "k:a", "j*", "k*", "j:*", "k:b*"]      # (lock keys hold raw tokens: never swept by get_match)
CVALS = ["i1", "i2", "i-1", "i0", "t0", "t1", "t2", "none", "bytes"]
TTLS = [None, None, None, 0, 4, 8, 16, 80]
ADVS = [0, 1, 4, 8, 16, 40]
RECONNECT_TICKS = 80          # `_RECONNECT_WAIT = 10` seconds
PREFIX = "cashews:"


def gen_history(rng, nclients: int, maxlen: int, with_drops: bool = True):
    ops = []
    dropped: dict[int, int] = {}      # client -> ticks since its drop
    n = rng.randint(2, maxlen)
    pick = rng.choice
    kinds = (["get"] * 6 + ["set"] * 5 + ["setc"] * 3 + ["getmany"] * 2 + ["exists"] * 2 + ["incr"] * 2 + ["delete"] * 2 +
             ["delmany", "delmatch", "expire", "clear", "setmany", "setlock", "unlock", "adv", "adv", "adv"] +
             ["getmatch", "scan", "getexpire", "getexpire"] +
             (["drop", "reconnect", "reconnect"] if with_drops else []))
    while len(ops) < n:
        k = pick(kinds)
        c = rng.randrange(nclients)
        if k == "get":
            ops.append(["get", c, pick(KEYS)])      # (lock keys hold raw tokens, not serializer output: they are probed with exists)
        elif k == "getmany":
            ops.append(["getmany", c, rng.sample(KEYS + ["k:zz"], rng.randint(1, 3))])
        elif k == "exists":
            ops.append(["exists", c, pick(KEYS + LOCKS)])
        elif k == "getmatch":
            ops.append(["getmatch", c, pick(READ_PATTERNS)])
        elif k == "scan":
            ops.append(["scan", c, pick(PATTERNS)])
        elif k == "getexpire":
            ops.append(["getexpire", c, pick(KEYS + LOCKS)])
        elif k == "set":
            ops.append(["set", c, pick(KEYS), pick(CVALS), pick(TTLS), "a"])
        elif k == "setc":
            key = pick(KEYS)
            ops.append(["set", c, key, pick(CVALS), pick(TTLS), pick(["nx", "xx"])])
            ops.append(["get", c, key])                      # a rejected conditional write must not be readable
        elif k == "setmany":
            keys = rng.sample(KEYS, rng.randint(1, 2))
            ops.append(["setmany", c, pick(TTLS), [[kk, pick(CVALS)] for kk in keys]])
        elif k == "incr":
            ops.append(["incr", c, pick(["k:b", "j:a"]), pick([1, 1, -1, 2]), pick([None, None, 8, 16])])
        elif k == "delete":
            ops.append(["delete", c, pick(KEYS)])
        elif k == "delmany":
            ops.append(["delmany", c, rng.sample(KEYS, rng.randint(1, 2))])
        elif k == "delmatch":
            ops.append(["delmatch", c, pick(PATTERNS)])
        elif k == "expire":
            ops.append(["expire", c, pick(KEYS), pick([0, 4, 8, 16, 80])])      # (0: the server deletes the key, D37)
        elif k == "clear":
            ops.append(["clear", c])
        elif k == "setlock":
            ops.append(["setlock", c, pick(LOCKS), pick(["tokA", "tokB"]), pick([4, 8, 16])])
            ops.append(["exists", c, LOCKS[0]])
        elif k == "unlock":
            ops.append(["unlock", c, pick(LOCKS), pick(["tokA", "tokB"])])
        elif k == "adv":
            t = pick(ADVS)
            ops.append(["adv", t])
            for d in dropped:
                dropped[d] += t
        elif k == "drop":
            if c not in dropped:
                ops.append(["drop", c])
                dropped[c] = 0
            elif nclients > 1 and rng.random() < 0.7:
                # a disconnected client keeps working: what it wrote itself must not be served from its local copy
                key = pick(KEYS)
                other = pick([x for x in range(nclients) if x != c])
                ops.append(["set", c, key, pick(CVALS), None, "a"])
                ops.append(pick([["delete", other, key], ["set", other, key, pick(CVALS), None, "a"]]))
                ops.append(["exists", c, key])
                ops.append(["get", c, key])
        elif k == "reconnect":
            cand = [d for d in dropped]
            if cand:
                d = pick(cand)
                if dropped[d] < RECONNECT_TICKS:
                    t = RECONNECT_TICKS - dropped[d] if rng.random() < 0.7 else RECONNECT_TICKS - dropped[d] + pick([0, 8, 40])
                    # part of the wait may be spent working: a write by the dropped client shortly before it reconnects
                    if rng.random() < 0.5 and t > 8:
                        ops.append(["adv", t - 8])
                        ops.append(["set", d, pick(KEYS), pick(CVALS), None, "a"])
                        ops.append(["adv", 8])
                    else:
                        ops.append(["adv", t])
                    for x in dropped:
                        dropped[x] += t
                ops.append(["reconnect", d])
                del dropped[d]
                # what the staleness would show up on: the reconnected client reads, another client writes, it reads again
                if rng.random() < 0.6 and nclients > 1:
                    key = pick(KEYS)
                    other = pick([x for x in range(nclients) if x != d])
                    ops.append(["get", d, key])
                    ops.append(["set", other, key, pick(CVALS), None, "a"])
                    ops.append(["get", d, key])
    return ops


def model_line(op, codec: Codec) -> str:
    n = op[0]
    if n == "adv":
        return f"adv {op[1] * MS}"
    c = op[1]
    if n in ("get", "exists", "delete", "getexpire", "getmatch", "scan"):
        return f"{n} {c} {hx(op[2])}"
    if n in ("getmany", "delmany"):
        return " ".join([n, str(c)] + [hx(k) for k in op[2]])
    if n == "set":
        return f"set {c} {hx(op[2])} {codec.table[op[3]]} {ttl_ms(op[4])} {op[5]}"
    if n == "setmany":
        return " ".join(["setmany", str(c), ttl_ms(op[2])] + [f"{hx(k)}={codec.table[v]}" for k, v in op[3]])
    if n == "incr":
        return f"incr {c} {hx(op[2])} {op[3]} {ttl_ms(op[4])}"
    if n == "delmatch":
        return f"delmatch {c} {hx(op[2])}"
    if n == "expire":
        return f"expire {c} {hx(op[2])} {op[3] * MS}"
    if n == "setlock":
        return f"setlock {c} {hx(op[2])} {bytes_tok(TOKENS[op[3]])} {op[4] * MS}"
    if n == "unlock":
        return f"unlock {c} {hx(op[2])} {bytes_tok(TOKENS[op[3]])}"
    if n in ("clear", "drop", "reconnect", "deliver"):
        return f"{n} {c}"
    raise HarnessError(f"unknown op {op!r}")


class Runner:
    def __init__(self, drv: rs.PersistentDriver, nclients: int):
        self.drv = drv
        self.n = nclients

    async def setup(self):
        from cashews.backends.redis.client_side import BcastClientSide

        self.hub = rs.Hub(self.drv, self.n)
        rs.unregister()
        self.clients = []
        for i in range(self.n):
            url = f"redis://c{i}:6379"
            rs.register(self.hub.ports[i], url)
            b = BcastClientSide(address=url, suppress=True)
            await b.init()
            if not b._listen_started.is_set():
                raise HarnessError(f"listener of client {i} did not start")
            self.clients.append(b)
        self.codec = Codec(self.clients[0]._serializer, self.clients[0])
        encs = await self.codec.prepare()
        if self.drv.ask("enc " + " ".join(encs)) != "ok":
            raise HarnessError("driver refused enc")
        self.dropped: set[int] = set()

    async def settle(self, what=lambda: True, limit=400):
        for _ in range(limit):
            if what():
                return
            await asyncio.sleep(0)
        raise HarnessError("the listeners did not settle")

    async def pump(self):
        """let every connected listener process everything that was announced to it (a quiescent point)"""
        self.hub.sync_time()
        for _ in range(50):
            q = self.hub.qlens()
            busy = [i for i in range(self.n) if i not in self.dropped and q[i] > 0]
            if not busy:
                return
            for i in busy:
                conn = self.hub.ports[i].conn
                conn.idle = False
                conn.wakeup.set()
            await self.settle(lambda: all(self.hub.ports[i].conn.idle for i in busy))
        raise HarnessError("announcement queues never drained")

    async def server_value(self, key: str) -> tuple[str, bool]:
        ans = self.drv.ask("sget " + hx(PREFIX + key))
        v, p = ans.split(" ")
        return v.split("=", 1)[1], p.endswith("T")

    async def server_match(self, pattern: str) -> tuple[str, str]:
        """the server's keys matching the pattern and its readable content under them (prefix stripped)"""
        ans = self.drv.ask("smatch " + hx(PREFIX + pattern))
        if not ans.startswith("ks="):
            raise HarnessError(f"driver answered {ans!r} to smatch")
        ks, ps = ans.split(" ")
        pfx = PREFIX.encode().hex()

        def strip(items):
            out = []
            for it in items.split(",") if items else []:
                if not it.startswith(pfx):
                    raise HarnessError(f"key without the prefix on the stub server: {it}")
                out.append(it[len(pfx):])
            return ",".join(out)

        return "ks=" + strip(ks[3:]), "ps=" + strip(ps[3:])

    async def exec_op(self, op):
        n = op[0]
        tok = self.codec.tok
        if n == "adv":
            CLOCK.advance(op[1])
            self.hub.sync_time()
            return "N", None
        c = op[1]
        b = self.clients[c]
        if n == "get":
            want, _ = await self.server_value(op[2])
            return "v=" + await tok(await b.get(op[2], default=SENT)), "v=" + want
        if n == "getmany":
            want = [(await self.server_value(k))[0] for k in op[2]]
            vs = await b.get_many(*op[2], default=SENT)
            if len(vs) != len(op[2]):
                return f"?shape:{len(vs)}", None
            return "vs=" + ",".join([await tok(v) for v in vs]), "vs=" + ",".join(want)
        if n == "exists":
            _, p = await self.server_value(op[2])
            return _bool(await b.exists(op[2])), "T" if p else "F"
        if n == "scan":
            want, _ = await self.server_match(op[2])
            return "ks=" + ",".join([hx(k) async for k in b.scan(op[2])]), want
        if n == "getmatch":
            _, want = await self.server_match(op[2])
            out = []
            async for k, v in b.get_match(op[2]):
                out.append(hx(k) + "=" + await tok(v))
            return "ps=" + ",".join(out), want
        if n == "getexpire":
            # (no oracle: the answer may come from the local copy's own deadline, which the code lets differ from the server's)
            return _int(await b.get_expire(op[2])), None
        if n == "set":
            r = await b.set(op[2], VALUES[op[3]], expire=secs(op[4]), exist={"a": None, "nx": False, "xx": True}[op[5]])
            return _bool(r), None
        if n == "setmany":
            await b.set_many({k: VALUES[v] for k, v in op[3]}, expire=secs(op[2]))
            return "N", None
        if n == "incr":
            return _int(await b.incr(op[2], op[3], expire=secs(op[4]))), None
        if n == "delete":
            return _bool(await b.delete(op[2])), None
        if n == "delmany":
            await b.delete_many(*op[2])
            return "N", None
        if n == "delmatch":
            await b.delete_match(op[2])
            return "N", None
        if n == "expire":
            await b.expire(op[2], op[3] / 8)
            return "N", None
        if n == "clear":
            await b.clear()
            return "N", None
        if n == "setlock":
            return _bool(await b.set_lock(op[2], TOKENS[op[3]], op[4] / 8)), None
        if n == "unlock":
            return _int(await b.unlock(op[2], TOKENS[op[3]])), None
        if n == "deliver":
            return "N", None
        if n == "drop":
            port = self.hub.ports[c]
            port.allow_connect.clear()
            if self.drv.ask(f"untrack {c}") != "ok":
                raise HarnessError("driver refused untrack")
            port.conn.broken = True
            port.conn.wakeup.set()
            self.dropped.add(c)
            await self.settle(lambda: not b._listen_started.is_set())
            return "N", None
        if n == "reconnect":
            port = self.hub.ports[c]
            port.allow_connect.set()
            self.dropped.discard(c)
            await self.settle(lambda: b._listen_started.is_set() and port.conn is not None and port.conn.idle)
            return "N", None
        raise HarnessError(f"unknown op {op!r}")


def run_case(drv, nclients, ops):
    async def go():
        rn = Runner(drv, nclients)
        await rn.setup()
        steps = []
        for op in ops:
            try:
                out, want = await rn.exec_op(op)
                detail = ""
            except HarnessError:
                raise
            except Exception as exc:  # noqa: BLE001
                out, want, detail = "RAISEOTHER", None, f"{type(exc).__name__}: {exc}"
            await rn.pump()
            line = model_line(op, rn.codec)
            a = drv.ask("op " + line)
            if not a.startswith("model="):
                raise HarnessError(f"driver answered {a!r} to `{line}`")
            model = a.split(" ")[0].split("=", 1)[1]
            mq = a.split(" q=")[1]
            # the model delivers explicitly: after every command, every connected client
            if op[0] not in ("drop",):
                for i in range(nclients):
                    if i not in rn.dropped:
                        drv.ask(f"op deliver {i}")
            d = drv.ask("dump")
            steps.append({"op": op, "line": line, "impl": out, "server": want, "model": model, "detail": detail,
                          "model_queues_before_delivery": mq, "dump": d})
        return steps            # (no close(): it would wait for the parked listeners; vtime.run cancels them)

    try:
        return vtime.run(go)
    finally:
        rs.unregister()
