"""redis.exceptions (the classes cashews imports, with redis-py's hierarchy)."""


class RedisError(Exception):
    pass


class ConnectionError(RedisError):  # noqa: A001
    pass


class TimeoutError(RedisError):  # noqa: A001
    pass


class ResponseError(RedisError):
    pass


class DataError(RedisError):
    pass


class NoScriptError(ResponseError):
    pass


class PubSubError(RedisError):
    pass
