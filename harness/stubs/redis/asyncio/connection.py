"""Connection pools of the stub: a pool only knows which server object its URL denotes."""
from __future__ import annotations

_SERVERS: dict = {}


def register_server(url: str | None, server) -> None:
    """harness entry point: `server` answers the wire-level commands sent to `url` (None = any url)."""
    _SERVERS[url] = server


def unregister_servers() -> None:
    _SERVERS.clear()


class ConnectionPool:
    def __init__(self, url: str | None = None, **kwargs):
        self.url = url
        self.connection_kwargs = kwargs
        self.disconnected = 0

    @classmethod
    def from_url(cls, url: str, **kwargs):
        return cls(url, **kwargs)

    @property
    def server(self):
        srv = _SERVERS.get(self.url, _SERVERS.get(None))
        if srv is None:
            from ..exceptions import ConnectionError

            raise ConnectionError(f"stub redis: no server registered for {self.url!r}")
        return srv

    async def disconnect(self, inuse_connections: bool = True):
        self.disconnected += 1

    async def aclose(self):
        await self.disconnect()


class BlockingConnectionPool(ConnectionPool):
    pass
