"""redis.asyncio.client of the stub: `Redis`, `Pipeline`, `PubSub`, `BitFieldOperation`.

Only the calls cashews makes are implemented; each one builds the same command array redis-py 5.x builds
(our reading; redis-py is not available here) and hands it to `execute_command`.
"""
from __future__ import annotations

from ..exceptions import ConnectionError, RedisError, ResponseError  # noqa: F401,A004
from .connection import ConnectionPool


def _list_or_args(keys, args):
    try:
        iter(keys)
        if isinstance(keys, (bytes, str)):
            keys = [keys]
        else:
            keys = list(keys)
    except TypeError:
        keys = [keys]
    if args:
        keys.extend(args)
    return keys


def _str_if_bytes(v):
    return v.decode("utf-8", errors="replace") if isinstance(v, bytes) else v


def _bool_ok(r):
    return _str_if_bytes(r) == "OK"


# redis-py response callbacks (RESP2) for the commands used
_CALLBACKS = {
    "SET": lambda r: r and _str_if_bytes(r) == "OK",
    "FLUSHDB": _bool_ok,
    "PING": lambda r: _str_if_bytes(r) == "PONG",
    "PEXPIRE": bool,
    "EXPIRE": bool,
    "SCAN": lambda r: (int(r[0]), r[1]),
    "SCRIPT LOAD": _str_if_bytes,
    "CLIENT ID": int,
}


class BitFieldOperation:
    """redis.commands.core.BitFieldOperation"""

    def __init__(self, client, key, default_overflow=None):
        self.client = client
        self.key = key
        self._default_overflow = default_overflow
        self.operations: list[tuple] = []
        self._last_overflow = "WRAP"
        self.reset()

    def reset(self):
        self.operations = []
        self._last_overflow = "WRAP"
        self.overflow(self._default_overflow or self._last_overflow)

    def overflow(self, overflow):
        overflow = overflow.upper()
        if overflow != self._last_overflow:
            self._last_overflow = overflow
            self.operations.append(("OVERFLOW", overflow))
        return self

    def incrby(self, fmt, offset, increment, overflow=None):
        if overflow is not None:
            self.overflow(overflow)
        self.operations.append(("INCRBY", fmt, offset, increment))
        return self

    def get(self, fmt, offset):
        self.operations.append(("GET", fmt, offset))
        return self

    def set(self, fmt, offset, value):
        self.operations.append(("SET", fmt, offset, value))
        return self

    @property
    def command(self):
        cmd = ["BITFIELD", self.key]
        for ops in self.operations:
            cmd.extend(ops)
        return cmd

    def execute(self):
        command = self.command
        self.reset()
        return self.client.execute_command(*command)


class _Commands:
    """the command methods: plain functions returning whatever `self.execute_command` returns
    (a coroutine on a client, the pipeline itself on a pipeline) - as in redis-py"""

    def set(self, name, value, ex=None, px=None, nx=False, xx=False, keepttl=False, get=False, exat=None, pxat=None):
        pieces = [name, value]
        if ex is not None:
            pieces.extend(["EX", ex])
        if px is not None:
            pieces.extend(["PX", px])
        if exat is not None:
            pieces.extend(["EXAT", exat])
        if pxat is not None:
            pieces.extend(["PXAT", pxat])
        if keepttl:
            pieces.append("KEEPTTL")
        if nx:
            pieces.append("NX")
        if xx:
            pieces.append("XX")
        if get:
            pieces.append("GET")
        return self.execute_command("SET", *pieces)

    def get(self, name):
        return self.execute_command("GET", name)

    def mget(self, keys, *args):
        args = _list_or_args(keys, args)
        return self.execute_command("MGET", *args)

    def unlink(self, *names):
        return self.execute_command("UNLINK", *names)

    def delete(self, *names):
        return self.execute_command("DEL", *names)

    def exists(self, *names):
        return self.execute_command("EXISTS", *names)

    def pexpire(self, name, time, nx=False, xx=False, gt=False, lt=False):
        return self.execute_command("PEXPIRE", name, time)

    def ttl(self, name):
        return self.execute_command("TTL", name)

    def pttl(self, name):
        return self.execute_command("PTTL", name)

    def incrby(self, name, amount=1):
        return self.execute_command("INCRBY", name, amount)

    incr = incrby

    def scan(self, cursor=0, match=None, count=None, _type=None, **kwargs):
        pieces = [cursor]
        if match is not None:
            pieces.extend(["MATCH", match])
        if count is not None:
            pieces.extend(["COUNT", count])
        if _type is not None:
            pieces.extend(["TYPE", _type])
        return self.execute_command("SCAN", *pieces)

    def flushdb(self, asynchronous=False, **kwargs):
        args = ["ASYNC"] if asynchronous else []
        return self.execute_command("FLUSHDB", *args)

    def dbsize(self, **kwargs):
        return self.execute_command("DBSIZE")

    def ping(self, **kwargs):
        return self.execute_command("PING")

    def memory_usage(self, key, samples=None, **kwargs):
        args = [] if samples is None else ["SAMPLES", samples]
        return self.execute_command("MEMORY USAGE", key, *args)

    def sadd(self, name, *values):
        return self.execute_command("SADD", name, *values)

    def srem(self, name, *values):
        return self.execute_command("SREM", name, *values)

    def spop(self, name, count=None):
        args = [count] if count is not None else []
        return self.execute_command("SPOP", name, *args)

    def script_load(self, script):
        return self.execute_command("SCRIPT LOAD", script)

    def evalsha(self, sha, numkeys, *keys_and_args):
        return self.execute_command("EVALSHA", sha, numkeys, *keys_and_args)

    def bitfield(self, key, default_overflow=None):
        return BitFieldOperation(self, key, default_overflow=default_overflow)


class Redis(_Commands):
    response_callbacks = _CALLBACKS

    def __init__(self, *, connection_pool: ConnectionPool | None = None, single_connection_client=False, **kwargs):
        if connection_pool is None:
            connection_pool = ConnectionPool(None, **kwargs)
        self.connection_pool = connection_pool
        self.auto_close_connection_pool = False
        self.single_connection_client = single_connection_client
        self.closed = 0

    @classmethod
    def from_pool(cls, connection_pool: ConnectionPool):
        client = cls(connection_pool=connection_pool)
        client.auto_close_connection_pool = True
        return client

    @classmethod
    def from_url(cls, url: str, **kwargs):
        client = cls(connection_pool=ConnectionPool.from_url(url, **kwargs))
        client.auto_close_connection_pool = True
        return client

    async def initialize(self):
        return self

    async def __aenter__(self):
        return await self.initialize()

    async def __aexit__(self, *exc):
        await self.aclose()

    async def execute_command(self, *args, **options):
        """one round trip: raises ConnectionError when the server is unreachable, ResponseError for an error reply"""
        reply = await self.connection_pool.server.execute(self, args)
        cb = self.response_callbacks.get(args[0])
        return cb(reply) if cb is not None else reply

    def pipeline(self, transaction: bool = True, shard_hint=None):
        return Pipeline(self.connection_pool, self.response_callbacks, transaction, shard_hint)

    def pubsub(self, **kwargs):
        return PubSub(self.connection_pool, **kwargs)

    async def aclose(self, close_connection_pool=None):
        self.closed += 1
        if close_connection_pool or (close_connection_pool is None and self.auto_close_connection_pool):
            await self.connection_pool.disconnect()

    close = aclose


StrictRedis = Redis


class Pipeline(Redis):
    """commands are queued; `execute()` sends MULTI … EXEC in one round trip"""

    def __init__(self, connection_pool, response_callbacks, transaction, shard_hint):
        self.connection_pool = connection_pool
        self.response_callbacks = response_callbacks
        self.is_transaction = transaction
        self.shard_hint = shard_hint
        self.command_stack: list[tuple] = []
        self.watching = False

    async def __aenter__(self):
        return self

    async def __aexit__(self, *exc):
        await self.reset()

    def __await__(self):
        return self._async_self().__await__()

    async def _async_self(self):
        return self

    def __len__(self):
        return len(self.command_stack)

    def __bool__(self):
        return True

    async def reset(self):
        self.command_stack = []
        self.watching = False

    def execute_command(self, *args, **options):  # type: ignore[override]
        self.command_stack.append((args, options))
        return self

    async def execute(self, raise_on_error: bool = True):
        stack = self.command_stack
        if not stack and not self.watching:
            return []
        try:
            replies = await self.connection_pool.server.execute_multi(self, [args for args, _ in stack], self.is_transaction)
        finally:
            await self.reset()
        out = []
        for (args, _), r in zip(stack, replies):
            if not isinstance(r, Exception):
                cb = self.response_callbacks.get(args[0])
                r = cb(r) if cb is not None else r
            out.append(r)
        if raise_on_error:
            for r in out:
                if isinstance(r, ResponseError):
                    raise r
        return out


class PubSub:
    """the dedicated connection cashews' client-side cache listens on (RESP2, tracking REDIRECTed to it)"""

    def __init__(self, connection_pool, shard_hint=None, ignore_subscribe_messages=False, **kwargs):
        self.connection_pool = connection_pool
        self.ignore_subscribe_messages = ignore_subscribe_messages
        self.connection = None
        self.channels: dict = {}

    async def execute_command(self, *args):
        if self.connection is None:
            self.connection = await self.connection_pool.server.pubsub_connect(self)
        await self.connection.send(args)

    async def parse_response(self, block: bool = True, timeout: float = 0):
        if self.connection is None:
            raise RuntimeError("pubsub connection not set: did you forget to call subscribe() or psubscribe()?")
        return await self.connection.read(block=block, timeout=timeout)

    async def subscribe(self, *args, **kwargs):
        for a in args:
            self.channels[a.encode() if isinstance(a, str) else a] = None
        await self.execute_command("SUBSCRIBE", *args)

    async def get_message(self, ignore_subscribe_messages: bool = False, timeout: float | None = 0.0):
        response = await self.parse_response(block=(timeout is None), timeout=timeout)
        if response:
            return await self.handle_message(response, ignore_subscribe_messages)
        return None

    async def handle_message(self, response, ignore_subscribe_messages=False):
        message_type = _str_if_bytes(response[0])
        if message_type in ("subscribe", "unsubscribe"):
            if ignore_subscribe_messages or self.ignore_subscribe_messages:
                return None
            return {"type": message_type, "pattern": None, "channel": response[1], "data": response[2]}
        if message_type == "message":
            return {"type": "message", "pattern": None, "channel": response[1], "data": response[2]}
        return None

    async def aclose(self):
        if self.connection is not None:
            await self.connection.close()
            self.connection = None

    close = aclose
    reset = aclose
