from .client import Pipeline, PubSub, Redis, StrictRedis  # noqa: F401
from .connection import BlockingConnectionPool, ConnectionPool  # noqa: F401
