"""Minimal stand-in for redis-py (NOT installed in this sandbox), used only inside the verification harness.

It implements the part of `redis.asyncio` that cashews imports and calls, following our reading of redis-py 5.x:
argument order of the command methods, `px/nx/xx`, the `bitfield` builder, MULTI/EXEC pipelines, `from_pool`,
response callbacks, pubsub for client tracking.  `execute_command(*args)` forwards the wire-level command array to a
*server object* registered with `redis.asyncio.connection.register_server(url, server)`; in the harness that server is
the Lean model `CashewsVerif.Redis.Srv` (see harness/redisstub.py).
"""
from . import asyncio, exceptions  # noqa: F401
from .exceptions import (  # noqa: F401
    ConnectionError,
    DataError,
    RedisError,
    ResponseError,
    TimeoutError,
)

__version__ = "5.0.8+verif.stub"
VERSION = (5, 0, 8)
