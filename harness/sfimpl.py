"""C07 - running the real single-flight code (cashews/decorators/locked.py `thunder_protection`, and the
`protected=True` glue of cashews/wrapper/decorators.py) under the gate scheduler.

A *case* is  {"variant": str, "callers": [[cid, k, n, kind, val(, arg)], ...], "schedule": [entry, ...](, "ttl": ticks)}
  caller cid calls f(k) - or, for the two-parameter variants, f(arg, k) / f(k=k, s=arg) (even caller ids use the
  keyword spelling); if that call starts an execution, the wrapped body passes n scripted suspension points and then
  returns val (kind "r"), raises the exception of shape val carrying a payload derived from the execution's id (kind
  "e"; harness/sfexc.py: plain classes and classes with keyword-only / multi-argument / message-formatting
  constructors, state in attributes or slots, an explicit cause, notes), or ENDS CANCELLED (kind "k": the body itself
  raises CancelledError - val 0: `raise`, 1: an inner future it awaits is cancelled underneath it, 2: a child task it
  awaits is cancelled; nobody cancels a caller and nobody cancels the execution task from outside).
  schedule entries: see harness/sfsched.py - among them ("tick", d): d ticks of virtual time pass while the bodies
  stay suspended.  "ttl" is the decorator's ttl in ticks (a multiple of 8 = whole seconds; default 8192 = 1024 s, far
  longer than any run); cases with time steps use ttls of 1-2 s, so an execution can be in flight for less than, exactly,
  or longer than the ttl when the next caller arrives, and a stored result can expire between two calls.

The KEY of a call (`key_id`) is the cache key its arguments render to, as a small number - not the argument list:
  one-parameter variants, and two-parameter variants whose template is "sf:{k}" ("omit": the parameter `s` is left out
  of the key - a per-request session object in `cache_omit_obj`):  key = k, whatever `arg` is;
  two-parameter variants with the default template ("all": every parameter is in the key):  key = (k, arg).
Everything the harness counts per key (bodies running / started), the oracle and the model use this key.

`execute(case)` returns a Run: the effective trace, one observation per trace entry (what every caller has
received so far, how many bodies run / were started per key), the fine-grained event log written by the
wrapped body and the callers themselves, and the final outcomes.
"""
from __future__ import annotations

import asyncio
import contextvars
import gc
import logging
from dataclasses import dataclass, field

from . import sfexc, vtime
from .core import HarnessError
from .sched import TASK_ID
from .sfsched import SfSched

OLD_VARIANTS = ["bare", "bare_default", "cache", "cache_default", "early", "soft", "cache_lock", "cache_gated", "early_gated",
                "soft_gated"]
# two-parameter function f2(s, k):  "omit" - key template "sf:{k}" leaves `s` out;  "all" - default template, both in the key
# "ctx": one-parameter function whose key template reads the template context (`arg` = the tenant the caller's
# key_context sets);  "typed": one-parameter function called with k as int / bool / float (`arg` selects the type) - in both
# the key is (k, arg) although the call arguments are equal (ctx) or compare equal (typed)
# stack_*: TWO protected cache decorators on one function f(s, k), each with its own key template and its own single-flight:
#   coarse: outer key leaves `s` out, inner key has it;  equal: both leave it out;  finer: outer has it, inner leaves it out.
# At every layer overlapping calls with the same key OF THAT LAYER share that layer's execution, so calls that agree on k
# share one body whatever `s` is: as far as bodies and results go the key is k ("omit").
STACKS = {"stack_coarse": ("cache", "o:{k}", "soft", "i:{k}:{s}", False),
          "stack_coarse_early": ("early", "o:{k}", "cache", "i:{k}:{s}", True),      # a plain `wraps` decorator in between
          "stack_equal": ("soft", "o:{k}", "early", "i:{k}", False),
          "stack_finer": ("cache", "o:{k}:{s}", "soft", "i:{k}", True)}
# under time steps the two layers of stack_finer expire at different instants (the outer entry of a later `s` is younger)
UNTIMED = {"stack_finer"}
TWO_PARAM = {**{v: "omit" for v in STACKS}, "bare_ctx": "ctx", "cache_ctx": "ctx", "early_ctx": "ctx", "soft_ctx": "ctx",
             "bare_typed": "typed", "cache_typed": "typed", "early_fg_typed": "typed", "cache_lock_typed": "typed",
             "bare_omit": "omit", "cache_omit": "omit", "early_omit": "omit", "soft_omit": "omit", "cache_lock_omit": "omit",
             "cache_omit_obj": "omit", "early_omit_obj": "omit", "cache_omit_gated": "omit",
             "bare_default2": "all", "cache_default2": "all", "early_default2": "all", "early_fg_omit": "omit"}
# early_fg*: early(background=False) - the execution that starts a recalculation awaits it
# *_upper: cache / early / soft with upper=True (the facade's other code path, `_wrap_with_condition`; protected by default too)
UPPER_VARIANTS = ["cache_upper", "early_upper", "soft_upper"]
VARIANTS = OLD_VARIANTS + list(TWO_PARAM) + ["early_fg"] + UPPER_VARIANTS
OMIT = [v for v in TWO_PARAM if TWO_PARAM[v] == "omit"]
ALLARGS = [v for v in TWO_PARAM if TWO_PARAM[v] == "all"]
CACHING = {v: not v.startswith("bare") for v in VARIANTS}
# *_gated: the backend parks the execution right after a cache lookup that missed and right before it stores the
# result, so the execution is in flight - and callers arrive - while the wrapped body is not (yet / any more) running
GATED = {v: v.endswith("_gated") for v in VARIANTS}
EARLY = {v: v.startswith("early") for v in VARIANTS}
FOREGROUND = {v: v.startswith("early_fg") for v in VARIANTS}
CANCEL_MODES = 3


def arg_of(c) -> int:
    return c[5] if len(c) > 5 else 0


def key_id(variant: str, k: int, arg: int) -> int:
    """the cache key of a call as a number (see the module docstring)"""
    if TWO_PARAM.get(variant) in ("all", "ctx", "typed"):
        return 100 + 10 * k + arg
    return k


class Session:
    """stand-in for a per-request object that is deliberately kept out of the key (its str() holds its address)"""

    def __init__(self, v):
        self.v = v
TTL = 1024          # seconds: the default ttl, far longer than any run
INNER_TTL = 512     # early_ttl / soft_ttl of the default configuration
TICKS_PER_S = 8
DEFAULT_TTL_TICKS = TTL * TICKS_PER_S
# cases with time steps: early_ttl / soft_ttl far beyond anything a run can reach, so that `early` never starts its
# background recalculation and `soft` never re-runs the body for a value that is still stored - those are the TTL
# behaviours of C02/C14, not single-flight; here a stored value is a hit exactly as long as the backend holds it
FAR_TTL = 4096
MAX_RUN_TICKS = 2048


def early_ticks(case) -> int:
    """early_ttl (= soft_ttl) of the case in ticks.  A case may give one to `early` ("early_ttl": ticks < ttl): then stored
    values go stale before they expire and stale hits start RECALCULATIONS (bodies outside thunder_protection's table).
    Otherwise it is out of reach: 512 s when no time passes, 4096 s in timed cases.  The gated backend keeps it out of
    reach (an execution parked between its lookup and its `recalculations` check is not modelled); so does `soft`."""
    v = case["variant"]
    if "early_ttl" in case and EARLY[v] and not GATED[v]:
        t = int(case["early_ttl"])
        if t <= 0 or t % TICKS_PER_S:
            raise HarnessError(f"C07 case: early_ttl must be a positive multiple of {TICKS_PER_S} ticks, not {t}")
        return t
    return (FAR_TTL if "ttl" in case else INNER_TTL) * TICKS_PER_S


def ttl_ticks(case) -> int:
    t = int(case.get("ttl", DEFAULT_TTL_TICKS))
    if t <= 0 or t % TICKS_PER_S:
        raise HarnessError(f"C07 case: ttl must be a positive multiple of {TICKS_PER_S} ticks, not {t}")
    return t


class SfLoop(vtime.VLoop):
    """the virtual loop without the sleep(0)-spin rule (64 busy iterations = one tick): the gate scheduler keeps the loop
    busy all the time, and in this check time must pass exactly when the schedule says so"""
    SPIN = 1 << 62


def _vrun(coro_fn):
    """vtime.run on an SfLoop"""
    vtime.CLOCK.reset()
    loop = SfLoop()
    asyncio.set_event_loop(loop)
    try:
        return loop.run_until_complete(coro_fn())
    finally:
        try:
            pending = [t for t in asyncio.all_tasks(loop) if not t.done()]
            for t in pending:
                t.cancel()
            if pending:
                loop.run_until_complete(asyncio.gather(*pending, return_exceptions=True))
        finally:
            asyncio.set_event_loop(None)
            loop.close()
# an execution whose waiters were all cancelled and that then raises has nobody to hand its exception to; asyncio logs
# "Task exception was never retrieved" when such a task is collected.  Expected here, and not an observable of C07.
logging.getLogger("asyncio").setLevel(logging.CRITICAL)
_COUNT = [0]
SCRIPT: contextvars.ContextVar = contextvars.ContextVar("verif_sf_script", default=None)


@dataclass
class Run:
    eff: list = field(default_factory=list)
    obs: list = field(default_factory=list)
    events: list = field(default_factory=list)
    final: dict = field(default_factory=dict)
    maxrun: dict = field(default_factory=dict)
    stuck: bool = False
    branching: list = field(default_factory=list)
    ticks: int = 0
    cancelled_by_harness: list = field(default_factory=list)
    leftover: int = 0
    frozen: list = field(default_factory=list)
    busy_waits: int = 0
    returned: dict = field(default_factory=dict)     # observation of a returned error-like object -> its value code
    raised: dict = field(default_factory=dict)       # observation -> "E<shape>.<x>": what each body raised
    raised_obs: dict = field(default_factory=dict)   # x -> observation (for reports)
    received_obs: dict = field(default_factory=dict)  # caller -> observation of the exception it ended with


def outcome_code(task: asyncio.Task, own_cancel: bool = True, raised=None, received=None, cid=None, returned=None) -> str:
    """C: the caller itself was cancelled (by the schedule);  K: it ended with CancelledError without having been
    cancelled - what the await of an execution that ended cancelled delivers;  E<shape>.<x>: it ended with an exception
    that is, in every observable respect (sfexc.observe), the one the body of execution x raised"""
    if not task.done():
        return "W"
    if task.cancelled():
        return "C" if own_cancel else "K"
    exc = task.exception()
    if exc is not None:
        obs = sfexc.observe(exc)
        if received is not None:
            received[cid] = obs
        return (raised or {}).get(obs) or sfexc.describe(exc)
    r = task.result()
    if isinstance(r, int) and not isinstance(r, bool):
        return f"R{r}"
    if isinstance(r, (BaseException, sfexc.ErrorValue)):
        code = (returned or {}).get(sfexc.observe_value(r))      # the object a body returned, received as a VALUE
        if code is not None:
            return f"R{code}"
    return "R?" + repr(r)[:40]


_CURRENT: list = [None]          # the scheduler of the run in progress (for the gated backend)
_GATE_CLS: list = [None]


def _exec_label():
    """inside an execution task (not a caller's own task): make sure it is labelled ("x", creator) and say so"""
    sched = _CURRENT[0]
    tid = TASK_ID.get()
    if sched is None or tid is None:
        return False
    if tid[0] == "x":
        return True
    if sched.callers.get(tid[1]) is asyncio.current_task():
        return False
    TASK_ID.set(("x", tid[1]))
    return True


def gate_backend():
    """`gmem://`: Memory whose get parks after a miss and whose set parks before storing (executions only)"""
    if _GATE_CLS[0] is None:
        import cashews
        from cashews.backends.memory import Memory

        class GateMemory(Memory):
            async def get(self, key, default=None):
                r = await super().get(key, default=default)
                if r is default and _exec_label():
                    # park after the execution's FIRST lookup that missed (the decorator's "is it cached?"); later reads
                    # of the same execution (soft re-reads the key after the body raised) are not scheduling points
                    sched, tid = _CURRENT[0], TASK_ID.get()
                    seen = sched.__dict__.setdefault("first_miss_seen", set())
                    if tid not in seen:
                        seen.add(tid)
                        await sched.point(("after-get-miss", key))
                return r

            async def set(self, key, value, *args, **kwargs):
                inside = _exec_label()
                if inside:
                    await _CURRENT[0].point(("before-set", key))
                r = await super().set(key, value, *args, **kwargs)
                if inside and _CURRENT[0].log is not None:
                    _CURRENT[0].log(("stored", TASK_ID.get()[1]))
                return r

        cashews.register_backend("gmem", GateMemory)
        _GATE_CLS[0] = GateMemory
    return "gmem://?check_interval=0"


def kept(variant: str, kind: str, val: int) -> bool:
    """does the cache decorator of the variant store what the body returned?  kind "r": yes; kind "v" (a returned object that
    looks like an error): `cache` and `early` do not store a value that is an Exception instance, `soft` stores everything"""
    if kind == "r":
        return True
    if kind != "v":
        return False
    if variant in STACKS and sfexc.is_exception_instance(val):
        raise HarnessError("C07 case: a stack of decorators with a returned Exception instance (the layers disagree on storing it)")
    return variant.startswith("soft") or not sfexc.is_exception_instance(val)


def gates_of(variant: str, n: int, kind: str, val: int = 0) -> int:
    """suspension points of an execution that runs the body (n scripted ones)"""
    if not GATED[variant]:
        return n
    return 1 + n + (1 if kept(variant, kind, val) else 0)


# "typed": k is passed as int / float / bool (k < 2; complex otherwise): 1, 1.0, True are equal and hash alike - three keys
def typed_value(k: int, arg: int):
    return (int, float, bool if k < 2 else complex)[arg](k)
CTX_TEMPLATE = "sf:{@:get(tenant)}:{k}"   # the key depends on the template context (`key_context(tenant=...)`), not on an argument


def typed_arg(value) -> int:
    return {int: 0, float: 1, bool: 2, complex: 2}[type(value)]


def typed_k(value) -> int:
    return int(value.real)


def current_tenant() -> int:
    """the tenant of the template context the running code sees (0 when there is none)"""
    import importlib
    ctx, _ = importlib.import_module("cashews.key_context").get()
    t = ctx.get("tenant") or "t0"
    return int(t[1:])


def build(variant: str, body, ttl=TTL, inner=INNER_TTL, reuse=(0, 0)):
    """decorate `body` the way the variant says (ttl / early_ttl = soft_ttl in seconds); returns (callable taking
    (k, arg, keyword_spelling), closer).  reuse = (b, a): the decorator OBJECT is applied to b other functions before and to
    a other functions after the function under test (`cached = cache(ttl=...)`; `@cached` on several functions)."""
    from cashews import key_context
    g, cache = _build(variant, body, ttl, inner, reuse)
    kind = TWO_PARAM.get(variant)
    if kind is None:
        return (lambda k, arg, kw: g(k)), cache
    if kind == "typed":
        return (lambda k, arg, kw: g(k=typed_value(k, arg)) if kw else g(typed_value(k, arg))), cache
    if kind == "ctx":
        async def call_ctx(k, arg, kw):
            with key_context(tenant=f"t{arg}"):
                return await (g(k=k) if kw else g(k))
        return call_ctx, cache
    obj = variant.endswith("_obj")

    def call(k, arg, kw):
        s_ = Session(arg) if obj else arg
        return g(k=k, s=s_) if kw else g(s_, k)
    return call, cache


def _build(variant: str, body, TTL, INNER_TTL, reuse=(0, 0)):
    import cashews
    from cashews import Cache, key_context

    async def f(k):
        return await body(k, None)

    async def f2(s, k):
        return await body(k, s)

    def others(n, tag):
        """functions that share the decorator object with the function under test; they are never called"""
        out = []
        for i in range(n):
            if variant in TWO_PARAM and TWO_PARAM[variant] in ("omit", "all"):
                async def other(s, k):
                    raise AssertionError("not called")
            else:
                async def other(k):
                    raise AssertionError("not called")
            other.__name__ = other.__qualname__ = f"other_{tag}{i}"
            out.append(other)
        return out

    if variant in STACKS:
        outer, okey, inner, ikey, between = STACKS[variant]
        cache = Cache()
        cache.setup("mem://")

        def layer(name, key):
            if name == "cache":
                return cache.cache(ttl=TTL, key=key)
            if name == "early":
                return cache.early(ttl=TTL, early_ttl=INNER_TTL, key=key)
            return cache.soft(ttl=TTL, soft_ttl=INNER_TTL, key=key)

        g = layer(inner, ikey)(f2)
        if between:
            from functools import wraps
            below = g

            @wraps(below)
            async def passthrough(*args, **kwargs):
                return await below(*args, **kwargs)
            g = passthrough
        return layer(outer, okey)(g), cache
    kind = TWO_PARAM.get(variant)
    func = f2 if kind in ("omit", "all") else f
    template = None if (kind == "all" or variant in ("bare_default", "cache_default")) else (
        CTX_TEMPLATE if kind == "ctx" else "sf:{k}")
    keyed = {} if template is None else {"key": template}
    cache = None
    if variant.startswith("bare"):
        deco = cashews.thunder_protection(**keyed)
        reuse = (0, 0)      # a bare thunder_protection object IS one registry: sharing it between functions is not the facade's reuse
    else:
        cache = Cache()
        cache.setup(gate_backend() if GATED[variant] else "mem://")
        if variant in UPPER_VARIANTS:
            keyed["upper"] = True
        if variant.startswith("cache_lock"):
            deco = cache.cache(ttl=TTL, lock=True, **keyed)
        elif variant.startswith("cache"):
            deco = cache.cache(ttl=TTL, **keyed)
        elif variant.startswith("early"):
            deco = cache.early(ttl=TTL, early_ttl=INNER_TTL, background=not FOREGROUND[variant], **keyed)
        elif variant.startswith("soft"):
            deco = cache.soft(ttl=TTL, soft_ttl=INNER_TTL, **keyed)
        else:
            raise ValueError(variant)
    with key_context(tenant="t0"):          # templates are checked when a function is decorated: the context name must exist
        for o in others(reuse[0], "b"):
            deco(o)
        g = deco(func)
        for o in others(reuse[1], "a"):
            deco(o)
    return g, cache


def execute(case: dict, cancel_budget: int = 0, tick_budget: int = 0, tick_sizes=()) -> Run:
    run = Run()
    callers = [tuple(c) for c in case["callers"]]
    variant = case["variant"]
    keys = sorted({key_id(variant, c[1], arg_of(c)) for c in callers})
    running = {k: 0 for k in keys}
    starts = {k: 0 for k in keys}
    run.maxrun = {k: 0 for k in keys}
    schedule = [tuple(e) if isinstance(e, list) else e for e in case.get("schedule", [])]
    sched = SfSched(schedule, cancel_budget=cancel_budget, tick_budget=tick_budget, tick_sizes=tick_sizes)
    sched.log = run.events.append
    spawned = {int(c_): int(p_) for c_, p_ in (case.get("spawned") or {}).items()}
    ctl = {int(c_): int(m_) for c_, m_ in (case.get("ctl") or {}).items()}
    if ctl and ("early_ttl" in case):
        raise HarnessError("C07 case: per-caller disabled commands together with a reachable early_ttl are not scripted")
    # (also for stacks: the inner layer is reached one loop iteration after the caller's step at the outer layer)
    sched.split_bursts = ("early_ttl" in case and EARLY[variant] and not GATED[variant]) or variant in STACKS
    _CURRENT[0] = sched

    async def end_cancelled(mode):
        """the body's own await is cancelled underneath it (nobody cancels this task)"""
        loop = asyncio.get_running_loop()
        if mode % CANCEL_MODES == 0:
            raise asyncio.CancelledError()
        if mode % CANCEL_MODES == 1:            # a reply future dropped by whoever owes it
            fut = loop.create_future()
            loop.call_soon(fut.cancel)
            return await fut
        never = asyncio.Event()                 # a child task that is cancelled
        child = loop.create_task(never.wait())
        loop.call_soon(child.cancel)
        return await child

    async def body(k_, s_):
        # the key is computed from the arguments the body actually received
        if TWO_PARAM.get(variant) == "typed":
            k = key_id(variant, typed_k(k_), typed_arg(k_))
        elif TWO_PARAM.get(variant) == "ctx":
            k = key_id(variant, k_, current_tenant())
        else:
            k = key_id(variant, k_, s_.v if isinstance(s_, Session) else (s_ if s_ is not None else 0))
        cid, n, kind, val = SCRIPT.get()
        run.events.append(("start", cid, k))
        for child in sorted(c_ for c_, p_ in spawned.items() if p_ == cid):
            # the body spawns a task (fire-and-forget follow-up, background refresh ...) that will call the function later
            if sched.spawn(child):
                run.events.append(("spawn", child, cid))
        running[k] = running.get(k, 0) + 1
        starts[k] = starts.get(k, 0) + 1
        run.maxrun[k] = max(run.maxrun.get(k, 0), running[k])
        tok = TASK_ID.set(("x", cid))
        how = "ok"
        try:
            try:
                for i in range(n):
                    await sched.point(("step", i))
            except asyncio.CancelledError:
                how = "cancelled"               # cancelled from outside at a scheduler point: never scripted
                raise
            if kind == "r":
                return val
            if kind == "v":
                obj = sfexc.make_value(val, cid)        # an error-like object is RETURNED, not raised
                run.returned[sfexc.observe_value(obj)] = sfexc.value_code(val, cid)
                return obj
            if kind == "k":
                return await end_cancelled(val)
            try:
                sfexc.raise_scripted(val, cid)
            except Exception as exc:  # noqa: BLE001 - record what is about to leave the body, then let it go
                obs = sfexc.observe(exc)
                run.raised[obs] = f"E{val % sfexc.NSHAPES}.{cid}"
                run.raised_obs[cid] = obs
                raise
        finally:
            running[k] -= 1
            run.events.append(("end", cid, k, how, kind, val))
            TASK_ID.reset(tok)

    ttl = ttl_ticks(case)

    async def main():
        f, cache = build(variant, body, ttl // TICKS_PER_S, early_ticks(case) // TICKS_PER_S, tuple(case.get("reuse", (0, 0))))

        def prog(cid, k, n, kind, val, arg=0):
            async def go():
                SCRIPT.set((cid, n, kind, val))
                run.events.append(("call", cid, key_id(variant, k, arg), arg))
                mask = ctl.get(cid, 0)
                if mask and cache is not None:
                    # the caller's CONTEXT has single commands disabled (1: get, 2: set, 3: both) - a partial disable, what
                    # `Cache-Control: no-cache / no-store` turn into; not the full disable
                    from cashews.commands import Command
                    cmds = [c_ for bit, c_ in ((1, Command.GET), (2, Command.SET)) if mask & bit]
                    with cache.disabling(*cmds):
                        return await f(k, arg, cid % 2 == 0)
                return await f(k, arg, cid % 2 == 0)
            return go

        def code(cid, t):
            return outcome_code(t, cid in sched.cancelled_by_harness, run.raised, run.received_obs, cid, run.returned)

        def snapshot():
            st = {}
            for cid in programs:
                t = sched.callers.get(cid)
                st[cid] = "N" if t is None or ("c", cid) in sched.parked else code(cid, t)
            run.events.append(("quiet",))
            return {"callers": st, "running": dict(running), "starts": dict(starts), "now": vtime.CLOCK.ticks()}

        programs = {c[0]: prog(*c) for c in callers}
        try:
            await sched.run_sf(programs, snapshot, deferred=set(spawned))
        finally:
            run.eff = [(k, list(v) if isinstance(v, list) else v) for k, v in sched.eff]
            run.obs = sched.obs
            run.stuck = sched.stuck
            run.busy_waits = sched.busy_waits
            run.branching = sched.branching
            run.cancelled_by_harness = list(sched.cancelled_by_harness)
            run.final = {cid: code(cid, t) for cid, t in sched.callers.items()}
            run.leftover = sum(running.values())
            run.ticks = vtime.CLOCK.ticks()
            run.frozen = list(run.events)      # what the loop clean-up does later is not part of the run
            if cache is not None:
                try:
                    await cache.close()
                except Exception:
                    pass

    try:
        _vrun(main)
    finally:
        # cashews memoises key templates per decorated function (lru_cache in cashews/key.py), which keeps this run's
        # closures - and through them the scheduler - alive; drop the tasks so that asyncio.all_tasks() (walked by
        # vtime.run) does not grow with the number of runs
        _CURRENT[0] = None
        sched.callers.clear()
        sched.tasks.clear()
        sched.parked.clear()
    _COUNT[0] += 1
    if _COUNT[0] % 500 == 0:
        gc.collect()
    return run
