"""Deterministic command-granularity scheduler for concurrency checks (C05, C06, C07, C15, C17).

A *managed task* parks on a future before every outermost backend command (and at every scripted
suspension point of a body, via `await SCHED.point(label)`).  The scheduler coroutine waits until the
loop is quiescent, then releases exactly one parked task chosen by the next schedule entry, or - if every
live task is asleep on a timer - lets the virtual loop jump to that timer.  A run is a pure function of
(program, schedule).  Runs on harness.vtime.VLoop.

Schedule entries:
    int i          release the i-th (mod n) parked task, tasks ordered by id
    ("cancel", t)  cancel managed task t (delivered at its current suspension point), then continue
Exhausted schedule: always release the lowest parked id.

The trace records what actually happened: ("run", tid, label), ("time", ticks), ("cancel", tid), ("done", tid, outcome).
"""
from __future__ import annotations

import asyncio
import contextvars
from typing import Any, Awaitable, Callable

from .vtime import CLOCK

TASK_ID: contextvars.ContextVar[Any] = contextvars.ContextVar("verif_task_id", default=None)
_DEPTH: contextvars.ContextVar[int] = contextvars.ContextVar("verif_gate_depth", default=0)

COMMANDS = [
    "set", "set_many", "get", "get_many", "get_match", "scan", "exists", "incr", "delete", "delete_many",
    "delete_match", "expire", "get_expire", "set_lock", "unlock", "is_locked", "ping", "clear", "get_bits",
    "incr_bits", "slice_incr", "set_add", "set_remove", "set_pop", "get_keys_count", "get_size",
]


class Sched:
    def __init__(self, schedule=()):
        self.schedule = list(schedule)
        self.pos = 0
        self.parked: dict[Any, tuple[asyncio.Future, Any]] = {}
        self.tasks: dict[Any, asyncio.Task] = {}
        self.trace: list[tuple] = []
        self.branching: list[int] = []      # number of parked tasks at each choice point (for enumeration)
        self.outcomes: dict[Any, Any] = {}
        self._wake: asyncio.Event | None = None
        self.max_steps = 5000

    # ---- called from managed tasks ---------------------------------------------------------------
    async def point(self, label: Any = None):
        """a suspension point: park until the scheduler releases this task"""
        tid = TASK_ID.get()
        if tid is None:
            return
        fut = asyncio.get_running_loop().create_future()
        self.parked[tid] = (fut, label)
        if self._wake is not None:
            self._wake.set()
        try:
            await fut
        finally:
            self.parked.pop(tid, None)

    async def gate(self, label: Any = None):
        """park before an *outermost* backend command only"""
        if _DEPTH.get() == 0:
            await self.point(label)

    # ---- scheduler -------------------------------------------------------------------------------
    async def _quiesce(self):
        loop = asyncio.get_running_loop()
        for _ in range(100000):
            await asyncio.sleep(0)
            if not loop._ready:
                return
        raise RuntimeError("scheduler: loop never became quiescent (ungated busy loop?)")

    def _next_choice(self, n: int):
        if self.pos < len(self.schedule):
            e = self.schedule[self.pos]
            self.pos += 1
            return e
        return 0

    async def run(self, programs: dict[Any, Callable[[], Awaitable]]):
        loop = asyncio.get_running_loop()
        self._wake = asyncio.Event()

        def starter(tid, fn):
            async def body():
                TASK_ID.set(tid)
                await self.point(("start",))
                return await fn()
            return body

        for tid, fn in programs.items():
            t = loop.create_task(starter(tid, fn)())
            self.tasks[tid] = t

            def done(task, tid=tid):
                if task.cancelled():
                    out = ("cancelled",)
                elif task.exception() is not None:
                    out = ("raised", type(task.exception()).__name__, str(task.exception())[:80])
                else:
                    out = ("returned", task.result())
                self.outcomes[tid] = out
                self.trace.append(("done", tid, out))
                self._wake.set()
            t.add_done_callback(done)

        steps = 0
        while True:
            await self._quiesce()
            live = [tid for tid, t in self.tasks.items() if not t.done()]
            if not live:
                break
            steps += 1
            if steps > self.max_steps:
                raise RuntimeError("scheduler: step budget exhausted")
            if not self.parked:
                # everybody sleeps on a timer (or on another task): let virtual time pass
                before = CLOCK.t
                self._wake.clear()
                try:
                    await asyncio.wait_for(self._wake.wait(), 3600)
                except asyncio.TimeoutError:
                    raise RuntimeError("scheduler: deadlock (no parked task, no timer within an hour)")
                if CLOCK.t != before:
                    self.trace.append(("time", round((CLOCK.t - before) * 8)))
                continue
            ids = sorted(self.parked, key=repr)
            e = self._next_choice(len(ids))
            if isinstance(e, tuple) and e[0] == "cancel":
                tid = e[1]
                if tid in self.tasks and not self.tasks[tid].done():
                    self.trace.append(("cancel", tid))
                    self.tasks[tid].cancel()
                continue
            self.branching.append(len(ids))
            tid = ids[e % len(ids)]
            fut, label = self.parked.pop(tid)
            self.trace.append(("run", tid, label))
            fut.set_result(None)
        return self.outcomes


def gated(cls, sched_getter: Callable[[], Sched], label=lambda name, args, kwargs: (name, *args)):
    """Subclass `cls` (a cashews backend) so that every public command first parks at the scheduler gate.
    Async-generator commands (scan, get_match) park once before producing."""
    import inspect

    ns = {}
    for name in COMMANDS:
        orig = getattr(cls, name, None)
        if orig is None:
            continue
        if inspect.isasyncgenfunction(orig):
            def make(orig=orig, name=name):
                async def agen(self, *args, **kwargs):
                    await sched_getter().gate(label(name, args, kwargs))
                    tok = _DEPTH.set(_DEPTH.get() + 1)
                    try:
                        async for x in orig(self, *args, **kwargs):
                            yield x
                    finally:
                        _DEPTH.reset(tok)
                return agen
        else:
            def make(orig=orig, name=name):
                async def cmd(self, *args, **kwargs):
                    await sched_getter().gate(label(name, args, kwargs))
                    tok = _DEPTH.set(_DEPTH.get() + 1)
                    try:
                        return await orig(self, *args, **kwargs)
                    finally:
                        _DEPTH.reset(tok)
                return cmd
        ns[name] = make()
    return type("Gated" + cls.__name__, (cls,), ns)


def enumerate_schedules(run_once: Callable[[list[int]], list[int]], limit: int = 100000):
    """Stateless DFS over choice sequences.  `run_once(prefix)` executes the program with that schedule
    prefix (default choice 0 afterwards) and returns the branching factors observed at each choice point.
    Yields every maximal choice sequence once."""
    stack = [[]]
    seen = 0
    while stack and seen < limit:
        prefix = stack.pop()
        br = run_once(prefix)
        seen += 1
        full = prefix + [0] * (len(br) - len(prefix))
        yield full
        # branch on every position after the prefix
        for i in range(len(br) - 1, len(prefix) - 1, -1):
            for c in range(1, br[i]):
                stack.append(full[:i] + [c])
