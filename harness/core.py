"""Shared machinery of the checks: proof stage (lake build + axiom audit), model driver,
shrinking, verdicts (VIOLATION / KNOWN-FINDING lines), evidence files.

Exit codes: 0 = property held on everything explored; 1 = violation (line printed); 2 = the
harness itself could not do its job (timeout, build tool missing, canary failed).
"""
from __future__ import annotations

import fcntl
import json
import os
import random
import re
import subprocess
import sys
from pathlib import Path

from . import vtime

ROOT = Path(__file__).resolve().parent.parent
LEAN = ROOT / "lean"
REPO = Path(os.environ.get("VERIF_REPO", "/repo"))
WORK = ROOT / ".work"
REPLAYS = ROOT / "replays"
EVIDENCE = ROOT / "evidence"
ALLOWED_AXIOMS = {"propext", "Classical.choice", "Quot.sound"}
FORBIDDEN = re.compile(r"\b(sorry|admit|native_decide|bv_decide|implemented_by|unsafe)\b|^\s*axiom\s|maxHeartbeats\s+0")


def _strip_comments(text: str) -> str:
    text = re.sub(r"/-.*?-/", lambda m: "\n" * m.group(0).count("\n"), text, flags=re.S)
    return re.sub(r"--.*", "", text)


def lake(*args: str, timeout: int = 3600) -> tuple[bool, str]:
    """Run lake in lean/ under an exclusive lock (checks may run concurrently)."""
    LEAN.mkdir(exist_ok=True)
    with open(LEAN / ".lock", "w") as lk:
        fcntl.flock(lk, fcntl.LOCK_EX)
        p = subprocess.run(["lake", *args], cwd=LEAN, capture_output=True, text=True, timeout=timeout)
    return p.returncode == 0, p.stdout + p.stderr


def props_theorems(prop: str) -> tuple[str, list[str]]:
    src = (LEAN / "CashewsVerif" / "Props" / f"{prop}.lean").read_text()
    body = _strip_comments(src)
    ns = re.search(r"^namespace\s+(\S+)", body, flags=re.M)
    names = re.findall(r"^(?:private\s+|protected\s+)?theorem\s+([^\s:({\[]+)", body, flags=re.M)
    return (ns.group(1) if ns else ""), names


def proof_stage(prop: str, driver: str | None, thorough: bool = False) -> dict:
    """Build Props/<prop> (+ its driver), audit the axioms of every theorem in it, grep for escapes."""
    res: dict = {"ok": False, "obligations": 0, "discharged": 0, "theorems": [], "failures": [], "axioms": {}}
    targets = [f"CashewsVerif.Props.{prop}"] + ([driver] if driver else [])
    res["checker_cmd"] = (
        f"cd lean && lake build {' '.join(targets)} && lake env lean <generated `#print axioms` file for every theorem of "
        f"CashewsVerif/Props/{prop}.lean>; grep of lean/ for sorry|admit|axiom|native_decide|bv_decide|implemented_by|unsafe|maxHeartbeats 0"
    )
    try:
        ns, names = props_theorems(prop)
    except FileNotFoundError:
        res["failures"].append(f"missing lean/CashewsVerif/Props/{prop}.lean")
        return res
    res["theorems"] = names
    res["obligations"] = len(names)
    ok, out = lake("build", *targets)
    if not ok:
        errs = [l for l in out.splitlines() if l.startswith("error")][:10]
        res["failures"].append("lake build failed: " + " | ".join(errs))
        res["build_log_tail"] = out[-3000:]
        return res
    # forbidden tokens anywhere in the library sources (outside comments)
    for f in sorted((LEAN / "CashewsVerif").rglob("*.lean")):
        for i, line in enumerate(_strip_comments(f.read_text()).splitlines(), 1):
            if FORBIDDEN.search(line):
                res["failures"].append(f"forbidden token in {f.relative_to(LEAN)}:{i}: {line.strip()[:80]}")
    WORK.mkdir(exist_ok=True)
    audit = WORK / f"audit_{prop}_{os.getpid()}.lean"
    audit.write_text(
        f"import CashewsVerif.Props.{prop}\n" + "".join(f"#print axioms {ns}.{n}\n" for n in names)
    )
    try:
        with open(LEAN / ".lock", "w") as lk:
            fcntl.flock(lk, fcntl.LOCK_SH)
            p = subprocess.run(["lake", "env", "lean", str(audit)], cwd=LEAN, capture_output=True, text=True, timeout=1800)
    finally:
        audit.unlink(missing_ok=True)
    text = p.stdout + p.stderr
    if p.returncode != 0:
        res["failures"].append("axiom audit failed: " + text[-500:])
        return res
    found = {}
    for m in re.finditer(r"'([^']+)' (does not depend on any axioms|depends on axioms: \[([^\]]*)\])", text, flags=re.S):
        axs = [a.strip() for a in (m.group(3) or "").replace("\n", " ").split(",") if a.strip()]
        found[m.group(1)] = axs
    discharged = 0
    for n in names:
        full = f"{ns}.{n}"
        if full not in found:
            res["failures"].append(f"no axiom report for {full}")
            continue
        bad = [a for a in found[full] if a not in ALLOWED_AXIOMS]
        res["axioms"][n] = found[full]
        if bad:
            res["failures"].append(f"{full} depends on disallowed axioms {bad}")
        else:
            discharged += 1
    res["discharged"] = discharged
    if thorough:
        with open(LEAN / ".lock", "w") as lk:
            fcntl.flock(lk, fcntl.LOCK_SH)
            p = subprocess.run(["lake", "env", "leanchecker", f"CashewsVerif.Props.{prop}"], cwd=LEAN,
                               capture_output=True, text=True, timeout=3000)
        res["leanchecker"] = "ok" if p.returncode == 0 else (p.stdout + p.stderr)[-400:]
        if p.returncode != 0:
            res["failures"].append("leanchecker rejected the compiled module")
    res["ok"] = not res["failures"] and discharged == len(names) and len(names) > 0
    return res


class Driver:
    """Batch interface to a compiled model driver (`lean/.lake/build/bin/<name>`), falling back to
    `lake env lean --run Drivers/<X>.lean` when the executable is missing."""

    def __init__(self, name: str, src: str):
        self.exe = LEAN / ".lake" / "build" / "bin" / name
        self.src = src

    def ask(self, lines: list[str]) -> list[str]:
        data = "\n".join(lines) + "\n"
        if self.exe.exists():
            p = subprocess.run([str(self.exe)], input=data, capture_output=True, text=True, timeout=3000)
        else:
            p = subprocess.run(["lake", "env", "lean", "--run", self.src], cwd=LEAN, input=data,
                               capture_output=True, text=True, timeout=3000)
        if p.returncode != 0:
            raise HarnessError(f"model driver failed: {p.stderr[-400:]}")
        out = p.stdout.splitlines()
        if len(out) != len(lines):
            raise HarnessError(f"model driver answered {len(out)} lines for {len(lines)} requests")
        return out


class HarnessError(Exception):
    pass


def ddmin(items: list, fails) -> list:
    """Classic delta debugging: a 1-minimal sublist on which `fails` still holds."""
    n = 2
    cur = list(items)
    while len(cur) >= 2:
        chunk = max(1, len(cur) // n)
        subsets = [cur[i:i + chunk] for i in range(0, len(cur), chunk)]
        reduced = False
        for i in range(len(subsets)):
            comp = [x for j, s in enumerate(subsets) if j != i for x in s]
            if comp and fails(comp):
                cur = comp
                n = max(n - 1, 2)
                reduced = True
                break
        if not reduced:
            if chunk == 1:
                break
            n = min(len(cur), n * 2)
    return cur


class Check:
    def __init__(self, prop: str, tier: str, seed: int):
        self.prop = prop
        self.tier = tier
        self.seed = seed
        self.rng = random.Random(f"{prop}/{seed}")
        self.t0 = vtime.REAL_PERF()
        self.violations: list[dict] = []
        self.known_hits: list[str] = []
        self.coverage: dict = {}
        self.assumptions: list[str] = []
        self.lines: list[str] = []
        kf = ROOT / "known_findings.json"
        self.known = [f for f in (json.loads(kf.read_text()) if kf.exists() else []) if f.get("property") == prop]

    @property
    def thorough(self) -> bool:
        return self.tier == "thorough"

    def budget(self, quick: int, thorough: int) -> int:
        return thorough if self.thorough else quick

    def say(self, line: str):
        print(line, flush=True)

    # ---- verdicts -------------------------------------------------------------------
    def violation(self, what: str, replay: dict, signature: str | None = None, no_input: bool = False):
        """Report a violation unless its signature is a listed (unfixed) known finding."""
        for f in self.known:
            if f.get("status") == "known" and signature is not None and f.get("signature") == signature:
                msg = f"KNOWN-FINDING: property={self.prop} {f.get('what', signature)}"
                if msg not in self.known_hits:
                    self.known_hits.append(msg)
                    self.say(msg)
                return
        REPLAYS.mkdir(exist_ok=True)
        path = REPLAYS / f"{self.prop}_{self.seed}_{len(self.violations)}.json"
        replay = dict(replay)
        replay.update({"property": self.prop, "what": what, "signature": signature, "seed": self.seed, "tier": self.tier})
        path.write_text(json.dumps(replay, indent=1, default=str))
        self.violations.append({"what": what, "replay": str(path), "no_input": no_input})
        tail = " no-failing-input-found" if no_input else ""
        self.say(f"VIOLATION property={self.prop} replay={path}{tail}")
        self.say(f"  ({what})")

    # ---- evidence -------------------------------------------------------------------
    def finish(self, proof: dict | None, level: str = "proof") -> int:
        cov = dict(self.coverage)
        if proof is not None:
            cov.setdefault("obligations", proof["obligations"])
            cov.setdefault("discharged", proof["discharged"])
            cov.setdefault("checker_cmd", proof["checker_cmd"])
            cov.setdefault("theorems", proof["theorems"])
            cov.setdefault("axioms_reported", proof["axioms"])
            if proof.get("leanchecker"):
                cov["leanchecker"] = proof["leanchecker"]
            if proof["failures"]:
                cov["proof_failures"] = proof["failures"]
        cov.setdefault("trusted_base", [])
        cov["known_findings_replayed"] = self.known_hits
        ev = {
            "property_id": self.prop,
            "tier": self.tier,
            "seed": self.seed,
            "level": level,
            "coverage": cov,
            "assumptions": self.assumptions,
            "wall_s": round(vtime.REAL_PERF() - self.t0, 2),
            "violations": len(self.violations),
        }
        # runs against a scratch repository (VERIF_REPO) or without the proof stage (--no-proof) are development
        # runs: their evidence must never replace the registered check's evidence file
        dev = bool(os.environ.get("VERIF_REPO")) or getattr(self, "skip_proof", False)
        out_dir = (WORK / "evidence_dev") if dev else EVIDENCE
        out_dir.mkdir(parents=True, exist_ok=True)
        (out_dir / f"{self.prop}.json").write_text(json.dumps(ev, indent=1, default=str))
        return 1 if self.violations else 0

    def proof_broken(self, proof: dict, found_input: bool):
        """A proof obligation no longer checks.  If the search found a concrete failing input it has
        already been reported; otherwise report the broken theorem itself."""
        if proof["ok"] or found_input:
            return
        self.violation(
            "proof stage no longer checks: " + "; ".join(proof["failures"])[:600],
            {"broken": proof["failures"], "theorems": proof["theorems"], "build_log_tail": proof.get("build_log_tail", "")},
            signature=None,
            no_input=True,
        )
