"""Transaction histories on the real code (C03, C04): executor, canonical output, generator, oracles.

A case is {"config", "init": [command lines], "events": [event lines]} in the protocol of
lean/Drivers/C03.lean.  Model keys: user keys are the even numbers (0 -> 'ka', 2 -> 'kb1', 4 -> 'kb2': `NAMES`, the
same naming as `keyName` of lean/CashewsVerif/Driver/Tx.lean), reserved keys are odd: ':serializable:lock' <-> 1,
':tx_lock:<name of k>' <-> k + 3.

Pattern commands (`delmatch <pat>`, `scan <pat>`, `getmatch <pat>`; <pat> encoded as `x<code point>.<code point>...`)
are commands like any other: inside a block they go to the transaction, and to the direct copy as well.  The names
share prefixes so that patterns select one, two, all or none of the keys ('k*', 'kb*', 'ka', 'k*2', 'x*', ...); every
generated pattern starts with a literal character other than ':', so it cannot reach the reserved lock keys (the
properties' proviso).  `scan` answers `ks=<model keys, ascending>`, `get_match` `kv=<key>=<value>;...`.

Blocks: `enter <mode>` opens `async with cache.transaction(mode):` on a context object of its own, `enter <mode> dec`
runs the block as the body of a function decorated with `@cache.transaction(mode)`, `enter <mode> @<i>` opens
`async with T[i]:` on the SHARED context object number i (`T[i] = cache.transaction(mode)`, created at its first
use and kept for the whole case: it can be entered again nested in itself, nested in other blocks, or sequentially),
`enter <mode> dec@<i>` runs the block as the body of a function decorated with that same shared object (`@T[i]`;
`__call__` builds a new context object per call, so for the model this is a block on an object of its own).

A block ends with `exit ok` (the body runs to its end), `exit exc` (the body raises an `Exception` subclass), `exit base`
(the body raises a `BaseException` subclass that is not an `Exception`), `exit falsy` (the body raises an exception OBJECT whose
truth value is False: alternately, per case, an `Exception` subclass defining `__len__` raised empty and a non-`Exception`
`BaseException` subclass defining `__bool__`) or `exit cancel` (the task is CANCELLED while it is
suspended at a scripted point inside the body: the body parks on a future that never completes, `task.cancel()` is called
from the event loop, `asyncio.CancelledError` is raised at that await).  The exception is caught right outside the block
(and the cancellation taken back with `uncancel()`), so the program goes on.  `rollback` / `commitnow` call `tx.rollback()` /
`tx.commit()` on the `Transaction` object at any place of a body; commands may follow in the same block.

Every event is executed through `Cache.transaction(mode)` / the `Cache` command facade on the transactional
cache, and every command also on a second `Cache` whose `Memory` started as a copy of the first ("direct").
After each event the raw backend stores are read without touching them (the outside observer).

Another client: `out <command>` is a command of ANOTHER client - issued through the same Cache in a context of its own, outside the
task's transaction - and goes to the direct copy as well.  It only stands where the running transaction segment has issued no
command yet (right after the outermost `enter`, after `commitnow` / `rollback`): whatever an earlier, finished segment did must not
act on the store again (a key deleted and committed in the first segment and re-created by the other client is still there when the
block ends).  `normalize` drops an `out` anywhere else.

Values: besides ints, tokens, None and bytes the alphabet holds CONTAINER payloads (`t:500` a set, `t:501` an empty set, `t:504` a
list, `t:505` an empty list - memhist.CONTAINERS; opaque tokens for the model).

Fan-out: `fan gather|task|group <command> | <command> | ...` issues the commands from CHILD tasks that the body awaits inside the
block - `await asyncio.gather(c1, c2, ...)`, `await asyncio.create_task(c)` one after the other, or an `asyncio.TaskGroup` - the
usage of upstream's test_gather.  A child task inherits a copy of the context and with it the transaction: its commands are commands
of the transaction (buffered, invisible outside, rolled back with it, and they see the earlier writes).  The children run one at a
time (a lock of the harness), so the trace holds one ordinary line per command, in the order in which they ran.

Control state: `disable <word>...` / `enable <word>...` (anywhere in a program; words = the protocol words of the commands)
call `cache.disable(Command.X, ...)` / `cache.enable(...)` on the transactional cache and on the direct copy.  A command that
is disabled when it is issued goes nowhere and hands back its default (`N` = None); commands that were enabled when issued
have been accepted into the transaction and a commit has to apply all of them, whatever is disabled by then (the flush of a
commit uses `delete_many` / `set_many` on the backend object, which is not a command of the user).

Reads: `get <k>` / `getmany <k>...` pass the harness's private sentinel object as `default` (answer `-` = not there);
`get <k> d=<val>` / `getmany <k>... d=<val>` pass a value of the alphabet as the CALLER'S default (None, a small int,
or the very token object that `set` stores: tokens are interned, so `set 0 t:1 - a` and `d=t:1` hand the library the
identical object, as `x = "..."; set(k, x); get(k, default=x)` does).  Observable with default d: per key, the stored
value if there is one, else d - "holds d" and "missing" are the same answer, told apart from other keys by position only.
"""
from __future__ import annotations

import asyncio
import contextvars
import copy
import sys
from collections import OrderedDict

from . import memhist, vtime
from .memhist import SENT, show_val, ttl_of, val_of
from .vtime import BASE, CLOCK

TIMEOUT_TICKS = 80  # Cache.transaction_timeout = 10 s
USER_KEYS = [0, 2, 4]
NAMES = {0: "ka", 2: "kb1", 4: "kb2"}          # = keyName of lean/CashewsVerif/Driver/Tx.lean
_BY_NAME = {v: k for k, v in NAMES.items()}


def tx_name(k) -> str:
    return NAMES[int(k)]


def enc(s: str) -> str:
    """a pattern on the wire (as in harness/globcase.py / Drivers/C13.lean)"""
    return "x" + ".".join(str(ord(c)) for c in s)


def dec(tok: str) -> str:
    return "".join(chr(int(x)) for x in tok[1:].split(".")) if len(tok) > 1 else ""


def pyglob(pat: str, key: str) -> bool:
    """the property's reading of a pattern: '*' = any run of characters, everything else literal, whole key"""
    if not pat:
        return not key
    if pat[0] == "*":
        return any(pyglob(pat[1:], key[i:]) for i in range(len(key) + 1))
    return bool(key) and key[0] == pat[0] and pyglob(pat[1:], key[1:])


RESERVED_NAMES = [":serializable:lock"] + [f":tx_lock:{n}" for n in NAMES.values()]


def route(config: str, text: str) -> str:
    """the prefix of the backend a key or a pattern is routed to (`Wrapper._get_backend`: longest prefix first)"""
    for p in sorted(PREFIXES.get(config, []), reverse=True):
        if text.startswith(p):
            return p
    return ""


def pattern_faithful(config: str, pat: str) -> bool:
    """a pattern command goes to ONE backend, chosen by the text of the pattern: on a prefix-routed cache it is the same
    command as on one store only if every key it matches lives on that backend"""
    return all(route(config, n) == route(config, pat) for n in NAMES.values() if pyglob(pat, n))


def make_faithful(config: str, events: list[str]) -> list[str]:
    """the program with every pattern that would select keys of another backend than the one it is routed to replaced"""
    if config not in PREFIXES:
        return events
    out = []
    for e in events:
        w = e.split()
        for i in range(1, len(w)):
            if w[i - 1] in PATTERN_CMDS and w[i].startswith("x") and not pattern_faithful(config, dec(w[i])):
                w[i] = enc("kb2*") if pattern_faithful(config, "kb2*") else enc("ka*")
        out.append(" ".join(w))
    return out


def pattern_safe(pat: str) -> bool:
    """the proviso: the pattern does not reach the transaction's own ':'-prefixed lock keys"""
    return not any(pyglob(pat, r) for r in RESERVED_NAMES)

CONFIGS = {
    "facade": "mem://?size=1000&check_interval=0",
    "facade_secret": "mem://?size=1000&check_interval=0&secret=s3cr3t&digestmod=sha1",
    # prefix-routed caches: the keys are spread over two / three backends, one transaction holds a TransactionBackend per backend
    "facade2": "mem://?size=1000&check_interval=0",
    "facade3": "mem://?size=1000&check_interval=0",
}
PREFIXES = {"facade2": ["kb"], "facade3": ["kb1", "kb2"]}     # extra backends: `cache.setup(url, prefix=p)`


class Boom(Exception):
    """the exception a scripted body raises to leave a block"""


class BaseBoom(BaseException):
    """a user-defined BaseException that is not an Exception (like KeyboardInterrupt / SystemExit / GeneratorExit)"""


class FalsyBoom(Exception):
    """an "error collection" exception raised while empty: `bool(exc)` is False (through `__len__`)"""

    def __len__(self):
        return len(self.args)


class FalsyBaseBoom(BaseException):
    """a BaseException that is not an Exception whose instances are falsy (through `__bool__`)"""

    def __bool__(self):
        return False


ENDS = ("ok", "exc", "base", "cancel", "falsy")


def model_key(name: str):
    if name == ":serializable:lock":
        return 1
    if name.startswith(":tx_lock:") and name[9:] in _BY_NAME:
        return _BY_NAME[name[9:]] + 3
    return _BY_NAME.get(name)


def block_kind(w: list[str]) -> str:
    """'' (object of its own) | 'dec' (decorator form) | '@<i>' (shared object i) | 'dec@<i>' (decorator form, the
    decorator being shared object i) of an `enter` line"""
    return w[2] if len(w) > 2 else ""


def shared_name(kind: str) -> str:
    """'@<i>' for the kinds that use shared object i, else ''"""
    return kind[kind.index("@"):] if "@" in kind else ""


def normalize(events: list[str]) -> list[str]:
    """make an event list a well-formed program (used after shrinking): drop exits without a block and
    explicit rollback/commit outside a block or directly inside a decorator-form block (no `Transaction`
    handle there), give every shared object one mode (that of its first use), close blocks left open with
    `exit ok`"""
    out, stack, modes = [], [], {}
    fresh = False        # the running segment has issued no command yet: the only place for another client's `out`
    for e in events:
        w = e.split()
        if w[0] == "enter":
            kind = block_kind(w)
            if shared_name(kind):
                e = f"enter {modes.setdefault(shared_name(kind), w[1])} {kind}"
            if not stack:
                fresh = True
            stack.append(kind)
        elif w[0] == "exit":
            if not stack:
                continue
            stack.pop()
            if not stack:
                fresh = False
        elif w[0] in ("rollback", "commitnow"):
            if not stack or stack[-1].startswith("dec"):
                continue
            fresh = True
        elif w[0] == "out":
            if not (stack and fresh):
                continue
        elif w[0] not in ("disable", "enable"):
            fresh = False
        out.append(e)
    return out + ["exit ok"] * len(stack)


def split_default(w: list[str]):
    """words of a command -> (words without the `d=<val>` suffix, '<val>' or None)"""
    if len(w) > 1 and w[-1].startswith("d="):
        return w[:-1], w[-1][2:]
    return w, None


def value_object(tok: str):
    """the Python object of a value token; equal tokens give the IDENTICAL object (None and small ints are
    singletons in CPython, the 't<n>' strings are interned here)"""
    v = memhist.val_of(tok)
    return sys.intern(v) if isinstance(v, str) else v


class _SameObjects:
    """the `Cache` facade, with string values interned on their way in, so that a value written and a default
    passed later can be one and the same object"""

    def __init__(self, api):
        self._api = api

    def __getattr__(self, name):
        return getattr(self._api, name)

    async def set(self, key, value, **kw):
        return await self._api.set(key, sys.intern(value) if isinstance(value, str) else value, **kw)

    async def set_many(self, pairs, **kw):
        return await self._api.set_many({k: sys.intern(v) if isinstance(v, str) else v for k, v in pairs.items()}, **kw)


PATTERN_CMDS = ("delmatch", "scan", "getmatch")
CONTROL_WORDS = {"set": "SET", "setmany": "SET_MANY", "get": "GET", "getmany": "GET_MANY", "exists": "EXISTS", "incr": "INCR",
                 "delete": "DELETE", "delmany": "DELETE_MANY", "expire": "EXPIRE", "getexpire": "GET_EXPIRE",
                 "delmatch": "DELETE_MATCH", "scan": "SCAN", "getmatch": "GET_MATCH"}
BULK_OF = {"set": "setmany", "incr": "setmany", "expire": "setmany", "setmany": "setmany", "delete": "delmany",
           "delmany": "delmany", "delmatch": "delmany"}      # the bulk command a commit flushes an accepted write with
WRITE_CMDS = ("set", "setmany", "incr", "delete", "delmany", "expire", "delmatch")


def show_keys(keys) -> str:
    """what `scan` yielded: model keys ascending; a name outside the universe or a repetition is shown as such"""
    keys = list(keys)
    known = sorted(model_key(k) for k in keys if model_key(k) is not None)
    odd = sorted("?" + repr(k) for k in keys if model_key(k) is None)
    if len(set(keys)) != len(keys):
        odd.append("?dup")
    return "ks=" + ",".join([str(k) for k in known] + odd)


def show_pairs(pairs) -> str:
    pairs = list(pairs)
    out = sorted((model_key(k), f"{model_key(k)}={show_val(v)}") for k, v in pairs if model_key(k) is not None)
    odd = sorted(f"?{k!r}" for k, _ in pairs if model_key(k) is None)
    if len({k for k, _ in pairs}) != len(pairs):
        odd.append("?dup")
    return "kv=" + ";".join([x for _, x in out] + odd)


class _Exec:
    """one protocol command on a `Cache` facade: the regular commands of memhist's executor (over the key names
    `NAMES`), reads with a caller-supplied default (`get <k> d=<val>`, `getmany <k>... d=<val>`) and the pattern
    commands"""

    def __init__(self, api, backend):
        self.api, self.backend = api, backend

    async def _exec(self, w: list[str]) -> str:
        api = self.api
        w, d = split_default(w)
        default = SENT if d is None else value_object(d)
        op = w[0]
        if d is not None and op not in ("get", "getmany"):
            raise ValueError(f"bad op {w}: only reads take a default")
        if op == "set":
            k, v, ttl, c = tx_name(w[1]), val_of(w[2]), ttl_of(w[3]), {"a": None, "nx": False, "xx": True}[w[4]]
            r = await api.set(k, v, expire=ttl, exist=c)
            return "T" if r is True else "F" if r is False else "N" if r is None else f"?{r!r}"
        if op == "setmany":
            pairs = {}
            for kv in w[2:]:
                k, v = kv.split("=")
                pairs[tx_name(k)] = val_of(v)
            r = await api.set_many(pairs, expire=ttl_of(w[1]))
            return "U" if r is None else f"?{r!r}"
        if op == "get":
            return "v=" + show_val(await api.get(tx_name(w[1]), default=default))
        if op == "getmany":
            r = await api.get_many(*[tx_name(x) for x in w[1:]], default=default)
            return "vs=" + ",".join(show_val(v) for v in r)
        if op == "exists":
            r = await api.exists(tx_name(w[1]))
            return "T" if r is True else "F" if r is False else "N" if r is None else f"?{r!r}"
        if op == "incr":
            try:
                r = await api.incr(tx_name(w[1]), int(w[2]), expire=ttl_of(w[3]))
            except (ValueError, TypeError):
                return "E"
            return f"n={r}" if type(r) is int else "N" if r is None else f"?{r!r}"
        if op == "delete":
            r = await api.delete(tx_name(w[1]))
            return "T" if r is True else "F" if r is False else "N" if r is None else f"?{r!r}"
        if op == "delmany":
            r = await api.delete_many(*[tx_name(x) for x in w[1:]])
            return "U" if r is None else f"?{r!r}"
        if op == "expire":
            t = ttl_of(w[2])
            await api.expire(tx_name(w[1]), t if t is not None else 0)
            return "U"
        if op == "getexpire":
            r = await api.get_expire(tx_name(w[1]))
            return f"n={r}" if type(r) is int else "N" if r is None else f"?{r!r}"
        if op == "delmatch":
            r = await api.delete_match(dec(w[1]))
            return "U" if r is None else f"?{r!r}"
        if op == "scan":
            return show_keys([k async for k in api.scan(dec(w[1]))])
        if op == "getmatch":
            return show_pairs([(k, v) async for k, v in api.get_match(dec(w[1]))])
        raise ValueError(f"bad op {w}")


class _NothingPending:
    """stands for a transaction backend that has not been created yet (statistics only)"""

    class _local_cache:
        store: dict = {}

    _to_delete: frozenset = frozenset()


class TxRunner:
    def __init__(self, config: str):
        self.config = config
        self.trace: list[tuple[str, str]] = []      # (line, canonical answer without the driver-only fields)
        self.stats: dict[str, int] = {}
        self.txs: list = []                         # `Transaction` handles of the open blocks (None: decorator form)
        self.frames: list[str] = []                 # kinds of the open blocks, outermost first
        self.objs: dict = {}                        # shared context objects '@i' -> TransactionContextDecorator
        self.used_outer: set[str] = set()           # shared objects that have opened an outermost block
        self.after_reentry = False                  # a re-entered block of the owning object has ended, outer block still open
        self.after_explicit = ""                    # 'rollback' / 'commitnow' was called earlier in the block that is still open
        self.seg_patterns: list[str] = []           # patterns of the delete_match calls of the running transaction segment
        self.seg_marked: dict[str, set] = {}        # pattern -> store keys it marked for deletion in this segment
        self.disabled: set[str] = set()             # protocol words of the commands that are disabled right now
        self.seg_accepted: set[str] = set()         # write commands accepted into the running transaction segment
        self.seg_child_writes = False               # a child task wrote inside the running segment
        self.seg_deleted_before: set[str] = set()   # keys an earlier, explicitly committed segment of the open block deleted

    def bump(self, k: str):
        self.stats[k] = self.stats.get(k, 0) + 1

    # -- the outside observer: raw, non-touching ---------------------------------------------------
    async def view(self, backends) -> str:
        """the union of the stores (keys are routed by prefix: no key is on two backends - except the serializable lock, which
        every touched backend holds: shown once, with the earliest deadline, as the model takes it at the first write)"""
        items = []
        glob_lock = None
        for backend in backends:
          for name, (expire_at, raw) in list(backend.store.items()):
            if expire_at is not None and expire_at <= CLOCK.t:
                continue
            if name == ":serializable:lock" and len(backends) > 1:
                glob_lock = expire_at if glob_lock is None else min(glob_lock, expire_at)
                continue
            k = model_key(name)
            if k is None:
                items.append((10 ** 6, f"?{name}"))
                continue
            if k % 2 == 1:
                v = "L"
            else:
                val = raw
                if backend._serializer is not None:
                    val = await backend._serializer.decode(backend, key=name, value=raw, default=SENT)
                v = show_val(val)
            d = "-" if expire_at is None else str(round((expire_at - BASE) * 8))
            items.append((k, f"{k}:{v}:{d}"))
        # The model takes ONE serializable lock, at the first write, with that moment's lease.  While the block is open the
        # copies later-touched backends hold (taken later, so with later deadlines) are shown as that one lock: once the
        # earliest lease has run out (a body that outlasts the transaction timeout) the model's lock is gone, and the later
        # copies are not a second lock.  After the block has ended every live copy is shown again: a lock key that survives
        # the block must be seen (`no_lock_key_survives`).
        memo = self.__dict__.setdefault("_glob_first", {})
        if not self.txs or glob_lock is None:       # block ended, or no copy anywhere (explicit commit / rollback released them)
            memo.pop(id(backends), None)
        else:                                       # some copy is in a store right now
            first = memo.setdefault(id(backends), glob_lock)
            glob_lock = first if first > CLOCK.t else None
        if glob_lock is not None:
            items.append((1, f"1:L:{round((glob_lock - BASE) * 8)}"))
        return ",".join(s for _, s in sorted(items))

    async def views(self) -> str:
        return f"b={await self.view(self.backends)} d={await self.view(self.dbackends)}"

    def resync(self):
        for b, d in zip(self.backends, self.dbackends):
            d.store = OrderedDict((k, copy.deepcopy(v)) for k, v in b.store.items())

    def _store_get(self, name: str):
        for b in self.backends:
            if name in b.store:
                return b.store[name]
        return None

    def _store_items(self):
        return [kv for b in self.backends for kv in b.store.items()]

    # -- internal peeks used only for the interesting-state statistics ------------------------------
    def _txb(self):
        try:
            tx = next(t for t in self.txs if t is not None)
            got = [tx._backends[b._id] for b in self.backends if b._id in tx._backends]
        except Exception:
            return None
        if not got:
            return None
        if len(got) > 1:
            self.bump("transaction_holds_several_backends")
        if len(self.backends) == 1:
            return got[0]
        merged = _NothingPending()
        merged._local_cache = type("S", (), {"store": {k: v for t in got for k, v in t._local_cache.store.items()}})
        merged._to_delete = frozenset(k for t in got for k in t._to_delete)
        return merged

    def _classify_enter(self, kind: str):
        fr = self.frames
        if len(fr) == 1:
            self.bump("nested_once")
        if len(fr) == 2:
            self.bump("nested_twice")
        if len(fr) == 3:
            self.bump("nested_three_times")
        if kind.startswith("dec"):
            self.bump("decorator_form_block")
            if shared_name(kind) and shared_name(kind) in fr:
                self.bump("decorator_object_is_an_open_block_object")
        if not kind.startswith("@"):
            return
        self.bump("shared_object_block")
        if kind in fr:
            self.bump("reentered_same_object")
            if fr[0] == kind:
                self.bump("reentered_owner_object")
                if kind in fr[1:]:
                    self.bump("owner_object_active_three_times")
            else:
                self.bump("reentered_non_owner_object")
        elif fr and fr[0].startswith("@"):
            self.bump("other_shared_object_inside_shared_block")
        if any(f.startswith("dec") for f in fr):
            self.bump("decorator_body_opens_shared_object")
        if not fr:
            if kind in self.used_outer:
                self.bump("shared_object_reused_sequentially")
            self.used_outer.add(kind)

    def _classify_default(self, txb, w: list[str], d: str):
        """interesting states of a read with a caller-supplied default (peeks, statistics only)"""
        self.bump("read_with_caller_default")
        default = value_object(d)
        for x in w[1:]:
            name = tx_name(x)
            ov = txb._local_cache.store.get(name)
            ent = self._store_get(name)
            in_store = ent is not None and not (ent[0] is not None and ent[0] <= CLOCK.t)
            if name in txb._to_delete and in_store:
                self.bump("caller_default_read_of_pending_delete")
            if ov is not None and ov[1] is default:
                self.bump(f"{w[0]}_default_is_the_buffered_object")
                if in_store:
                    self.bump(f"{w[0]}_default_is_the_buffered_object_store_holds_another_value")
            elif ov is None and name not in txb._to_delete:
                self.bump("caller_default_read_of_unbuffered_key" if in_store else "caller_default_read_of_missing_key")

    def _classify_pattern(self, txb, w: list[str]):
        """interesting states of a pattern command inside a transaction (peeks, statistics only)"""
        pat = dec(w[1])
        live = {n for n, (exp, _v) in self._store_items() if not (exp is not None and exp <= CLOCK.t)}
        hits = [n for n in NAMES.values() if pyglob(pat, n)]
        pending = set(txb._local_cache.store)
        deleted = set(txb._to_delete)
        if w[0] != "delmatch":
            self.bump(f"{w[0]}_inside_transaction")
            if any(n in pending for n in hits):
                self.bump(f"{w[0]}_selects_a_pending_write")
            if any(n in deleted and n in live for n in hits):
                self.bump(f"{w[0]}_pattern_matches_a_pending_delete")
            if any(n in pending and n in live for n in hits):
                self.bump(f"{w[0]}_matching_key_pending_and_in_store")
            return
        self.bump("delete_match_inside_transaction")
        if not hits or not any(n in pending or (n in live and n not in deleted) for n in hits):
            self.bump("delete_match_matching_nothing_visible")
        if any(n in pending and n not in live for n in hits):
            self.bump("delete_match_of_a_key_only_pending")
        if any(n in live and n not in pending and n not in deleted for n in hits):
            self.bump("delete_match_of_a_key_only_in_store")
        if any(n in live and n in pending for n in hits):
            self.bump("delete_match_of_a_key_pending_and_in_store")
        if any(n in live and n in deleted for n in hits):
            self.bump("delete_match_of_a_pending_deleted_key")
        if any(n in pending for n in hits) and not any(n in live for n in hits):
            self.bump("delete_match_pending_match_but_no_store_match")           # seeded C03-9
        if any(n in deleted and n in live and n not in hits for n in deleted):
            self.bump("delete_match_after_pending_delete_of_a_non_matching_store_key")   # seeded C04-9
        if pat in self.seg_patterns:
            self.bump("delete_match_repeated_identical_pattern")
            if any(n in live and n not in deleted for n in self.seg_marked.get(pat, ())):
                self.bump("delete_match_repeated_after_a_marked_key_was_written_again")   # seeded C13-9
        elif self.seg_patterns:
            self.bump("delete_match_after_a_different_pattern")
        self.seg_patterns.append(pat)
        self.seg_marked.setdefault(pat, set()).update(n for n in hits if n in live)

    def _classify(self, w: list[str]):
        txb = self._txb()
        w, d = split_default(w)
        if w[0] in PATTERN_CMDS:
            if txb is None:      # the transaction backend is created by the first command: nothing is pending yet
                txb = _NothingPending()
            self._classify_pattern(txb, w)
            return
        if txb is not None and d is not None:
            self._classify_default(txb, w, d)
        if txb is None or w[0] in ("adv", "getmany", "setmany", "delmany"):
            if txb is not None and w[0] == "getmany":
                if any(tx_name(x) in txb._to_delete for x in w[1:]):
                    self.bump("get_many_with_pending_delete")
            return
        name = tx_name(w[1])
        in_ov = name in txb._local_cache.store
        in_del = name in txb._to_delete
        ent = self._store_get(name)
        in_store = ent is not None and not (ent[0] is not None and ent[0] <= CLOCK.t)
        if ent is not None and not in_store:
            self.bump("tx_command_on_expired_unpurged_store_key")
        op = w[0] + ("_" + w[4] if w[0] == "set" else "")
        if op in ("set_nx", "set_xx"):
            if in_store and not in_ov and not in_del:
                self.bump(f"{op}_on_store_only_key")
            if in_del:
                self.bump(f"{op}_after_delete")
            if in_ov:
                self.bump(f"{op}_on_overlay_key")
        if op == "expire" and in_ov:
            self.bump("expire_on_overlay_key")
        if op == "expire" and in_store and not in_ov and not in_del:
            self.bump("expire_on_store_only_key")
        if op == "incr" and in_store and not in_ov and not in_del:
            self.bump("incr_seeded_from_store")
        if op == "incr" and in_del:
            self.bump("incr_after_delete")
        if op in ("get", "exists", "getexpire") and in_del:
            self.bump("read_of_pending_delete")
        if op in ("get", "exists", "getexpire") and in_ov and in_store:
            self.bump("read_of_overwritten_key")
        if op == "set_a" and in_del and w[3] in ("-", "0"):
            self.bump("not_judged_delete_then_ttl_less_set")

    def _classify_end(self, how: str):
        txb = self._txb()
        if txb is None:
            return
        pending = bool(txb._local_cache.store) or bool(txb._to_delete)
        if self.seg_child_writes:
            self.bump(f"{how}_after_writes_from_child_tasks")
        if pending and how in ("commit", "commitnow") and self.disabled:
            self.bump("commit_under_a_control_state")
            for wcmd in self.seg_accepted:
                if BULK_OF[wcmd] in self.disabled:
                    self.bump("commit_of_accepted_writes_whose_bulk_flush_command_is_disabled")      # seeded C03-12
                    if wcmd not in self.disabled and wcmd != BULK_OF[wcmd]:
                        self.bump("commit_bulk_disabled_single_enabled")
            if any(wcmd in self.disabled for wcmd in self.seg_accepted):
                self.bump("commit_of_writes_whose_own_command_was_disabled_later")
        if pending:
            self.bump(f"{how}_with_pending_writes")
        for _, (exp, _v) in txb._local_cache.store.items():
            if exp is not None:
                rem = round((exp - CLOCK.t) * 8)
                if 1 <= rem <= 7 and how in ("commit", "commitnow"):
                    self.bump("commit_with_subsecond_ttl")
                if rem <= 0 and how in ("commit", "commitnow"):
                    self.bump("commit_with_elapsed_ttl")

    # -- execution ----------------------------------------------------------------------------------
    async def _setup(self):
        from cashews import Cache

        url = CONFIGS[self.config]
        self.cache = Cache()
        self.backend = self.cache.setup(url)
        self.backends = [self.backend] + [self.cache.setup(url, prefix=p) for p in PREFIXES.get(self.config, [])]
        await self.cache.init()
        self.direct = Cache()
        self.dbackend = self.direct.setup(url)
        self.dbackends = [self.dbackend] + [self.direct.setup(url, prefix=p) for p in PREFIXES.get(self.config, [])]
        await self.direct.init()
        # `_transaction` and the disable sets are ContextVars: the direct copy lives in a context of its own, outside every
        # transaction of the task, which keeps what `disable` / `enable` did to it
        self.dctx = contextvars.copy_context()
        self.octx = contextvars.copy_context()      # the other client's context (`out`)
        self.r_tx = _Exec(_SameObjects(self.cache), self.backend)
        self.r_d = _Exec(_SameObjects(self.direct), self.dbackend)

    async def _command(self, line: str, init: bool = False):
        w = line.split()
        if w[0] == "adv":
            CLOCK.advance(int(w[1]))
            a = b = "U"
        else:
            if not init and self.frames:
                if w[0] in self.disabled:
                    self.bump("disabled_command_inside_transaction")
                else:
                    if w[0] in WRITE_CMDS:
                        self.seg_accepted.add(w[0])
                    self._classify(w)
                if self.after_reentry and w[0] in WRITE_CMDS:
                    self.bump("write_after_reentered_block_ended")
                if self.after_explicit and w[0] in WRITE_CMDS:
                    self.bump(f"write_after_explicit_{self.after_explicit}_in_the_same_block")
            try:
                a = await self.r_tx._exec(w)
            except Exception as exc:
                a = f"X:{type(exc).__name__}"
            try:
                # `_transaction` is a module-level ContextVar shared by every Cache object: the direct copy must
                # run in a context of its own, outside the transaction
                b = await asyncio.get_running_loop().create_task(self.r_d._exec(w), context=self.dctx)
            except Exception as exc:
                b = f"X:{type(exc).__name__}"
        if init:
            self.trace.append(("init " + line, "ok " + await self.views()))
        else:
            self.trace.append((line, f"tx={a} direct={b} " + await self.views()))

    async def _outside(self, line: str, w: list[str]):
        """another client's command: the same Cache, a context of its own in which no transaction is open"""
        loop = asyncio.get_running_loop()
        try:
            a = await loop.create_task(self.r_tx._exec(w), context=self.octx)
        except Exception as exc:
            a = f"X:{type(exc).__name__}"
        try:
            b = await loop.create_task(self.r_d._exec(w), context=self.dctx)
        except Exception as exc:
            b = f"X:{type(exc).__name__}"
        self.bump("outside_write_while_block_open")
        if self.after_explicit:
            self.bump(f"outside_write_after_explicit_{self.after_explicit}")
            txb = self._txb()
            name = tx_name(w[1])
            if name in self.seg_deleted_before:
                self.bump("outside_write_of_a_key_an_earlier_segment_deleted")      # seeded C03-18
        self.trace.append((line, f"tx={a} direct={b} " + await self.views()))

    async def _fan(self, line: str):
        """the commands of a `fan` line, each issued from a child task that is awaited here"""
        _, how, rest = line.split(None, 2)
        cmds = [c.strip() for c in rest.split("|") if c.strip()]
        gate = asyncio.Lock()
        parent = asyncio.current_task()

        async def child(c: str):
            async with gate:
                if asyncio.current_task() is parent:
                    raise RuntimeError("a fan-out command must run in a child task")
                if self.frames:
                    self.bump(f"command_from_a_child_task_inside_block_{how}")
                    if c.split()[0] in WRITE_CMDS:
                        self.bump("write_from_a_child_task_inside_block")
                        self.seg_child_writes = True
                    elif self.seg_accepted:
                        self.bump("read_from_a_child_task_after_writes")
                await self._command(c)

        if how == "gather":
            await asyncio.gather(*(child(c) for c in cmds))
        elif how == "task":
            for c in cmds:
                await asyncio.create_task(child(c))
        elif how == "group":
            async with asyncio.TaskGroup() as tg:
                for c in cmds:
                    tg.create_task(child(c))
        else:
            raise ValueError(f"bad fan-out {line}")

    async def _control(self, line: str, w: list[str]):
        from cashews import Command

        cmds = [getattr(Command, CONTROL_WORDS[x]) for x in w[1:]]
        prefixes = [""] + PREFIXES.get(self.config, [])      # `disable` acts on ONE backend (its `prefix` argument): every backend gets it
        if w[0] == "disable":
            for p in prefixes:
                self.cache.disable(*cmds, prefix=p)
                self.octx.run(lambda p=p: self.cache.disable(*cmds, prefix=p))      # the other client's context (`out`)
                self.dctx.run(lambda p=p: self.direct.disable(*cmds, prefix=p))
            self.disabled |= set(w[1:])
            self.bump("disable_inside_block" if self.frames else "disable_outside_block")
        else:
            for p in prefixes:
                self.cache.enable(*cmds, prefix=p)
                self.octx.run(lambda p=p: self.cache.enable(*cmds, prefix=p))
                self.dctx.run(lambda p=p: self.direct.enable(*cmds, prefix=p))
            self.disabled -= set(w[1:])
        self.trace.append((line, "ok " + await self.views()))

    def _context_object(self, kind: str, mode):
        name = shared_name(kind)
        if name:
            if name not in self.objs:
                self.objs[name] = self.cache.transaction(mode)
            return self.objs[name]
        return self.cache.transaction(mode)

    async def _enter(self, line: str, w: list[str], it):
        """one whole block: `enter` line, its events up to the matching exit, the exit"""
        from cashews import TransactionMode

        mode = TransactionMode(w[1])
        kind = block_kind(w)
        outer = not self.frames
        state = {"how": "ok", "started": False}

        async def body(tx):
            state["started"] = True
            self._classify_enter(kind)
            self.frames.append(kind)
            self.txs.append(tx)
            try:
                self.trace.append((line, "tx=U " + await self.views()))
                how = state["how"] = await self._block(it)
                if outer:
                    self._classify_end({"ok": "commit", "exc": "exception", "base": "base_exception", "cancel": "cancelled", "falsy": "falsy_exception"}[how])
                    if how != "ok" and self.after_reentry:
                        self.bump("exception_leaves_outer_block_after_reentered_block_ended")
                    if how != "ok" and self.after_explicit:
                        self.bump(f"exception_leaves_block_after_explicit_{self.after_explicit}")
                elif how in ("base", "cancel", "falsy"):
                    self.bump(f"inner_block_left_by_{how}")
                if how == "exc":
                    raise Boom()
                if how == "base":
                    raise BaseBoom()
                if how == "falsy":
                    self.nfalsy = getattr(self, "nfalsy", 0) + 1
                    raise FalsyBoom() if self.nfalsy % 2 else FalsyBaseBoom()
                if how == "cancel":
                    # the task is cancelled by somebody else while it is suspended at this point of the body
                    loop = asyncio.get_running_loop()
                    loop.call_soon(asyncio.current_task().cancel)
                    await loop.create_future()
            finally:
                self.txs.pop()
                self.frames.pop()
                if self.frames and kind.startswith("@") and self.frames[0] == kind:
                    self.after_reentry = True
                if not self.frames:
                    self.after_reentry = False
                    self.after_explicit = ""
                    self.seg_deleted_before = set()
                    self.seg_patterns, self.seg_marked = [], {}
                    self.seg_accepted = set()
                    self.seg_child_writes = False

        res = "U"
        came_out = "ok"
        try:
            if kind.startswith("dec"):
                @self._context_object(kind, mode)
                async def decorated():
                    await body(None)

                await decorated()
            else:
                async with self._context_object(kind, mode) as tx:
                    await body(tx)
        except Boom:
            came_out = "exc"
        except BaseBoom:
            came_out = "base"
        except (FalsyBoom, FalsyBaseBoom):
            came_out = "falsy"
        except asyncio.CancelledError:
            came_out = "cancel"
            asyncio.current_task().uncancel()
        except Exception as exc:  # an enter / commit / rollback that raises is itself a disagreement with the model
            res = f"X:{type(exc).__name__}"
        if res == "U" and state["started"] and came_out != state["how"]:
            # the caller must see the body's own exception / the cancellation - and nothing when the body ran to its end
            res = f"X:caller_saw_{came_out}"
        if not state["started"]:     # `__aenter__` raised: run the block's events without a block, keep the trace aligned
            self.trace.append((line, f"tx={res} " + await self.views()))
            self.frames.append(kind)
            self.txs.append(None)
            try:
                state["how"] = await self._block(it)
            finally:
                self.txs.pop()
                self.frames.pop()
        self.trace.append((f"exit {state['how']}", f"tx={res} " + await self.views()))
        if outer:
            self.resync()

    async def _block(self, it) -> str:
        """run events until the exit of the current block (or the end); returns how it ends"""
        for line in it:
            w = line.split()
            if w[0] == "enter":
                await self._enter(line, w, it)
                continue
            if w[0] == "exit":
                return w[1]
            if w[0] in ("rollback", "commitnow"):
                self._classify_end("explicit_rollback" if w[0] == "rollback" else "commitnow")
                _t = self._txb()
                if w[0] == "commitnow" and _t is not None:
                    self.seg_deleted_before |= set(_t._to_delete)
                res = "U"
                try:
                    tx = next((t for t in reversed(self.txs) if t is not None), None)
                    if tx is None:
                        res = "X:NoHandle"
                    elif w[0] == "rollback":
                        await tx.rollback()
                    else:
                        await tx.commit()
                except Exception as exc:
                    res = f"X:{type(exc).__name__}"
                self.trace.append((line, f"tx={res} " + await self.views()))
                self.resync()
                self.seg_patterns, self.seg_marked = [], {}
                self.seg_accepted = set()
                self.seg_child_writes = False
                if self.frames:
                    self.after_explicit = w[0]
                continue
            if w[0] in ("disable", "enable"):
                await self._control(line, w)
                continue
            if w[0] == "fan":
                await self._fan(line)
                continue
            if w[0] == "out":
                await self._outside(line, w[1:])
                continue
            await self._command(line)
        return "ok"

    async def run(self, init: list[str], events: list[str]):
        await self._setup()
        for line in init:
            await self._command(line, init=True)
        await self._block(iter(events))
        await self.cache.close()
        await self.direct.close()
        return self.trace


def execute(case: dict):
    """-> (trace [(protocol line, impl answer)], stats)"""
    r = TxRunner(case["config"])
    events = make_faithful(case["config"], normalize(case["events"]))
    trace = vtime.run(r.run, case["init"], events)
    return trace, r.stats


def model_lines(trace) -> list[str]:
    return [f"case 1000 {TIMEOUT_TICKS}"] + [l for l, _ in trace]


def fields(ans: str) -> dict:
    """'tx=T direct=T ndc=T b=.. d=..' -> dict (a leading 'ok' is ignored)"""
    out = {}
    for p in ans.split(" "):
        if "=" in p:
            k, v = p.split("=", 1)
            out[k] = v
    return out


# ----------------------------------------------------------------------------------------------------
# oracles: the property statements evaluated on observed answers (of the implementation or of the model)

def obs(line: str, out: str) -> str:
    w = line.split()
    if w[0] == "getexpire" and out.startswith("n="):
        return "missing" if out == "n=-2" else "present"
    if w[0] == "delete":
        return "-"
    return out


def parse_view(s: str) -> dict:
    d = {}
    for it in filter(None, s.split(",")):
        k, rest = it.split(":", 1)
        v, dl = rest.rsplit(":", 1)
        d[k] = (v, dl)
    return d


def user(view: dict) -> dict:
    return {k: v for k, v in view.items() if k.isdigit() and int(k) % 2 == 0}


def segments(lines: list[str]):
    """[(start index of outermost enter / previous segment end, end index, how)] for every transaction segment;
    `how` in commit / rollback (explicit rollback or exception)."""
    segs, depth, start = [], 0, None
    for i, l in enumerate(lines):
        w = l.split()
        if w[0] == "enter":
            if depth == 0:
                start = i
            depth += 1
        elif w[0] == "exit" and depth > 0:
            depth -= 1
            if depth == 0:
                segs.append((start, i, "commit" if w[1] == "ok" else "rollback"))
                start = None
        elif w[0] in ("rollback", "commitnow") and depth > 0:
            segs.append((start, i, "rollback" if w[0] == "rollback" else "commit"))
            start = i
    return segs


def check_property(lines: list[str], answers: list[dict], ndc: dict) -> list[tuple[str, int, str]]:
    """Evaluate C03 and C04 on one run's answers (answers[i] = fields of the answer to lines[i]).
    `ndc[end index] -> bool` says whether the proviso held on that segment (from the driver).
    Returns [(property, step index, what)]."""
    bad = []
    for start, end, how in segments(lines):
        if not ndc.get(end, False):
            continue
        v0 = parse_view(answers[start]["b"])
        for i in range(start + 1, end):
            a = answers[i]
            w = lines[i].split()
            if w[0] in ("enter", "exit"):
                continue
            if w[0] == "out":
                v0 = parse_view(a["b"])      # another client's write: the store the transaction must leave alone is this one now
                continue
            # C04: every command answers as the same command on the directly updated copy
            if "direct" in a and obs(lines[i], a["tx"]) != obs(lines[i], a["direct"]):
                bad.append(("C04", i, f"`{lines[i]}` answered {a['tx']} inside the transaction, {a['direct']} on the directly updated copy"))
            # C03: invisible until commit
            if user(parse_view(a["b"])) != user(v0):
                bad.append(("C03", i, f"after `{lines[i]}` an outside reader sees {a['b'] or '{}'} instead of {answers[start]['b'] or '{}'}"))
        vb, vd = parse_view(answers[end]["b"]), parse_view(answers[end]["d"])
        if how == "commit":
            kv_b = {k: v for k, (v, _) in user(vb).items()}
            kv_d = {k: v for k, (v, _) in user(vd).items()}
            if kv_b != kv_d:
                bad.append(("C03", end, f"after commit the store holds {kv_b}, applying the writes in order gives {kv_d}"))
            for k, (_, dl) in user(vd).items():
                if dl != "-" and k in vb:
                    dlb = vb[k][1]
                    if dlb == "-" or int(dlb) > int(dl):
                        bad.append(("C03", end, f"key {k} was given deadline {dl} but has {dlb} after commit"))
        else:
            if user(vb) != user(v0):
                bad.append(("C03", end, f"after rollback the store is {answers[end]['b']}, before the block it was {answers[start]['b']}"))
        if any(int(k) % 2 == 1 for k in vb if k.isdigit()):
            bad.append(("C03", end, f"lock keys left behind after the transaction ended: {answers[end]['b']}"))
    return bad


# ----------------------------------------------------------------------------------------------------
# generator

VALS = ["i:0", "i:1", "i:2", "i:-1", "t:1", "t:2", "t:3", "n", "t:500", "t:504"]     # t:500 a set {1, 2}, t:504 a list [1, 2]
MODES = ["fast", "locked", "serializable"]


def gen_init(rng, shape=None) -> list[str]:
    """initial store: each of the 3 user keys absent / without ttl / with a live ttl / expired and not purged"""
    shape = shape or [rng.choice(["absent", "plain", "ttl", "expired"]) for _ in USER_KEYS]
    lines = []
    for k, s in zip(USER_KEYS, shape):
        v = rng.choice(VALS)
        if s == "plain":
            lines.append(f"set {k} {v} - a")
        elif s == "ttl":
            lines.append(f"set {k} {v} {rng.choice([11, 19, 83, 403])} a")
        elif s == "expired":
            lines.append(f"set {k} {v} {rng.choice([1, 2, 3])} a")
    lines.append("adv 3")
    return lines


def gen_default(rng, prefer: str | None = None) -> str:
    """the `default` of a read: the harness's private sentinel ('' - the full answer is observed), or a value of the
    alphabet as the caller's default (` d=<val>`), `prefer` (a value just written) more often than the others"""
    r = rng.random()
    if r < 0.5:
        return ""
    if prefer is not None and r < 0.85:
        return f" d={prefer}"
    return f" d={rng.choice(VALS)}"


def look_back(rng, w: list[str]) -> str:
    """a read of the key just written by command `w`, from inside the transaction; when a default is passed it is
    preferably the value just written (`set k v` -> `get k d=v`; `incr k by` -> `get k d=i:<by>`, what a counter
    started by this `incr` now holds; `delete` / `expire` -> None, the default default)"""
    key = w[1]
    wrote = w[2] if w[0] == "set" else f"i:{w[2]}" if w[0] == "incr" else "n"
    what = rng.choice(["get", "get", "get", "exists", "getexpire", "getmany"])
    if what == "get":
        return f"get {key}" + gen_default(rng, wrote)
    if what == "getmany":
        ks = [key, str(rng.choice(USER_KEYS))]
        rng.shuffle(ks)
        return "getmany " + " ".join(ks) + gen_default(rng, wrote)
    return f"{what} {key}"


# patterns over the names 'ka', 'kb1', 'kb2': all keys, two of them, one, none - each in several spellings; all of them
# start with a literal character other than ':' (or are empty), so none reaches the reserved lock keys
PATTERNS = ["k*", "k*", "kb*", "kb*", "ka", "ka*", "kb1", "kb2", "k*1", "k*2", "kb*2", "k**", "k*b*", "x*", "kc*", "k", ""]
assert all(pattern_safe(p_) for p_ in PATTERNS)


def gen_pattern(rng, recent: list[str] | None = None) -> str:
    """a pattern; with `recent`, half of the time one used earlier in the same program (REPEATED identical patterns)"""
    if recent and rng.random() < 0.5:
        return rng.choice(recent)
    p = rng.choice(PATTERNS)
    if recent is not None:
        recent.append(p)
    return p


def gen_command(rng, ttls, recent: list[str] | None = None) -> str:
    k = lambda: str(rng.choice(USER_KEYS))
    op = rng.choices(
        ["set", "setnx", "setxx", "setmany", "get", "getmany", "exists", "incr", "delete", "delmany", "expire", "getexpire",
         "delmatch", "scan", "getmatch"],
        [14, 9, 9, 5, 10, 6, 6, 12, 9, 3, 9, 8, 9, 3, 3])[0]
    ttl = lambda: rng.choice(ttls)
    if op in PATTERN_CMDS:
        return f"{op} {enc(gen_pattern(rng, recent))}"
    if op == "set":
        return f"set {k()} {rng.choice(VALS)} {ttl()} a"
    if op == "setnx":
        return f"set {k()} {rng.choice(VALS)} {ttl()} nx"
    if op == "setxx":
        return f"set {k()} {rng.choice(VALS)} {ttl()} xx"
    if op == "setmany":
        ks = rng.sample(USER_KEYS, rng.randint(1, 3))
        return f"setmany {ttl()} " + " ".join(f"{x}={rng.choice(VALS)}" for x in ks)
    if op == "get":
        return f"get {k()}" + gen_default(rng)
    if op == "getmany":
        return "getmany " + " ".join(k() for _ in range(rng.randint(1, 4))) + gen_default(rng)
    if op == "exists":
        return f"exists {k()}"
    if op == "incr":
        return f"incr {k()} {rng.choice([1, 1, 1, 2, -1])} {ttl()}"
    if op == "delete":
        return f"delete {k()}"
    if op == "delmany":
        return "delmany " + " ".join(k() for _ in range(rng.randint(1, 3)))
    if op == "expire":
        return f"expire {k()} {ttl()}"
    return f"getexpire {k()}"


POOL = ["@0", "@1", "@2"]
CONTROL_SETS = [["delmany"], ["setmany"], ["delmany", "delmatch"], ["setmany", "delmany"], ["set"], ["delete"], ["incr"], ["expire"],
                ["delmatch"], ["set", "setmany"], ["delete", "delmany"], ["get", "getmany"], ["exists"], ["scan", "getmatch"],
                ["getexpire"]]


def gen_outside(rng) -> str:
    k = rng.choice(USER_KEYS)
    return rng.choice([f"out set {k} {rng.choice(VALS)} - a", f"out set {k} {rng.choice(VALS)} 80 a", f"out delete {k}", f"out incr {k} 1 -"])


def gen_control(rng) -> str:
    """`disable` of a few commands (bulk commands more often than not), now and then `enable` of everything"""
    if rng.random() < 0.25:
        return "enable " + " ".join(CONTROL_WORDS)
    return "disable " + " ".join(rng.choice(CONTROL_SETS))


def pick_kind(rng, stack: list[str]) -> str:
    """kind of the next block: an object of its own, the decorator form, or a shared object — preferring, inside a
    block of a shared object, to enter that very object again (to any depth)."""
    r = rng.random()
    if r < 0.45:
        return ""
    if r < 0.55:
        return "dec" if rng.random() < 0.6 else "dec" + rng.choice(POOL)
    if stack and stack[0].startswith("@") and rng.random() < 0.55:
        return stack[0]
    return rng.choice(POOL)


def gen_events(rng, maxlen: int, crossing: bool) -> list[str]:
    """one task's program: 1-3 outermost blocks (nested up to three times now and then), each block on a context
    object of its own, in decorator form, or on one of three shared context objects (re-entered nested in
    themselves / in each other and re-used sequentially); commands, small time advances, explicit tx.rollback() /
    tx.commit() anywhere in a body (commands follow); every block ended by running to its end, by an `Exception`, by a
    `BaseException` that is not an `Exception`, or by the task being cancelled at a suspension point inside the body.  Without `crossing` the TTLs (>= 1 s) and the total advance per case (< 1 s)
    keep the proviso true, leaving 1..7 ticks at commit for 1 s TTLs."""
    ttls = ["-", "-", "0", "8", "8", "16", "80"] if not crossing else ["-", "0", "1", "2", "4", "8", "16"]
    advs = [1, 1, 2, 3] if not crossing else [1, 2, 4, 8, 16]
    budget = 7 if not crossing else 10 ** 6
    modes = {k: rng.choice(MODES) for k in POOL}
    recent: list[str] = []

    def enter(stack):
        kind = pick_kind(rng, stack)
        stack.append(kind)
        return f"enter {modes.get(shared_name(kind)) or rng.choice(MODES)} {kind}".strip()

    ev = []
    used = 0
    for _ in range(rng.choice([1, 1, 1, 2, 2, 3])):
        if rng.random() < 0.12:
            ev.append(gen_control(rng))                        # the control state changes before a block
        if rng.random() < 0.2:
            ev.append(gen_command(rng, ttls, recent))          # a command outside any block
        depth = rng.choice([1, 1, 1, 2, 2, 2, 3, 3, 4])
        stack: list[str] = []
        ev.append(enter(stack))
        n = rng.randint(1, maxlen)
        opened = 1
        for i in range(n):
            r = rng.random()
            if opened < depth and r < 0.25:
                ev.append(enter(stack))
                opened += 1
            elif opened > 1 and r < 0.35:
                ev.append(f"exit {rng.choice(['ok', 'ok', 'ok', 'exc', 'exc', 'base', 'cancel', 'falsy'])}")
                stack.pop()
                opened -= 1
                if rng.random() < 0.5:
                    depth -= 1
                if rng.random() < 0.5:
                    ev.append(gen_command(rng, ttls, recent))  # a command right after an inner block has ended
            elif r < 0.42 and used < budget:
                dt = min(rng.choice(advs), budget - used)
                used += dt
                ev.append(f"adv {dt}")
            elif r < 0.46:
                ev.append(rng.choice(["rollback", "rollback", "commitnow", "commitnow"]))
                if rng.random() < 0.5:
                    ev.append(gen_outside(rng))                # another client writes while the block is still open
            elif r < 0.48:
                ev.append(gen_control(rng))                    # ... or in the middle of one
            elif r < 0.56:
                # fan-out: commands issued from child tasks the body awaits
                how = rng.choice(["gather", "gather", "task", "group"])
                k = rng.choice([1, 2, 2, 3]) if how != "task" else rng.choice([1, 1, 2])
                ev.append(f"fan {how} " + " | ".join(gen_command(rng, ttls, recent) for _ in range(k)))
            else:
                c = gen_command(rng, ttls, recent)
                ev.append(c)
                w = c.split()
                if w[0] in ("set", "incr", "delete", "expire") and rng.random() < 0.3:
                    # look at the key just written, from inside the transaction
                    ev.append(look_back(rng, w))
        end = rng.choice(["ok", "ok", "ok", "ok", "ok", "exc", "base", "cancel", "falsy"])
        while opened > 1:
            # an exception that leaves the outermost block usually comes from inside: the same kind leaves the inner blocks
            ev.append(f"exit {end if end != 'ok' and rng.random() < 0.8 else rng.choice(['ok', 'exc', 'base', 'cancel', 'falsy'])}")
            opened -= 1
        ev.append(f"exit {end}")
        if rng.random() < 0.3:
            ev.append(f"getexpire {rng.choice(USER_KEYS)}" if rng.random() < 0.7 else f"scan {enc('k*')}")
    return ev


def gen_case(rng, i: int) -> dict:
    crossing = i % 8 == 7
    return {
        "config": "facade_secret" if i % 5 == 4 else "facade2" if i % 5 == 1 else "facade3" if i % 10 == 3 else "facade",
        "init": gen_init(rng),
        "events": gen_events(rng, 14 if i % 3 else 6, crossing),
    }


def nesting_cases(rng=None):
    """Every nesting shape up to depth 3 over {object of its own, decorator form, shared object @0, shared object @1,
    decorator form with @0 as the decorator}
    x every way of leaving each block {normally, by an exception caught right outside it - an `Exception`, a `BaseException`
    that is not one, or a cancellation (quick: the kind is drawn per block; thorough: each kind for all blocks)}, with a write after every
    block boundary and a read from inside; followed by a second outermost block that re-uses the first block's kind
    (for a shared object: sequential re-use of the same object, entered twice nested).  With `rng`: one mode per shape
    drawn from it (quick tier); without: all three modes."""
    kinds = ["", "dec", "@0", "@1", "dec@0"]
    ends = ["ok", "X"]
    shapes = []
    for k1 in kinds:
        shapes.append((k1,))
        for k2 in kinds:
            shapes.append((k1, k2))
            for k3 in kinds:
                shapes.append((k1, k2, k3))
    for shape in shapes:
        for mode in ([rng.choice(MODES)] if rng is not None else MODES):
            for pat in _products(ends, len(shape)):
                # X = left by an exception: an Exception, a non-Exception BaseException, or a cancellation
                if rng is not None:
                    variants = [tuple(rng.choice(["exc", "base", "cancel", "falsy"]) if x == "X" else x for x in pat)]
                else:
                    variants = [tuple(sub if x == "X" else x for x in pat) for sub in (["exc", "base", "cancel", "falsy"] if "X" in pat else ["exc"])]
                for xs in variants:
                    yield _nesting_case(shape, mode, xs)


def _nesting_case(shape, mode, xs):
    def en(k):
        return f"enter {mode} {k}".strip()
    ev = [en(shape[0]), "set 0 i:1 - a"]
    if len(shape) > 1:
        ev += [en(shape[1]), "set 2 t:2 8 a", "delete 4"]
        if len(shape) > 2:
            ev += [en(shape[2]), "incr 0 1 -", "set 4 t:3 - nx", f"exit {xs[2]}", "get 4"]
        ev += [f"exit {xs[1]}", "get 2"]
    ev += ["set 4 t:5 16 a", "adv 1", "get 0", f"exit {xs[0]}", "getexpire 4"]
    ev += [en(shape[0]), en(shape[0]), "delete 0", "exit ok", "incr 2 1 -", "exit ok"]
    return {"config": "facade", "init": ["set 4 i:1 - a", "adv 3"], "events": ev}


DEFAULT_ALPHABET = ["n", "i:0", "i:1", "t:1"]


def default_cases(rng=None):
    """The caller-default sub-space, enumerated: key 0 initially {absent} + every value of a 4-value alphabet (None, 0, 1,
    a token) and key 2 holding a token, x one earlier command of the transaction on key 0 (nothing / set always / set
    only-if-present / set only-if-absent / set_many, each with every value of the alphabet / incr / expire / delete /
    delete_many) x one read of key 0 (get, get_many [0 2], get_many [2 0 4]) with every default (the private sentinel +
    every value of the alphabet); the same read is repeated after the block.  With `rng`: one mode per case drawn from
    it (quick tier); without: all three modes."""
    A = DEFAULT_ALPHABET
    inits = [[]] + [[f"set 0 {v} - a"] for v in A]
    writes = [[]] + [[f"set 0 {v} - {c}"] for v in A for c in ("a", "xx", "nx")] + [[f"setmany - 0={v}"] for v in A]
    writes += [["incr 0 1 -"], ["expire 0 80"], ["delete 0"], ["delmany 0 4"]]
    reads = [f"{r}{d}" for r in ("get 0", "getmany 0 2", "getmany 2 0 4") for d in [""] + [f" d={v}" for v in A]]
    for ini in inits:
        for wr in writes:
            for rd in reads:
                for mode in ([rng.choice(MODES)] if rng is not None else MODES):
                    yield {"config": "facade", "init": ini + ["set 2 t:2 - a", "adv 3"],
                           "events": [f"enter {mode}", *wr, rd, "exit ok", rd]}


def _products(alphabet, n):
    if n == 0:
        yield ()
        return
    for rest in _products(alphabet, n - 1):
        for a in alphabet:
            yield rest + (a,)


# ----------------------------------------------------------------------------------------------------
# delete_match inside a transaction, enumerated

PAT_WRITES = ["set 0 t:9 - a", "set 2 t:9 16 a", "incr 4 1 -", "delete 0", "delete 2", "expire 2 16", "set 0 t:8 - nx",
              "set 2 t:8 - xx", "delmany 0 4", "setmany - 2=t:7 4=t:7"]
PAT_DELETES = ["k*", "kb*", "ka", "kb1", "x*"]


def pattern_space():
    """(initial store, [earlier write]?, delete_match p1, [write in between]?, [delete_match p2]?) - the index space of
    `pattern_cases`: 8 initial stores (each of the three keys absent / present) x 11 x 5 x 11 x 6"""
    inits = [[f"set {k} {v} - a" for k, v, on in zip(USER_KEYS, ("t:1", "i:5", "t:3"), bits) if on]
             for bits in _products((False, True), 3)]
    for ini in inits:
        for w1 in [None] + PAT_WRITES:
            for p1 in PAT_DELETES:
                for w2 in [None] + PAT_WRITES:
                    for p2 in [None] + PAT_DELETES:
                        yield ini, w1, p1, w2, p2


def _pattern_case(ini, w1, p1, w2, p2, mode: str, end: str) -> dict:
    ev = [f"enter {mode}"]
    if w1:
        ev.append(w1)
    ev.append(f"delmatch {enc(p1)}")
    if w2:
        ev.append(w2)
    if p2 is not None:
        ev.append(f"delmatch {enc(p2)}")
    # what the transaction sees now: every key by value, by existence, and through the pattern reads
    ev += ["getmany 0 2 4", f"scan {enc('k*')}", f"getmatch {enc('kb*')}", "exists 0", "set 2 t:6 - nx", f"exit {end}",
           f"scan {enc('k*')}"]
    return {"config": "facade", "init": ini + ["adv 3"], "events": ev}


def pattern_cases(rng=None, sample: int = 0):
    """`delete_match` in every position relative to one earlier and one later write (set / set with ttl / incr / delete /
    expire / set only-if-absent / set only-if-present / delete_many / set_many, of matching and non-matching keys), over
    every initial store of the three keys (so a matching key is only pending, only in the store, both, pending-deleted
    or nowhere), followed or not by a second `delete_match` with the SAME or a DIFFERENT pattern (patterns selecting all
    keys, two, one, none), then reads of everything from inside, the end of the block and a read from outside.
    Without `rng`: the whole space, every point in fast mode (the plain backend's `delete_match`) and in one of the two
    lock modes (the lock backend's; locked / serializable alternating), ended by commit (and every 7th also by an
    exception).  With `rng`: `sample` points of the space drawn from it, one of the three modes each."""
    space = list(pattern_space())
    if rng is None:
        for i, pt in enumerate(space):
            yield _pattern_case(*pt, "fast", "ok")
            yield _pattern_case(*pt, MODES[1 + i % 2], "ok")
            if i % 7 == 0:
                yield _pattern_case(*pt, MODES[i % 3], "exc")
        return
    for _ in range(sample):
        yield _pattern_case(*rng.choice(space), rng.choice(MODES), "ok" if rng.random() < 0.85 else rng.choice(["exc", "cancel"]))


# ----------------------------------------------------------------------------------------------------
# control state x transactions, enumerated

CONTROL_SCRIPTS = [
    ["set 0 t:9 16 a", "incr 4 1 -", "delete 2", "expire 4 80", "get 2", "exists 0"],
    ["setmany - 0=t:7 2=t:8", "delmany 2 4", f"delmatch {enc('kb2*')}", "set 2 i:1 - nx", "getmany 0 2 4", f"scan {enc('k*')}"],
]
CONTROL_INITS = [["set 2 i:5 - a", "set 4 i:41 83 a"], []]


def control_cases():
    """Every control state of `CONTROL_SETS` (a bulk command alone, a single command alone, both, pattern commands, reads) x the
    place where it is set (before the block / inside the block before the writes / inside the block after the writes, right
    before the commit / before the block and lifted again inside it before the writes) x two write scripts (single-key
    writes; bulk and pattern writes plus a conditional set) x two initial stores x 3 modes; the block commits (every 5th
    case is left by an exception instead), then everything is enabled again and all keys are read."""
    i = 0
    for dset in CONTROL_SETS:
        dis = "disable " + " ".join(dset)
        for place in ("before", "first", "last", "lifted"):
            for script in CONTROL_SCRIPTS:
                for ini in CONTROL_INITS:
                    for mode in MODES:
                        i += 1
                        ev = []
                        if place in ("before", "lifted"):
                            ev.append(dis)
                        ev.append(f"enter {mode}")
                        if place == "first":
                            ev.append(dis)
                        if place == "lifted":
                            ev.append("enable " + " ".join(dset))
                        ev += script
                        if place == "last":
                            ev.append(dis)
                        ev += [f"exit {'exc' if i % 5 == 0 else 'ok'}", "enable " + " ".join(CONTROL_WORDS), "getmany 0 2 4", "getexpire 4"]
                        yield {"config": "facade", "init": ini + ["adv 3"], "events": ev}


# ----------------------------------------------------------------------------------------------------
# fan-out inside a block, enumerated

def fanout_cases():
    """writes and reads issued from child tasks (`asyncio.gather` of three commands / `await create_task(...)` / a TaskGroup) inside
    a block of each mode, before and after writes of the parent task, the outside observer probing after every command, the block
    ended by commit / an exception / a cancellation / an explicit rollback followed by more child writes"""
    for mode in MODES:
        for how in ("gather", "task", "group"):
            for end in ("ok", "exc", "cancel", "rollback"):
                for ini in (["set 2 i:5 - a", "set 4 t:3 83 a"], []):
                    ev = [f"enter {mode}", "set 0 t:1 - a",
                          f"fan {how} set 0 t:9 16 a | delete 2 | incr 4 1 -",
                          "getmany 0 2 4",
                          f"fan {how} get 0 | exists 2 | set 2 t:7 - nx",
                          f"fan {how} delmatch {enc('kb2*')} | scan {enc('k*')}"]
                    if end == "rollback":
                        ev += ["rollback", f"fan {how} set 4 t:8 - a | get 4", "exit ok"]
                    else:
                        ev.append(f"exit {end}")
                    ev += ["getmany 0 2 4", f"fan {how} set 0 i:1 - a | get 0"]
                    yield {"config": "facade", "init": ini + ["adv 3"], "events": ev}


# ----------------------------------------------------------------------------------------------------
# one transaction over several prefix-routed backends, enumerated

MULTI_SCRIPTS = [
    ["get 0", "set 2 t:9 - a"],                                   # the default backend is only read, the prefixed one written
    ["set 0 t:1 16 a", "incr 2 1 -", "delete 4", "setmany - 0=t:7 4=t:8", "getmany 0 2 4", "delmany 0 2"],
    ["delete 0", "set 4 t:2 - a", f"delmatch {enc('kb2*')}", "expire 2 80", "set 0 i:1 - nx", f"scan {enc('kb2*')}"],
    ["set 4 t:4 - a", "set 2 t:5 8 a", "set 0 t:6 - a", "exists 2"],                               # last backend first
]


def multi_backend_cases():
    """a cache whose keys are routed by prefix to two / three backends x 3 modes x 4 scripts touching several of them (one of
    them only by a read) x 2 initial stores x the block committed / left by an exception / committed explicitly mid-body and
    continued; afterwards every key is read.  A commit has to apply the writes of EVERY backend and release every lock."""
    for config in ("facade2", "facade3"):
        for mode in MODES:
            for script in MULTI_SCRIPTS:
                for ini in (["set 0 t:1 - a", "set 2 i:5 - a", "set 4 t:3 83 a"], []):
                    for end in ("ok", "exc", "commitnow"):
                        ev = [f"enter {mode}", *script]
                        ev += ["commitnow", "set 2 t:1 - a", "delete 0", "exit ok"] if end == "commitnow" else [f"exit {end}"]
                        yield {"config": config, "init": ini + ["adv 3"], "events": ev + ["getmany 0 2 4", "getexpire 2"]}


# ----------------------------------------------------------------------------------------------------
# another client writes between two segments of a block; container values under expire - enumerated

def outside_write_cases():
    """first segment: one write of key 0 (delete / set / incr / delete_match / expire) ended by an explicit commit or rollback;
    then ANOTHER CLIENT re-creates / overwrites / deletes key 0 or writes key 2; then a second segment (nothing / a read of key
    0 / a write of key 4 / a write of key 0) and the block ends normally or by an exception - x 3 modes.  What the first
    segment did is done (or undone) and must not act on the store again."""
    firsts = ["delete 0", "set 0 t:9 - a", "incr 0 1 -", f"delmatch {enc('ka*')}", "expire 0 80", "delmany 0 2"]
    outs = ["out set 0 t:7 - a", "out set 0 t:7 80 a", "out delete 0", "out set 2 t:7 - a"]
    seconds = [[], ["get 0"], ["set 4 t:4 - a"], ["set 0 t:5 - xx"]]
    for mode in MODES:
        for f in firsts:
            for mid in ("commitnow", "rollback"):
                for o in outs:
                    for sec in seconds:
                        for end in ("ok", "exc"):
                            if end == "exc" and sec != ["set 4 t:4 - a"]:
                                continue
                            yield {"config": "facade", "init": ["set 0 i:5 - a", "set 2 t:2 - a", "adv 3"],
                                   "events": [f"enter {mode}", f, mid, o, *sec, f"exit {end}", "getmany 0 2 4", "getexpire 0"]}


def container_cases():
    """a stored key whose VALUE is a set / an empty set / a list / an empty list / a dict (with and without a ttl) x one command
    of a transaction on it (expire, expire then get, set only-if-present, delete, incr - which raises) x 3 modes x the block
    committed / left by an exception / cancelled; the outside observer sees value and deadline after every step"""
    for val in ("t:500", "t:501", "t:504", "t:505", "t:506"):
        for ttl in ("-", "83"):
            for cmds in (["expire 0 16"], ["expire 0 80", "get 0", "getexpire 0"], ["set 0 t:1 - xx"], ["delete 0"], ["incr 0 1 -"],
                         ["get 0", "expire 0 16", "set 2 t:504 8 a"]):
                for mode in MODES:
                    for end in ("ok", "exc", "cancel"):
                        yield {"config": "facade", "init": [f"set 0 {val} {ttl} a", "adv 3"],
                               "events": [f"enter {mode}", *cmds, f"exit {end}", "get 0", "getexpire 0"]}
