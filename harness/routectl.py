"""C17 scenarios on the real `Cache` facade: recording backends, worker tasks with real context semantics,
executor and the translation to lean/Drivers/C17.lean protocol lines.

A scenario is {"regs": [[prefix, backend_id(, opts)], ...], "ops": [op, ...]}; backend ids are 0..n-1 in order of
creation (every registration creates a backend object).  opts: {"disable": "kw" | "url" | "enable_kw" | "enable_url"}
= configured as disabled through setup(disable=True) / "?disable=1" / setup(enable=False) / "?enable=0";
{"lazy": true} = never initialised by the harness (the first command that reaches it initialises it).  The `regs`
are set up before task 0 starts (every task inherits from that context).
Ops (ctx = number of the task that runs the op; task 0 exists from the start):

  ["setup", ctx, prefix, backend_id, opts]  task ctx calls cache.setup(url, prefix=prefix, ...) - a new prefix or one that
                                          is registered already (the backend is replaced)
  ["inv_enter", ctx] / ["inv_exit", ctx]  `with invalidate_further():` entered / left by that task

  ["fork", parent, child]                 parent runs asyncio.create_task(worker(child))
  ["disable", ctx, prefix, [cmd..]]       cache.disable(*cmds, prefix=prefix)
  ["enable", ctx, prefix, [cmd..]]        cache.enable(*cmds, prefix=prefix)
  ["enter", ctx, prefix, [cmd..]]         cm = cache.disabling(*cmds, prefix=prefix); cm.__enter__()
  ["exit", ctx]                           the innermost open cm of that task: cm.__exit__(None, None, None)
  ["txenter", ctx, mode] / ["txexit", ctx]  async with cache.transaction(mode) entered / left by that task
  ["cmd", ctx, name, [key..]]             one public command (see INVOKE) run by that task
  ["dec", ctx, kind, key, n]              n calls of a fresh function decorated with cache.<kind>(key=key...)
  ["isfull", ctx]                         cache.is_full_disable
  ["cdef", ctx, fid, kind, keybase]       task ctx decorates a fresh function (CDECORATORS[kind], key template
                                          "<keybase>#<fid>:{x}") whose body parks on a gate until it is released
  ["cstart", ctx, fid, call, arg]         task ctx does asyncio.create_task(f(arg)) - call number `call` - and lets it run
                                          until it parks (in its body, behind another call, on a lock) or ends
  ["cfin", ctx, call]                     the body that call `call` itself is executing (if any) is allowed to return
  ["comp", ctx, name, [key..], [tag..]]   one COMPOSITE command of the facade (see COMPOSITES): a public method that issues further
                                          backend commands behind the caller's back - set/incr with tags=, delete_tags, get_or_set,
                                          `async with cache.lock(...)`, a function decorated with @cache.invalidate; "one:<cmd>" = a
                                          plain public command (so that what the facade's on-remove callback does during it is judged too)
Optional scenario fields: "tagreg": [[tag, key_template], ...] = cache.register_tag(tag, key_template) before task 0 starts;
"tagsets": {tag: [member, ...]} = the tag set `_tag:<tag>` is loaded directly into every backend.
At the end of a scenario every body still parked is released, oldest execution first, function by function.
Executions are numbered per function in the order they start; a body returns "body<n>:<arg>", so every result
identifies the execution that produced it; a ContextVar set by the calling task (inherited by the tasks cashews
creates on its behalf) tells which call started which execution and which call issued which backend command.

Everything a backend object (registered backend or transaction wrapper) is asked to do - every command and
`init()` - is logged with the nesting depth of the call, so that "which command was *issued by the facade*" (depth 0) can be told from
what backends do internally (set_lock -> set, get_match -> scan, transaction commit).
"""
from __future__ import annotations

import asyncio
import contextvars
import importlib

from . import vtime
from .core import HarnessError

DFLT = type("CallerDefault", (), {"__repr__": lambda self: "<DFLT>"})()
VAL = "written"

_DEPTH: contextvars.ContextVar[int] = contextvars.ContextVar("c17_depth", default=0)
_CALLID: contextvars.ContextVar = contextvars.ContextVar("c17_callid", default=None)
_PARENT: contextvars.ContextVar = contextvars.ContextVar("c17_parent", default=None)   # the command a backend is running
_ROOT: contextvars.ContextVar = contextvars.ContextVar("c17_root", default=None)       # the depth-0 entry being served
_LOG: list | None = None
_OPNO = 0            # number of the scenario operation being handled (entries of one operation belong together)
PROBE_MSG = "LOCK"
# inside invalidate_further() an enabled retrieve command is replaced by the deletion of what it would have read
REPLACED_BY = {"get": "delete", "incr": "delete", "get_many": "delete_many", "get_match": "delete_match"}
_MUTE = False        # the harness itself is talking to a backend (loading values): not part of the trace

GEN_CMDS = ("scan", "get_match")
WATCHDOG = 120   # virtual seconds a single command / decorated call may take (lock waits are <= 10 s)


def _commands():
    from cashews.commands import Command

    return sorted({c.value for c in Command})


def keys_of(cmd: str, a: tuple, kw: dict) -> list[str]:
    if cmd in ("get_many", "delete_many"):
        return list(a)
    if cmd == "set_many":
        pairs = kw.get("pairs", a[0] if a else {})
        return list(pairs)
    if cmd in ("scan", "get_match", "delete_match"):
        return [kw.get("pattern", a[0] if a else None)]
    if cmd == "ping":
        msg = kw.get("message", a[0] if a else None)
        return [msg.decode() if msg is not None else "PING"]
    if cmd in ("clear", "get_keys_count", "init"):
        return []
    return [kw.get("key", a[0] if a else None)]


class _Deep:
    """async iterator that runs every step of `agen` one nesting level deeper and records the items"""

    def __init__(self, agen, entry):
        self.agen = agen
        self.entry = entry

    def __aiter__(self):
        return self

    async def __anext__(self):
        tok = _DEPTH.set(_DEPTH.get() + 1)
        ptok = _PARENT.set(self.entry["cmd"])
        rtok = _ROOT.set(self.entry) if self.entry["depth"] == 0 else None
        try:
            item = await self.agen.__anext__()
        finally:
            if rtok is not None:
                _ROOT.reset(rtok)
            _PARENT.reset(ptok)
            _DEPTH.reset(tok)
        self.entry["items"].append(item)
        return item

    async def aclose(self):
        await self.agen.aclose()


def _entry(kind: str, obj, cmd: str, a, kw) -> dict:
    e = {"depth": _DEPTH.get(), "kind": kind, "b": obj._c17_id(), "cmd": cmd, "keys": keys_of(cmd, a, kw), "op": _OPNO}
    if _PARENT.get() is not None:
        e["parent"] = _PARENT.get()
    if _CALLID.get() is not None:
        e["call"] = _CALLID.get()
    if cmd == "ping" and e["keys"] == [PROBE_MSG] and e["depth"] == 0 and _LOG is not None:
        # The liveness probe of lock() (`_lock_probe(key)`, fix D43): a PING with message LOCK issued right after a backend
        # refused the caller's set_lock.  It belongs to the LOCK KEY - that is the string it has to be routed and
        # disable-checked by -, not to the text of its message (a plain cache.ping(b"LOCK") keeps its message as key).
        for prev in reversed(_LOG):
            if prev["kind"] == "body" or prev["depth"] != 0 or prev.get("call") != e.get("call"):
                continue
            if prev.get("call") is None and prev.get("op") != _OPNO:
                break
            if prev["cmd"] == "set_lock" and prev.get("ret", True) is not None and not prev.get("ret", True):
                e["probe"], e["msg"], e["keys"] = True, PROBE_MSG, list(prev["keys"])
            break
    if _LOG is not None and not _MUTE:
        _LOG.append(e)
    return e


def _set_mute(on: bool) -> None:
    global _MUTE
    _MUTE = on


def recording(base, kind: str):
    """subclass of `base` that logs every command it is asked to run"""
    ns = {}
    for cmd in _commands() + ["init"]:
        orig = getattr(base, cmd, None)
        if orig is None:
            raise HarnessError(f"{base.__name__} has no method {cmd}: cannot record it")
        if cmd in GEN_CMDS:
            def gen_method(self, *a, __orig=orig, __cmd=cmd, **kw):
                e = _entry(kind, self, __cmd, a, kw)
                e["items"] = []
                return _Deep(__orig(self, *a, **kw), e)
            ns[cmd] = gen_method
        else:
            async def method(self, *a, __orig=orig, __cmd=cmd, **kw):
                e = _entry(kind, self, __cmd, a, kw)
                tok = _DEPTH.set(_DEPTH.get() + 1)
                ptok = _PARENT.set(__cmd)
                rtok = _ROOT.set(e) if e["depth"] == 0 else None
                try:
                    e["ret"] = await __orig(self, *a, **kw)
                    return e["ret"]
                except BaseException as exc:
                    e["exc"] = type(exc).__name__
                    raise
                finally:
                    if rtok is not None:
                        _ROOT.reset(rtok)
                    _PARENT.reset(ptok)
                    _DEPTH.reset(tok)
            ns[cmd] = method
    if kind == "raw":
        ns["_c17_id"] = lambda self: getattr(self, "rec_id", -1)
        notify = getattr(base, "_call_on_remove_callbacks", None)
        if notify is None:
            raise HarnessError(f"patch point {base.__name__}._call_on_remove_callbacks is gone: cannot observe which keys a "
                               f"backend reports as removed")

        async def _call_on_remove_callbacks(self, *keys, __orig=notify):
            # the backend tells its on-remove callbacks about removed keys: one invocation, noted on the command being served
            root = _ROOT.get()
            if root is not None and not _MUTE:
                root.setdefault("removed", []).append(list(keys))
            return await __orig(self, *keys)
        ns["_call_on_remove_callbacks"] = _call_on_remove_callbacks
    else:
        ns["_c17_id"] = lambda self: getattr(self._backend, "rec_id", -1)
    return type(f"Rec{base.__name__}", (base,), ns)


_installed = None


def install():
    """register the recording in-memory backend under the alias `c17rec` and replace the two transaction
    wrapper classes the facade instantiates by recording subclasses (module-level patch points, checked)"""
    global _installed
    if _installed:
        return _installed
    from cashews import register_backend
    from cashews.backends.memory import Memory

    txmod = importlib.import_module("cashews.wrapper.transaction")
    for name in ("TransactionBackend", "LockTransactionBackend"):
        if not hasattr(txmod, name):
            raise HarnessError(f"patch point cashews.wrapper.transaction.{name} is gone: cannot observe transaction wrappers")
    rec_mem = recording(Memory, "raw")
    register_backend("c17rec", rec_mem)
    txmod.TransactionBackend = recording(txmod.TransactionBackend, "tx")
    txmod.LockTransactionBackend = recording(txmod.LockTransactionBackend, "tx")
    _installed = rec_mem
    return rec_mem


# ---- public commands -------------------------------------------------------------------------------

async def _collect(agen):
    return [x async for x in agen]


def _first(ks):
    return ks[0]


INVOKE = {
    "get": lambda c, ks: c.get(_first(ks), default=DFLT),
    "get_raw": lambda c, ks: c.get_raw(_first(ks)),
    "set": lambda c, ks: c.set(_first(ks), VAL),
    "set_raw": lambda c, ks: c.set_raw(_first(ks), VAL),
    "delete": lambda c, ks: c.delete(_first(ks)),
    "exists": lambda c, ks: c.exists(_first(ks)),
    "incr": lambda c, ks: c.incr(_first(ks)),
    "expire": lambda c, ks: c.expire(_first(ks), 10),
    "get_expire": lambda c, ks: c.get_expire(_first(ks)),
    "set_lock": lambda c, ks: c.set_lock(_first(ks), "tok", 10),
    "unlock": lambda c, ks: c.unlock(_first(ks), "tok"),
    "is_locked": lambda c, ks: c.is_locked(_first(ks)),
    "get_bits": lambda c, ks: c.get_bits(_first(ks), 0, 1, size=2),
    "incr_bits": lambda c, ks: c.incr_bits(_first(ks), 0, 1, size=2),
    "slice_incr": lambda c, ks: c.slice_incr(_first(ks), 0, 10, 5, expire=10),
    "set_add": lambda c, ks: c.set_add(_first(ks), "m"),
    "set_remove": lambda c, ks: c.set_remove(_first(ks), "m"),
    "set_pop": lambda c, ks: c.set_pop(_first(ks), 1),
    "ping": lambda c, ks: c.ping(_first(ks).encode()),
    "get_size": lambda c, ks: c.get_size(_first(ks)),
    "delete_match": lambda c, ks: c.delete_match(_first(ks)),
    "scan": lambda c, ks: _collect(c.scan(_first(ks))),
    "get_match": lambda c, ks: _collect(c.get_match(_first(ks))),
    "get_many": lambda c, ks: c.get_many(*ks, default=DFLT),
    "set_many": lambda c, ks: c.set_many({k: VAL for k in ks}),
    "delete_many": lambda c, ks: c.delete_many(*ks),
    "clear": lambda c, ks: c.clear(),
    "get_keys_count": lambda c, ks: c.get_keys_count(),
}
KEYED = [n for n in INVOKE if n not in ("get_many", "set_many", "delete_many", "clear", "get_keys_count")]
MULTI = ["get_many", "set_many", "delete_many"]
GLOBAL = ["clear", "get_keys_count"]
DECORATORS = ["cache", "cache_lock", "cache_upper", "early", "soft", "hit", "dynamic", "failover", "iterator",
              "rate_limit", "slice_rate_limit", "circuit_breaker", "locked", "bloom", "dual_bloom", "invalidate"]
# the caching decorators with tags=: every stored result is registered in its tag sets (set -> set_add on `_tag:<tag>`)
TAG_DECORATORS = ["cache_tags", "early_tags", "soft_tags", "hit_tags", "dynamic_tags"]
DEC_TAGS = ["dt1", "dt2"]

# ---- composite commands --------------------------------------------------------------------------------------
COMPOSITES = ["set_tags", "setnx_tags", "incr_tags", "get_or_set", "delete_tags", "lock", "lock_wait", "invalidate"]
# harness name -> name of the composite in the model (lean/CashewsVerif/Model/DisableCompose.lean, `Comp`)
COMP_MODEL = {"setnx_tags": "set_tags"}
TAG_PREFIX = "_tag:"


async def run_composite(cache, name: str, keys, tags, mark):
    """one composite command; `mark()` is called where the caller's own code runs"""
    if name.startswith("one:"):
        return await INVOKE[name[4:]](cache, keys)
    if name == "set_tags":
        return await cache.set(keys[0], VAL, expire=100, tags=list(tags))
    if name == "setnx_tags":
        return await cache.set(keys[0], VAL, expire=100, exist=False, tags=list(tags))
    if name == "incr_tags":
        return await cache.incr(keys[0], tags=list(tags))
    if name == "get_or_set":
        async def factory():
            mark()
            return VAL
        return await cache.get_or_set(keys[0], factory, expire=100)
    if name == "delete_tags":
        return await cache.delete_tags(*tags)
    if name in ("lock", "lock_wait"):
        async with cache.lock(keys[0], 10, wait=(name == "lock_wait"), check_interval=1):
            mark()
        return "unlocked"
    if name == "invalidate":
        @cache.invalidate(keys[0])
        async def f():
            mark()
            return "body"
        return await f()
    raise HarnessError(f"unknown composite {name}")


def make_decorated(cache, kind: str, key: str, counter: list):
    async def body(x=1):
        counter[0] += 1
        return f"body{counter[0]}"

    async def itbody(x=1):
        counter[0] += 1
        yield "i1"
        yield "i2"

    mk = {
        "cache": lambda: cache.cache(ttl=10, key=key),
        "cache_lock": lambda: cache.cache(ttl=10, key=key, lock=True),
        "cache_upper": lambda: cache.cache(ttl=10, key=key, upper=True),
        "early": lambda: cache.early(ttl=10, early_ttl=5, key=key, prefix=""),
        "soft": lambda: cache.soft(ttl=10, soft_ttl=5, key=key, prefix=""),
        "hit": lambda: cache.hit(ttl=10, cache_hits=3, key=key, prefix=""),
        "dynamic": lambda: cache.dynamic(ttl=10, key=key, prefix=""),
        "failover": lambda: cache.failover(ttl=10, key=key, prefix=""),
        "iterator": lambda: cache.iterator(ttl=10, key=key),
        "rate_limit": lambda: cache.rate_limit(limit=100, period=10, key=key, prefix=""),
        "slice_rate_limit": lambda: cache.slice_rate_limit(limit=100, period=10, key=key, prefix=""),
        "circuit_breaker": lambda: cache.circuit_breaker(errors_rate=50, period=10, ttl=10, key=key, prefix=""),
        "locked": lambda: cache.locked(ttl=10, key=key, prefix=""),
        "bloom": lambda: cache.bloom(capacity=10, name=key, prefix=""),
        "dual_bloom": lambda: cache.dual_bloom(capacity=10, name=key, prefix=""),
        "invalidate": lambda: cache.invalidate(key),
        "cache_tags": lambda: cache.cache(ttl=10, key=key, tags=DEC_TAGS),
        "early_tags": lambda: cache.early(ttl=10, early_ttl=5, key=key, prefix="", tags=DEC_TAGS),
        "soft_tags": lambda: cache.soft(ttl=10, soft_ttl=5, key=key, prefix="", tags=DEC_TAGS),
        "hit_tags": lambda: cache.hit(ttl=10, cache_hits=3, key=key, prefix="", tags=DEC_TAGS),
        "dynamic_tags": lambda: cache.dynamic(ttl=10, key=key, prefix="", tags=DEC_TAGS),
    }[kind]()
    if kind == "iterator":
        f = mk(itbody)

        async def call():
            return [x async for x in f(1)]
        return call
    f = mk(body)
    return lambda: f(1)


# ---- overlapping calls of decorated functions ---------------------------------------------------------

# kind -> (factory(cache, key_template), `protected` flag of the Lean model or None = property oracle only)
CDECORATORS = {
    "cache": (lambda c, k: c.cache(ttl=10, key=k), True),
    "cache_unprot": (lambda c, k: c.cache(ttl=10, key=k, protected=False), False),
    "cache_lock": (lambda c, k: c.cache(ttl=10, key=k, lock=True), None),
    "cache_lock_unprot": (lambda c, k: c.cache(ttl=10, key=k, lock=True, protected=False), None),
    "cache_upper": (lambda c, k: c.cache(ttl=10, key=k, upper=True), None),
    "cache_upper_lock": (lambda c, k: c.cache(ttl=10, key=k, upper=True, lock=True), None),
    "early": (lambda c, k: c.early(ttl=10, early_ttl=5, key=k, prefix=""), None),
    "early_unprot": (lambda c, k: c.early(ttl=10, early_ttl=5, key=k, prefix="", protected=False), None),
    "soft": (lambda c, k: c.soft(ttl=10, soft_ttl=5, key=k, prefix=""), None),
    "soft_unprot": (lambda c, k: c.soft(ttl=10, soft_ttl=5, key=k, prefix="", protected=False), None),
    "hit": (lambda c, k: c.hit(ttl=10, cache_hits=3, key=k, prefix=""), None),
    "dynamic": (lambda c, k: c.dynamic(ttl=10, key=k, prefix=""), None),
    "failover": (lambda c, k: c.failover(ttl=10, key=k, prefix=""), None),
    "iterator": (lambda c, k: c.iterator(ttl=10, key=k), None),
    "rate_limit": (lambda c, k: c.rate_limit(limit=100, period=10, key=k, prefix=""), None),
    "slice_rate_limit": (lambda c, k: c.slice_rate_limit(limit=100, period=10, key=k, prefix=""), None),
    "circuit_breaker": (lambda c, k: c.circuit_breaker(errors_rate=50, period=10, ttl=10, key=k, prefix=""), None),
    "locked": (lambda c, k: c.locked(ttl=10, key=k, prefix=""), None),
    "bloom": (lambda c, k: c.bloom(capacity=10, name=k, prefix=""), None),
    "dual_bloom": (lambda c, k: c.dual_bloom(capacity=10, name=k, prefix=""), None),
    "invalidate": (lambda c, k: c.invalidate(k), None),
}
# decorators that never hand one execution's result to another overlapping caller, whatever the control state:
# no single-flight wrapper (thunder_protection) and no lock around a cache read
# single-flight by design while the cache is not FULLY disabled: `protected=True` (thunder_protection) joins an
# overlapping call with the same key to the one in flight, whatever commands are disabled (mirrored, not judged)
# (since D49, /repo 056aa9a, also the `upper=True` path)
COALESCING = ["cache", "cache_lock", "cache_upper", "cache_upper_lock", "early", "soft"]
ALWAYS_OWN = ["locked", "invalidate", "rate_limit", "slice_rate_limit", "circuit_breaker"]


def ckey(keybase: str, fid: int, arg) -> str:
    """cache key of `f(arg)` for the function `fid` decorated with the template of `ctemplate`"""
    return f"{keybase}#{fid}:{arg}"


def ctemplate(keybase: str, fid: int) -> str:
    return f"{keybase}#{fid}:{{x}}"


def make_cdecorated(cache, kind: str, template: str, rec: dict):
    """a function decorated with CDECORATORS[kind]; every execution of its body registers itself in rec["execs"]
    and parks on its own gate.  Returns call(arg) -> awaitable of the result (for iterators: the list of items)."""

    def enter(x):
        n = len(rec["execs"])
        ex = {"n": n, "call": _CALLID.get(), "arg": x, "gate": asyncio.Event(), "released": False}
        rec["execs"].append(ex)
        return ex

    async def body(x):
        ex = enter(x)
        await ex["gate"].wait()
        return f"body{ex['n']}:{x}"

    async def itbody(x):
        ex = enter(x)
        await ex["gate"].wait()
        yield f"body{ex['n']}:{x}"
        yield f"tail{ex['n']}:{x}"

    mk = CDECORATORS[kind][0](cache, template)
    if kind == "iterator":
        f = mk(itbody)

        async def call(x):
            return [i async for i in f(x)]
        return call
    f = mk(body)
    return f


def exec_of(r):
    """(execution number, argument) a result identifies, or None"""
    if isinstance(r, list) and len(r) == 2 and isinstance(r[0], str) and r[0].startswith("body") \
            and r[1] == "tail" + r[0][4:]:
        r = r[0]
    if isinstance(r, str) and r.startswith("body") and ":" in r:
        n, x = r[4:].split(":", 1)
        if n.isdigit():
            return int(n), x
    return None


# ---- executor ---------------------------------------------------------------------------------------

VIEW_CMDS = ["get", "set", "get_many", "scan", "delete", "get_keys_count"]
# the commands decorators read cached state with
READ_CMDS = ["get", "get_many", "get_raw", "get_bits", "exists", "get_expire", "get_match", "scan", "is_locked"]


def canon(v):
    if v is DFLT:
        return "<D>"
    if isinstance(v, (list, tuple)):
        return [canon(x) for x in v]
    if isinstance(v, (set, frozenset)):
        return sorted(canon(x) for x in v)
    if isinstance(v, bytes):
        return "b:" + v.decode("latin1")
    if v is None or isinstance(v, (bool, int, str)):
        return v
    return f"?{type(v).__name__}"


class Run:
    """the observable trace of one scenario on the real code"""

    def __init__(self, scenario):
        self.sc = scenario
        self.steps: list[dict] = []


async def _execute(sc) -> list[dict]:
    global _LOG
    from cashews import Cache, Command, TransactionMode
    from cashews.exceptions import LockedError, NotConfiguredError

    from cashews import invalidate_further

    install()
    cache = Cache()
    backends = {}
    # every backend holds its own value under every key of the scenario (written directly, not through the facade)
    allkeys = set()
    for op in sc["ops"]:
        if op[0] == "cmd":
            allkeys.update(k for k in op[3] if "*" not in k)
        elif op[0] == "comp":
            allkeys.update(k for k in op[3] if "*" not in k and not k.startswith(TAG_PREFIX))      # tag sets are sets, not values
    tagsets = sc.get("tagsets") or {}
    for members in tagsets.values():
        allkeys.update(k for k in members if "*" not in k)
    for tag, template in sc.get("tagreg") or []:
        cache.register_tag(tag, template)
    prefixes: list[str] = []          # currently registered, in order of first registration

    async def do_setup(prefix, bid, opts):
        opts = opts or {}
        url, kw = "c17rec://?check_interval=0", {}
        how = opts.get("disable")
        if how == "kw":
            kw["disable"] = True
        elif how == "url":
            url += "&disable=1"
        elif how == "enable_kw":
            kw["enable"] = False
        elif how == "enable_url":
            url += "&enable=0"
        elif how:
            raise HarnessError(f"bad setup option {opts}")
        b = cache.setup(url, prefix=prefix, **kw)
        b.rec_id = bid
        if bid in backends:
            raise HarnessError(f"backend id {bid} used twice")
        backends[bid] = b
        if prefix not in prefixes:
            prefixes.append(prefix)
        _set_mute(True)
        try:
            if not opts.get("lazy"):
                await b.init()
            for k in sorted(allkeys):
                if "!" not in k:               # keys containing '!' are left absent
                    await b.set(k, f"v{bid}|{k}")
            for tag, members in sorted(tagsets.items()):
                await b.set_add(TAG_PREFIX + tag, *members)
        finally:
            _set_mute(False)

    for reg in sc["regs"]:
        await do_setup(reg[0], reg[1], reg[2] if len(reg) > 2 else None)
    cmd_of = {c.value: c for c in Command}
    sample = sorted(set(VIEW_CMDS) | {x for op in sc["ops"] if op[0] in ("disable", "enable", "enter") for x in op[3]})

    def views():
        """what this context sees: per registered prefix is_disable() / is_disable(cmd) and is_full_disable"""
        v = {}
        for p in list(prefixes):
            v[p] = [cache.is_disable(prefix=p)] + [cache.is_disable(cmd_of[c], prefix=p) for c in sample]
        # ... and of every backend object ever created (also the replaced ones), asked directly
        vb = {str(bid): [b.is_disable()] + [b.is_disable(cmd_of[c]) for c in sample] + [b.is_full_disable]
              for bid, b in backends.items()}
        return {"per_prefix": v, "full": cache.is_full_disable, "per_backend": vb}

    queues: dict[int, asyncio.Queue] = {}
    tasks: dict[int, asyncio.Task] = {}
    state = {"cms": {}, "tx": {}, "txoff": {}, "inv": {}, "invcms": {}}
    cfns: dict[int, dict] = {}        # fid -> {"kind", "keybase", "call", "execs": [...]}
    ccalls: dict[int, dict] = {}      # call -> {"fid", "ctx", "arg", "task", "full"}

    def c_done():
        return {c for c, d in ccalls.items() if d["task"].done()}

    async def settle(rounds: int = 10):
        """run the loop until nothing observable (executions started, calls ended) changes for `rounds` iterations"""
        sig, quiet = None, 0
        for _ in range(600):
            await asyncio.sleep(0)
            cur = (sum(len(r["execs"]) for r in cfns.values()), len(c_done()))
            if cur == sig:
                quiet += 1
                if quiet >= rounds:
                    return
            else:
                sig, quiet = cur, 0
        raise HarnessError("overlapping decorated calls never settle")

    def outcome(call: int) -> dict:
        t = ccalls[call]["task"]
        if not t.done():
            return {"exc": "HANG"}
        if t.cancelled():
            return {"exc": "HANG"}
        exc = t.exception()
        if exc is None:
            r = t.result()
            out = {"r": canon(r)}
            ex = exec_of(r)
            if ex is not None:
                out["exec"], out["arg"] = ex
            return out
        if isinstance(exc, NotConfiguredError):
            return {"exc": "NC"}
        return {"exc": type(exc).__name__}

    def release_of(call: int):
        """the oldest parked execution that call `call` itself started"""
        rec = cfns[ccalls[call]["fid"]]
        for ex in rec["execs"]:
            if ex["call"] == call and not ex["released"]:
                return ex
        return None

    async def c_finish(call: int) -> dict:
        fid = ccalls[call]["fid"]
        mine = {c for c, d in ccalls.items() if d["fid"] == fid}
        before = c_done()
        n0 = len(_LOG)
        ex = release_of(call)
        out = {"released": None}
        if ex is not None:
            ex["released"] = True
            ex["gate"].set()
            out["released"] = ex["n"]
        await settle()
        out["done"] = {str(c): outcome(c) for c in sorted((c_done() - before) & mine)}
        out["log"] = [e for e in _LOG[n0:] if e.get("call") in mine]
        return out

    async def c_drain() -> dict:
        """release every parked body, oldest execution first, function by function; what ended / was issued meanwhile"""
        res = {}
        for fid in sorted(cfns):
            rec = cfns[fid]
            mine = {c for c, d in ccalls.items() if d["fid"] == fid}
            before = c_done()
            n0 = len(_LOG)
            waited = 0
            while not mine <= c_done():
                parked = [ex for ex in rec["execs"] if not ex["released"]]
                if parked:
                    parked[0]["released"] = True
                    parked[0]["gate"].set()
                    await settle()
                elif waited < WATCHDOG * 8:
                    waited += 1
                    await asyncio.sleep(vtime.TICK)      # nothing parked: somebody waits for virtual time
                    await settle(3)
                else:
                    break
            for c in sorted(mine - c_done()):
                ccalls[c]["task"].cancel()
            await settle(3)
            res[str(fid)] = {"done": {str(c): outcome(c) for c in sorted(mine - before)},
                             "log": [e for e in _LOG[n0:] if e.get("call") in mine]}
        return res

    def fully_off():
        return {bid for bid, b in backends.items() if b.is_full_disable}

    def snapshot(ctx: int, out: dict):
        """the implementation's own opinion about the control state, asked right before an operation"""
        out["intx"] = ctx in state["tx"]
        out["fulloff"] = sorted(fully_off())
        out["full"] = cache.is_full_disable
        out["disall"] = {str(bid): sorted(c for c, m in cmd_of.items() if b.is_disable(m)) for bid, b in backends.items()}
        out["isinit"] = {str(bid): bool(b.is_init) for bid, b in backends.items()}
        out["inv"] = bool(state["inv"].get(ctx, False))

    async def handle(ctx: int, op) -> dict:
        global _OPNO
        _OPNO += 1
        kind = op[0]
        out: dict = {}
        try:
            if kind == "views":
                return views()
            if kind == "fork":
                child = op[2]
                queues[child] = asyncio.Queue()
                tasks[child] = asyncio.create_task(worker(child))
                state["inv"][child] = state["inv"].get(ctx, False)       # the child copies the context
                out["r"] = "ok"
            elif kind == "setup":
                await do_setup(op[2], op[3], op[4] if len(op) > 4 else None)
                out["r"] = "ok"
            elif kind == "inv_enter":
                cm = invalidate_further()
                cm.__enter__()
                state["invcms"].setdefault(ctx, []).append(cm)
                state["inv"][ctx] = True
                out["r"] = "ok"
            elif kind == "inv_exit":
                state["invcms"][ctx].pop().__exit__(None, None, None)
                state["inv"][ctx] = False                                # `_INVALIDATE_FURTHER.set(False)`, no nesting
                out["r"] = "ok"
            elif kind == "disable":
                cache.disable(*[cmd_of[c] for c in op[3]], prefix=op[2])
                out["r"] = "ok"
            elif kind == "enable":
                cache.enable(*[cmd_of[c] for c in op[3]], prefix=op[2])
                out["r"] = "ok"
            elif kind == "enter":
                cm = cache.disabling(*[cmd_of[c] for c in op[3]], prefix=op[2])
                cm.__enter__()
                state["cms"].setdefault(ctx, []).append((cm, op[2], op[3]))
                out["r"] = "ok"
            elif kind == "exit":
                cm, p, cmds = state["cms"][ctx].pop()
                cm.__exit__(None, None, None)
                out["r"] = "ok"
                out["prefix"], out["cmds"] = p, cmds
            elif kind == "txenter":
                mode = {"fast": TransactionMode.FAST, "locked": TransactionMode.LOCKED,
                        "serializable": TransactionMode.SERIALIZABLE}[op[2]]
                tx = cache.transaction(mode)
                await tx.__aenter__()
                state["tx"][ctx] = tx
                state["txoff"][ctx] = fully_off()
                out["r"] = "ok"
            elif kind == "txexit":
                tx = state["tx"].pop(ctx)
                # backends that reported themselves fully disabled at every command of the transaction and now
                out["off_whole_tx"] = sorted(state["txoff"].pop(ctx) & fully_off())
                n0 = len(_LOG)
                await tx.__aexit__(None, None, None)
                out["r"] = "ok"
                out["commit_log"] = _LOG[n0:]
            elif kind == "isfull":
                out["r"] = cache.is_full_disable
            elif kind == "cmd":
                name, ks = op[2], op[3]
                # the implementation's own opinion, asked right before the command (spec oracle input)
                out["intx"] = ctx in state["tx"]
                out["fulloff"] = sorted(fully_off())
                if ctx in state["txoff"]:
                    state["txoff"][ctx] &= fully_off()
                out["dis"] = {str(bid): b.is_disable(cmd_of[name]) for bid, b in backends.items()}
                # ... and about the deletion invalidate_further() replaces this read by
                if name in REPLACED_BY:
                    out["disdel"] = {str(bid): b.is_disable(cmd_of[REPLACED_BY[name]]) for bid, b in backends.items()}
                out["isinit"] = {str(bid): bool(b.is_init) for bid, b in backends.items()}
                out["inv"] = bool(state["inv"].get(ctx, False))
                n0 = len(_LOG)
                try:
                    out["r"] = await asyncio.wait_for(INVOKE[name](cache, ks), WATCHDOG)
                finally:
                    out["log"] = _LOG[n0:]
                if name in ("get", "get_many") and not out["intx"]:
                    # what a single-key read of every key on every backend gives right now (asked directly)
                    _set_mute(True)
                    try:
                        out["direct"] = {str(bid): [await b.get(k, default=DFLT) for k in ks] for bid, b in backends.items()}
                    finally:
                        _set_mute(False)
            elif kind == "comp":
                name, ks, tags = op[2], op[3], (op[4] if len(op) > 4 else [])
                snapshot(ctx, out)
                if ctx in state["txoff"]:
                    state["txoff"][ctx] &= fully_off()
                n0 = len(_LOG)
                out["bodies"] = 0

                def mark():
                    out["bodies"] += 1
                    _LOG.append({"depth": _DEPTH.get(), "kind": "body", "b": -1, "cmd": "body", "keys": []})

                try:
                    out["r"] = canon(await asyncio.wait_for(run_composite(cache, name, ks, tags, mark), WATCHDOG))
                except LockedError:
                    out["exc"] = "Locked"
                finally:
                    out["log"] = _LOG[n0:]
                    # the tags of the keys the backends removed (the facade's registry: C12's business)
                    out["keytags"] = {k: list(cache.get_key_tags(k)) for e in out["log"] for inv in e.get("removed", []) for k in inv}
            elif kind == "dec":
                dkind, key, n = op[2], op[3], op[4]
                snapshot(ctx, out)
                counter = [0]
                call = make_decorated(cache, dkind, key, counter)
                n0 = len(_LOG)
                rs = []
                try:
                    for _ in range(n):
                        rs.append(await asyncio.wait_for(call(), WATCHDOG))
                        await asyncio.sleep(0)      # let background refresh tasks (early/hit) run
                finally:
                    out["log"] = _LOG[n0:]
                    out["execs"] = counter[0]
                out["r"] = rs
            elif kind == "cdef":
                fid, dkind, keybase = op[2], op[3], op[4]
                rec = {"kind": dkind, "keybase": keybase, "execs": []}
                rec["call"] = make_cdecorated(cache, dkind, ctemplate(keybase, fid), rec)
                cfns[fid] = rec
                out["r"] = "ok"
            elif kind == "cstart":
                fid, call, arg = op[2], op[3], op[4]
                rec = cfns[fid]
                out["full"] = cache.is_full_disable
                out["reads_off"] = all(
                    all(b.is_disable(cmd_of[c]) for c in READ_CMDS) for b in backends.values())
                out["in_flight"] = sorted(c for c, d in ccalls.items() if not d["task"].done())

                async def runner():
                    _CALLID.set(call)
                    return await rec["call"](arg)

                n0, e0 = len(_LOG), len(rec["execs"])
                ccalls[call] = {"fid": fid, "ctx": ctx, "arg": arg, "full": out["full"],
                                "task": asyncio.create_task(runner())}
                await settle()
                new = [ex["n"] for ex in rec["execs"][e0:] if ex["call"] == call]
                out["exec"] = new[0] if new else None
                out["done"] = outcome(call) if ccalls[call]["task"].done() else None
                out["log"] = [e for e in _LOG[n0:] if e.get("call") == call]
            else:
                raise HarnessError(f"bad op {op}")
        except NotConfiguredError:
            out["exc"] = "NC"
        except asyncio.TimeoutError:
            out["exc"] = "HANG"      # did not finish within WATCHDOG virtual seconds
        except HarnessError:
            raise
        except Exception as exc:
            out["exc"] = type(exc).__name__
        return out

    async def worker(ctx: int):
        q = queues[ctx]
        while True:
            op, fut = await q.get()
            if op is None:
                fut.set_result(None)
                return
            try:
                fut.set_result(await handle(ctx, op))
            except BaseException as exc:  # harness trouble must surface in the director
                fut.set_exception(exc)
                return

    async def send(ctx: int, op):
        if ctx not in queues:
            raise HarnessError(f"op {op} for a task that does not exist")
        fut = asyncio.get_running_loop().create_future()
        await queues[ctx].put((op, fut))
        return await fut

    _LOG = []
    queues[0] = asyncio.Queue()
    # task 0 is created here, before any control operation, from a context that never touched the cache
    tasks[0] = asyncio.create_task(worker(0))
    steps = []
    try:
        for op in sc["ops"]:
            ctx = op[1]
            before = None
            if op[0] in ("fork", "disable", "enable", "enter", "exit", "setup"):
                before = {c: await send(c, ["views"]) for c in sorted(queues)}
            if op[0] == "cfin":
                out = await c_finish(op[2])
            else:
                out = await send(ctx, op)
            if before is not None:
                out["views_before"] = before
                out["views_after"] = {c: await send(c, ["views"]) for c in sorted(queues)}
            steps.append(out)
        drain = await c_drain()
        cinfo = {str(c): {"fid": d["fid"], "ctx": d["ctx"], "arg": d["arg"], "full": d["full"], "out": outcome(c),
                          "execs": [ex["n"] for ex in cfns[d["fid"]]["execs"] if ex["call"] == c]}
                 for c, d in ccalls.items()}
        finfo = {str(f): {"kind": r["kind"], "execs": [[ex["n"], ex["call"], ex["arg"]] for ex in r["execs"]]}
                 for f, r in cfns.items()}
    finally:
        for d in ccalls.values():
            if not d["task"].done():
                d["task"].cancel()
        for r in cfns.values():
            for ex in r["execs"]:
                ex["gate"].set()
        for c in sorted(queues, reverse=True):
            if not tasks[c].done():
                await send(c, None)
        stores = {bid: sorted(b.store.keys()) for bid, b in backends.items()}
        _LOG = None
    return [{"steps": steps, "stores": stores, "sample": sample, "drain": drain, "ccalls": cinfo, "cfns": finfo}]


def execute(sc) -> dict:
    res = vtime.run(_execute, sc)[0]
    return res


# ---- protocol ---------------------------------------------------------------------------------------

def enc(s: str) -> str:
    return "-" if s == "" else ".".join(str(ord(ch)) for ch in s)


def enc_cmds(cmds) -> str:
    return ",".join(cmds) if cmds else "-"


def fmt_call(e) -> str:
    return f"{e['kind']}{e['b']}:{e['cmd']}:" + "+".join(enc(k) for k in e["keys"])


def outer(log):
    return [e for e in log if e["depth"] == 0]
