"""C11 helpers: histories on the real in-memory backend with a *small* capacity.

* `LruRunner`  - `memhist.Runner` that additionally records, after every effective protocol line, the keys the
  store physically holds (in `OrderedDict` order, with their deadlines) and `get_keys_count()`; for a spliced
  `purge` line: the content right after the purge task's last mutation of that sweep.
* `judge`      - the property oracle, evaluated on the implementation's observations only: (P1) count <= capacity
  after every command; (P2) victim rule against the harness's own use log.
* `Dfs`        - depth-first enumeration of all short histories on one backend object (state saved / restored
  around every command), mirrored on the model driver with `push` / `pop`.

Use log (most recent first).  From the outside a key is *used* by: a `get` / `get_many` that returns its value, an
`exists` answering True, `incr` (also when it raises on a non-number: the value was read), `expire` of a live key,
every unconditional `set` / pair of `set_many`, a conditional `set` that succeeds, and a failed only-if-absent `set`
(the key was tested for existence and is live).  Not uses: misses, a failed only-if-present `set`, `get_expire`,
`delete`, purge sweeps.  Only the order of *distinct* keys matters, so logs are compared with adjacent repeats
collapsed (the model logs `incr` of a live key twice: read, write).
"""
from __future__ import annotations

import asyncio
from collections import OrderedDict

from . import memhist, vtime
from .core import HarnessError
from .memhist import KEYNAMES, kname
from .vtime import BASE, CLOCK

XOPS = ("setlock", "islocked", "unlock", "setadd", "setremove", "setpop", "sliceincr", "incrbits", "getbits", "getraw",
        "getmatch", "delmatch")
CREATING_XOPS = ("setlock", "setadd", "setremove", "setpop", "sliceincr", "incrbits")   # they end in `_set`
WRITE_OPS = ("set", "setmany", "incr", "expire") + CREATING_XOPS

# key numbers: 0..7 carry ordinary values (and lock tokens, which are ordinary values); the payload commands have
# keys of their own, so that no command meets a payload of the wrong type (that would be an AttributeError of the
# command, not a matter of C11) - all 14 keys share ONE store and compete for its slots
REGULAR_KEYS = list(range(8))
SET_KEYS = [8, 9]
SLICE_KEYS = [10, 11]
BIT_KEYS = [12, 13]
ALL_KEYS = REGULAR_KEYS + SET_KEYS + SLICE_KEYS + BIT_KEYS


def ticks(t: float) -> int:
    return round((t - BASE) * 8)


def snap_of(store) -> list[tuple[int, int | None]]:
    """physical content of the store, front (next victim) to back: (key number, deadline in ticks or None)"""
    out = []
    for k, ent in store.items():
        dl = ent[0]
        out.append((KEYNAMES.index(k) if k in KEYNAMES else -1, None if dl is None else ticks(dl)))
    return out


class LruRunner(memhist.Runner):
    """records: line, out, snap (after), now (ticks, after), count (after)"""

    snapshot = staticmethod(snap_of)

    async def _rec(self, line, out, snap=None, now=None):
        if line.startswith("?"):
            raise HarnessError(out)
        self.recs.append({"line": line, "out": out,
                          "snap": snap_of(self.backend.store) if snap is None else snap,
                          "now": ticks(CLOCK.t if now is None else now),
                          "count": await self.api.get_keys_count() if snap is None else len(snap)})

    def _merge_into_sweep(self, idx, snap):
        # the sweep recorded at `idx` went on after the harness had looked (nothing but `adv 0` since):
        # its record, and the idle lines after it, stand for the store it finally left
        for r in self.recs[idx:]:
            r["snap"], r["count"] = snap, len(snap)

    async def _exec(self, w: list[str]) -> str:
        """the larger alphabet (`XOp` of Model/Lru.lean): commands of `Memory` beyond the regular ones.  Only what
        C11 is about is canonicalised: the three lock answers, and "the command went through" for the others (their
        payloads - set members, window lists, bit fields - live under keys no value-reading command touches)."""
        op = w[0]
        if op not in XOPS:
            return await super()._exec(w)
        api = self.api
        k = kname(int(w[1])) if len(w) > 1 else None
        if k is not None:
            if self._expired_unpurged(k):
                self._bump(f"{op}_on_expired_unpurged")
            if len(self.backend.store) >= self.size and k not in self.backend.store and op in CREATING_XOPS:
                self._bump(f"{op}_creates_entry_on_full_store")
        try:
            if op == "setlock":
                r = await api.set_lock(k, memhist.val_of(w[2]), memhist.ttl_of(w[3]))
                return "T" if r is True else "F" if r is False else f"?{r!r}"
            if op == "islocked":
                r = await api.is_locked(k)
                return "T" if r is True else "F" if r is False else f"?{r!r}"
            if op == "unlock":
                r = await api.unlock(k, memhist.val_of(w[2]))
                return "T" if r is True else "F" if r is False else f"?{r!r}"
            if op == "setadd":
                r = await api.set_add(k, *w[3:], expire=memhist.ttl_of(w[2]))
                return "U" if r is None else f"?{r!r}"
            if op == "setremove":
                r = await api.set_remove(k, *w[2:])
                return "U" if r is None else f"?{r!r}"
            if op == "setpop":
                r = await api.set_pop(k, int(w[2]))
                return "U" if isinstance(r, (list, tuple)) and all(isinstance(x, str) for x in r) else f"?{r!r}"
            if op == "sliceincr":
                start, end, maxv = int(w[3]), int(w[4]), int(w[5])
                r = await api.slice_incr(k, start, end, maxv, expire=memhist.ttl_of(w[2]))
                return "U" if type(r) is int else f"?{r!r}"
            if op == "incrbits":
                idx = [int(x) for x in w[2:]]
                r = await api.incr_bits(k, *idx, size=2, by=1)
                return "U" if isinstance(r, tuple) and len(r) == len(idx) and all(type(x) is int for x in r) else f"?{r!r}"
            if op == "getbits":
                idx = [int(x) for x in w[2:]]
                r = await api.get_bits(k, *idx, size=2)
                return "U" if isinstance(r, tuple) and len(r) == len(idx) and all(type(x) is int for x in r) else f"?{r!r}"
            if op == "getraw":
                await api.get_raw(k)
                return "U"
            if op == "getmatch":
                async for _ in api.get_match("*"):
                    pass
                return "U"
            if op == "delmatch":
                r = await api.delete_match("*")
                return "U" if r is None else f"?{r!r}"
        except Exception as exc:
            return f"X:{type(exc).__name__}"
        raise ValueError(f"bad op {w}")

    async def run(self, ops: list[str]) -> list[dict]:
        return await self._history(ops)


def execute(cfg: str, size: int, ops: list[str]):
    r = LruRunner(cfg, size)
    rec = vtime.run(r.run, ops)
    return rec, r.stats


# ------------------------------------------------------------------------------------------------
# the harness's own use log and the property oracle


def collapse(seq: list[int]) -> list[int]:
    out: list[int] = []
    for x in seq:
        if not out or out[-1] != x:
            out.append(x)
    return out


def live_in(snap, k: int, now: int) -> bool:
    for kk, dl in snap:
        if kk == k:
            return dl is None or now < dl
    return False


def uses_of(line: str, out: str, pre_snap, now: int) -> list[int]:
    """keys used by one command, oldest use first, judged from its answer (and, for `expire`, which answers
    nothing, from whether the key was held and live before)"""
    w = line.split()
    op = w[0]
    if op == "set":
        k, c = int(w[1]), w[4]
        if c == "a":
            return [k]
        if c == "nx":
            return [k] if out in ("T", "F") else []
        return [k] if out == "T" else []
    if op == "setmany":
        return [int(kv.split("=")[0]) for kv in w[2:]] if out == "U" else []
    if op == "get":
        return [int(w[1])] if out.startswith("v=") and out != "v=-" else []
    if op == "getmany":
        if not out.startswith("vs="):
            return []
        vals = out[3:].split(",")
        return [int(k) for k, v in zip(w[1:], vals) if v != "-"]
    if op == "exists":
        return [int(w[1])] if out == "T" else []
    if op == "incr":
        if out.startswith("n="):
            return [int(w[1])]
        return [int(w[1])] if out == "E" else []
    if op == "expire":
        return [int(w[1])] if live_in(pre_snap, int(w[1]), now) else []
    # ---- the larger alphabet.  Uses, read off the code: a read that finds the entry live, and every write
    if op == "setlock":                       # set(exist=False): the existence test of a live key, or the write
        return [int(w[1])] if out in ("T", "F") else []
    if op == "islocked":
        return [int(w[1])] if out == "T" else []
    if op in ("unlock", "getbits"):           # the read is a use iff the entry is live (also when the token differs)
        return [int(w[1])] if live_in(pre_snap, int(w[1]), now) else []
    if op in ("setadd", "setremove", "setpop", "sliceincr", "incrbits"):
        if out == "U":
            return [int(w[1])]                # written (and read before, if live)
        return [int(w[1])] if live_in(pre_snap, int(w[1]), now) else []
    if op == "getmatch":                      # every key `scan` yields is read, in store order
        return [k for k, dl in pre_snap if dl is None or now < dl] if out == "U" else []
    return []


def deleted_by(line: str, out: str = "", pre_snap=(), now: int = 0) -> set[int] | None:
    """keys a command removes on purpose (None = all)"""
    w = line.split()
    if w[0] == "delete":
        return {int(w[1])}
    if w[0] == "delmany":
        return {int(x) for x in w[1:]}
    if w[0] == "clear":
        return None
    if w[0] == "unlock":
        return {int(w[1])} if out == "T" else set()
    if w[0] == "delmatch":
        return {k for k, dl in pre_snap if dl is None or now < dl}
    return set()


def keys_mentioned(line: str) -> set[int]:
    w = line.split()
    if w[0] in ("set", "get", "exists", "incr", "delete", "expire", "getexpire") or (w[0] in XOPS and len(w) > 1):
        return {int(w[1])}
    if w[0] == "setmany":
        return {int(kv.split("=")[0]) for kv in w[2:]}
    if w[0] in ("getmany", "delmany"):
        return {int(x) for x in w[1:]}
    return set()


def recent_others(log: list[int], k: int) -> list[int]:
    """distinct keys used after the latest use of k (log: most recent first) - `recentOthers` of Model/Lru.lean"""
    seen: list[int] = []
    for u in log:
        if u == k:
            break
        if u not in seen:
            seen.append(u)
    return seen


class Oracle:
    """state of the property oracle along one history"""

    __slots__ = ("cap", "log", "log_b", "snap", "now", "fifo")

    def __init__(self, cap: int, log=(), snap=(), now=0, fifo=(), log_b=()):
        self.cap = cap
        self.log = list(log)        # most recent first
        self.log_b = list(log_b)    # the same, under the reading "a failed only-if-absent set is not a use"
        self.snap = list(snap)
        self.now = now
        self.fifo = list(fifo)      # keys in order of (re)insertion - what a FIFO cache would evict first

    def copy(self) -> "Oracle":
        return Oracle(self.cap, self.log, self.snap, self.now, self.fifo, self.log_b)

    def step(self, r: dict, stats: dict | None = None) -> list[str]:
        """consume one record; -> list of property violations (strings) at this step"""
        line, out, snap, count = r["line"], r["out"], r["snap"], r["count"]
        op = line.split()[0]
        bad: list[str] = []
        pre = self.snap
        at = r["now"] if op == "purge" else self.now      # instant at which the command ran
        used = uses_of(line, out, pre, at)
        failed_nx = line.split()[0] == "set" and line.split()[4] == "nx" and out == "F"
        for k in used:
            self.log.insert(0, k)
            if not failed_nx:
                self.log_b.insert(0, k)
        # (P1) capacity
        if count > self.cap or len(snap) > self.cap:
            bad.append(f"holds {max(count, len(snap))} entries after `{line}` with capacity {self.cap}")
        # (P2) victim rule
        pre_keys = [k for k, _ in pre]
        post_keys = [k for k, _ in snap]
        dele = deleted_by(line, out, pre, at)
        expired_present = [k for k, dl in pre if dl is not None and dl <= at]
        cands = pre_keys + [k for k in used if k not in pre_keys]
        evicted = []
        for k in dict.fromkeys(cands):
            if k in post_keys:
                continue
            if dele is None or k in dele:
                continue                                  # deleted / cleared
            if k in expired_present and k not in used:
                if op in WRITE_OPS and k not in keys_mentioned(line):
                    evicted.append((k, True))             # an expired entry pushed out by a write: statistics only
                continue                                  # collected as expired
            evicted.append((k, False))
            # the property text does not say whether a *failed* conditional write is a use of the key it tested;
            # the code (and the model) treat it as one.  A failing input must break the rule under both readings.
            n = max(len(recent_others(self.log, k)), len(recent_others(self.log_b, k)))
            if n < self.cap:
                if op == "purge":
                    bad.append(f"the purge task removed key {k}, which had neither expired nor been deleted, although only "
                               f"{n} < {self.cap} distinct other keys were used more recently")
                else:
                    bad.append(f"`{line}` evicted key {k} although only {n} < {self.cap} distinct other keys were used more recently")
        # bookkeeping for the statistics
        if stats is not None:
            def bump(name):
                stats[name] = stats.get(name, 0) + 1
            fifo_now = [k for k in self.fifo if k in pre_keys]
            for k, was_expired in evicted:
                bump("evictions")
                if was_expired:
                    bump("evicted_entry_was_expired_unpurged")
                elif expired_present:
                    bump("eviction_with_expired_unpurged_entries_present")
                if fifo_now and fifo_now[0] != k:
                    bump("victim_differs_from_fifo_victim")
            if used and not evicted and op != "setmany":
                k = used[-1]
                if k in pre_keys and pre_keys[-1] != k and post_keys and post_keys[-1] == k:
                    kind = op + ("_" + line.split()[4] + ("_failed" if out == "F" else "") if op == "set" else "")
                    bump("recency_refreshed_by_" + kind)
            if op == "purge" and len(post_keys) < len(pre_keys) and len(post_keys) >= 2:
                bump("sweep_collects_some_keeps_two_or_more")
            if op == "getexpire" and len(pre_keys) >= 2 and int(line.split()[1]) in pre_keys[:-1]:
                bump("get_expire_on_non_last_key")
            if len(post_keys) == self.cap and op in WRITE_OPS:
                bump("store_full_after_write")
        for k in post_keys:
            if k not in pre_keys and k in self.fifo:
                self.fifo.remove(k)
            if k not in self.fifo:
                self.fifo.append(k)
        self.fifo = [k for k in self.fifo if k in post_keys]
        self.snap = snap
        self.now = r["now"]
        return bad


def judge(cap: int, rec: list[dict], stats: dict | None = None):
    """-> (violations [(index, text)], collapsed use log after every record)"""
    o = Oracle(cap)
    viol, logs = [], []
    for i, r in enumerate(rec):
        if r["line"].startswith("?"):
            raise HarnessError(f"harness trouble in history: {r}")
        for b in o.step(r, stats):
            viol.append((i, b))
        logs.append(collapse(o.log))
    return viol, logs


# ------------------------------------------------------------------------------------------------
# model side


MODEL_ARGS = {"setadd": 3, "setremove": 2, "setpop": 2, "sliceincr": 3, "incrbits": 2, "getbits": 2}


def model_line(line: str) -> str:
    """the model does not look at payloads (members, window bounds, bit indexes): they are cut off"""
    w = line.split()
    return " ".join(w[:MODEL_ARGS[w[0]]]) if w[0] in MODEL_ARGS else line


def model_requests(cap: int, rec: list[dict]) -> list[str]:
    lines = [f"case {cap}"]
    for r in rec:
        lines += [model_line(r["line"]), "keys", "uselog"]
    return lines


# ------------------------------------------------------------------------------------------------
# generator for the larger alphabet

XWEIGHTS = [("setlock", 14), ("islocked", 7), ("unlock", 9), ("setadd", 10), ("setremove", 5), ("setpop", 4),
            ("sliceincr", 8), ("incrbits", 6), ("getbits", 3), ("getraw", 2), ("getmatch", 3), ("delmatch", 1),
            ("any_exists", 5), ("any_expire", 5), ("any_delete", 3), ("any_getexpire", 2), ("any_islocked", 2)]
TOKENS = ["t:0", "t:1", "t:2"]


def gen_xop(rng, ttls) -> str:
    names, ws = zip(*XWEIGHTS)
    op = rng.choices(names, ws)[0]
    ttl = lambda: rng.choice(ttls)
    if op == "setlock":
        return f"setlock {rng.choice(REGULAR_KEYS)} {rng.choice(TOKENS)} {ttl()}"
    if op == "islocked":
        return f"islocked {rng.choice(REGULAR_KEYS)}"
    if op == "unlock":
        return f"unlock {rng.choice(REGULAR_KEYS)} {rng.choice(TOKENS)}"
    if op == "setadd":
        return f"setadd {rng.choice(SET_KEYS)} {ttl()} " + " ".join(f"m{rng.randrange(4)}" for _ in range(rng.randint(1, 2)))
    if op == "setremove":
        return f"setremove {rng.choice(SET_KEYS)} m{rng.randrange(4)}"
    if op == "setpop":
        return f"setpop {rng.choice(SET_KEYS)} {rng.choice([0, 1, 100])}"
    if op == "sliceincr":
        a = rng.randrange(4)
        return f"sliceincr {rng.choice(SLICE_KEYS)} {ttl()} {a} {a + rng.randint(1, 4)} {rng.choice([1, 2, 5])}"
    if op == "incrbits":
        return f"incrbits {rng.choice(BIT_KEYS)} " + " ".join(str(rng.randrange(4)) for _ in range(rng.randint(1, 2)))
    if op == "getbits":
        return f"getbits {rng.choice(BIT_KEYS)} {rng.randrange(4)}"
    if op == "getraw":
        return f"getraw {rng.choice(ALL_KEYS)}"
    if op in ("getmatch", "delmatch"):
        return op
    k = rng.choice(ALL_KEYS)
    if op == "any_exists":
        return f"exists {k}"
    if op == "any_expire":
        return f"expire {k} {ttl()}"
    if op == "any_delete":
        return f"delete {k}"
    if op == "any_getexpire":
        return f"getexpire {k}"
    return f"islocked {k}"


def gen_xhistory(rng, maxlen: int, weights: dict | None = None, advs=None, ttls=None, share: float = 0.5) -> list[str]:
    """histories mixing the regular commands (over the regular keys) with the larger alphabet"""
    n = rng.randint(1, maxlen)
    tt = ttls or memhist.TTLS
    ops: list[str] = []
    while len(ops) < n:
        if rng.random() < share:
            ops.append(gen_xop(rng, tt))
        else:
            ops += memhist.gen_history(rng, len(REGULAR_KEYS), 1, weights, advs=advs, ttls=ttls)
    return ops


def parse_list(ans: str, tag: str) -> list[int] | None:
    if not ans.startswith(tag + "="):
        return None
    body = ans[len(tag) + 1:]
    return [int(x) for x in body.split(",")] if body else []


def model_diff(rec: list[dict], logs: list[list[int]], answers: list[str]):
    """first step where implementation and model differ: (index, kind, detail) or None"""
    if answers[0] != "ok":
        raise HarnessError(f"driver refused the case header: {answers[0]}")
    for i, r in enumerate(rec):
        a_op, a_keys, a_log = answers[1 + 3 * i: 4 + 3 * i]
        if not a_op.startswith("model="):
            raise HarnessError(f"driver cannot parse `{r['line']}`: {a_op}")
        m_out = a_op.split(" ", 1)[0][len("model="):]
        if r["out"] != m_out:
            return i, "result", f"`{r['line']}` -> impl {r['out']}, model {m_out}"
        mk = parse_list(a_keys, "keys")
        ik = [k for k, _ in r["snap"]]
        if sorted(mk) != sorted(ik):
            return i, "held-keys", f"after `{r['line']}` impl holds {ik}, model {mk}"
        if mk != ik:
            return i, "order", f"after `{r['line']}` impl order {ik}, model order {mk}"
        ml = collapse(parse_list(a_log, "log"))
        if ml != logs[i]:
            return i, "use-log", f"after `{r['line']}` harness use log {logs[i][:8]}, model ghost log {ml[:8]}"
    return None


# ------------------------------------------------------------------------------------------------
# exhaustive enumeration (thorough tier)


def dfs_alphabet(nkeys: int) -> list[tuple[str, int]]:
    """(protocol line, key it mentions or -1)"""
    al = []
    for k in range(nkeys):
        al += [(f"set {k} t:1 - a", k), (f"set {k} t:2 8 a", k), (f"set {k} t:3 - nx", k), (f"get {k}", k),
               (f"exists {k}", k), (f"incr {k} 1 -", k), (f"expire {k} 16", k), (f"delete {k}", k)]
    al.append(("adv 8", -1))
    return al


class Dfs:
    """All histories of length <= depth over `dfs_alphabet(nkeys)` whose keys first appear in the order 0,1,2,...
    (each history stands for all its key renamings), run on a raw `Memory(size=cap, check_interval=0)`:
    the store and the clock are saved before a command and put back after its subtree.  One backend object
    and one driver batch per first command."""

    def __init__(self, cap: int, nkeys: int, depth: int, driver):
        self.cap, self.nkeys, self.depth, self.driver = cap, nkeys, depth, driver
        self.alphabet = dfs_alphabet(nkeys)
        self.nodes = 0
        self.evicting = 0
        self.stats: dict[str, int] = {}
        self.failure = None      # (kind, history, detail)

    async def _walk(self, backend, runner, alphabet, path, oracle, maxkey, had_evict, reqs, obs):
        for line, k in alphabet:
            if k > maxkey + 1:
                continue
            saved_store = list(backend.store.items())
            saved_t = CLOCK.t
            w = line.split()
            if w[0] == "adv":
                CLOCK.advance(int(w[1]))
                out = "U"
            else:
                try:
                    out = await runner._exec(w)
                except Exception as exc:
                    out = f"X:{type(exc).__name__}"
            r = {"line": line, "out": out, "snap": snap_of(backend.store), "now": ticks(CLOCK.t),
                 "count": await backend.get_keys_count()}
            o2 = oracle.copy()
            before = self.stats.get("evictions", 0)
            bad = o2.step(r, self.stats)
            ev = had_evict or self.stats.get("evictions", 0) > before
            self.nodes += 1
            self.evicting += 1 if ev else 0
            path.append(line)
            if bad and (self.failure is None or self.failure[0] != "property"):
                self.failure = ("property", list(path), bad[0])
            reqs += ["push", line, "keys", "uselog"]
            obs.append((out, [x for x, _ in r["snap"]], collapse(o2.log)))
            if len(path) < self.depth:
                await self._walk(backend, runner, self.alphabet, path, o2, max(maxkey, k), ev, reqs, obs)
            reqs.append("pop")
            path.pop()
            backend.store = OrderedDict(saved_store)
            CLOCK.t = saved_t

    async def _top(self, first):
        from cashews.backends.memory import Memory

        backend = Memory(size=self.cap, check_interval=0)
        await backend.init()
        runner = memhist.Runner("raw", self.cap)
        runner.api = runner.backend = backend
        reqs: list[str] = [f"case {self.cap}"]
        obs: list = []
        await self._walk(backend, runner, [first], [], Oracle(self.cap), -1, False, reqs, obs)
        await backend.close()
        return reqs, obs

    def run_first(self, first: tuple[str, int]) -> int:
        """enumerate the subtree below one first command and compare it with the model; -> nodes visited"""
        reqs, obs = vtime.run(self._top, first)
        answers = self.driver.ask(reqs)
        if answers[0] != "ok":
            raise HarnessError(f"driver refused the case header: {answers[0]}")
        path: list[str] = []
        i = 1
        oi = 0
        while i < len(reqs):
            q = reqs[i]
            if q == "push":
                if answers[i] != "ok":
                    raise HarnessError("driver does not know `push`")
                i += 1
                continue
            if q == "pop":
                if answers[i] != "ok":
                    raise HarnessError("driver `pop` on an empty stack")
                path.pop()
                i += 1
                continue
            a_op, a_keys, a_log = answers[i: i + 3]
            out, ikeys, ilog = obs[oi]
            path.append(q)
            if self.failure is None:
                if not a_op.startswith("model="):
                    raise HarnessError(f"driver cannot parse `{q}`: {a_op}")
                m_out = a_op.split(" ", 1)[0][len("model="):]
                mk = parse_list(a_keys, "keys")
                ml = collapse(parse_list(a_log, "log"))
                d = None
                if out != m_out:
                    d = f"`{q}` -> impl {out}, model {m_out}"
                elif mk != ikeys:
                    d = f"after `{q}` impl order {ikeys}, model order {mk}"
                elif ml != ilog:
                    d = f"after `{q}` harness use log {ilog}, model ghost log {ml}"
                if d:
                    self.failure = ("correspondence", list(path), d)
            oi += 1
            i += 3
        if oi != len(obs) or path:
            raise HarnessError("enumeration bookkeeping out of step with the driver requests")
        return len(obs)
