"""C16 helper: a fault-injecting in-memory backend and the runner of one (program, fault set) case.

`FaultyMemory` is registered with cashews' public `register_backend` under the alias `c16fault`, so the
backends are created by `Cache.setup("c16fault://...")` like any other (facade glue, serializer, middlewares
included).  Every *outermost* command that reaches a FaultyMemory while the recorder is on gets the next global
index, is logged, and raises the chosen exception INSTEAD of running iff its index is in the fault set.

A program (JSON-able dict):
    mode      "fast" | "locked" | "serializable"
    timeout   transaction timeout in ticks (1 tick = 1/8 s)
    nb        1 | 2 | 3 backends (prefix "", "b:" and "c:")
    form      "ctx" (async with cache.transaction(...)) | "decor" (@cache.transaction(...) on a coroutine function)
    exc       "interaction" (CacheBackendInteractionError) | "runtime" (RuntimeError) - the injected Exception class
    bkind     "cancel" (asyncio.CancelledError - what a backend command cut short by asyncio.timeout()/wait_for ends with on
              Python >= 3.11) | "base" (a BaseException subclass of our own) - the injected class of a fault of BaseException kind
    bexc      "exception" (default) | "cancel": what the body command `raise` raises - BodyError(Exception) or
              BodyCancel(asyncio.CancelledError), i.e. the task is cancelled while it is inside the block
    data      [[b, k, v, ttl|None], ...]      initial store content (ttl in ticks: the key lapses `ttl` ticks after the start)
    flocks    [[b, lk], ...]                  lock keys held for ever by a foreign owner before the block
    body      ["set.b.k.v.ttl", "incr.b.k", "incr.b.k.ttl", "get.b.k", "del.b.k", "adv.dt", "raise",
               "setmany.b.ttl.k:v+k:v+...", "delmany.b.k+k+...",      (multi-key commands: distinct keys of ONE backend)
               "expire.b.k.ttl"        cache.expire(key, ttl)
               "setx.b.k.v.ttl"        cache.set(key, v, expire=ttl, exist=True)
               "setnx.b.k.v.ttl"]      cache.set(key, v, expire=ttl, exist=False)
               "with.<i>" ... "end"    a NESTED `async with T[i]:` on shared context object i = ONE `cache.transaction(mode, timeout)`
                                       object per i, created once per run and entered as often as the program says
               "with.-" ... "end"      a nested `async with cache.transaction(mode, timeout):` (an object of its own)
               "with.d" ... "end"      a call of a function decorated with `@cache.transaction(mode, timeout)` whose body is ...
              (the tokens between a `with` and its `end` are the nested block's body; blocks nest to any depth)
               "commit" / "rollback"   `await tx.commit()` / `await tx.rollback()` in the MIDDLE of the body, on the Transaction that the
                                       nearest enclosing `async with ... as tx` returned (not available at the top level of a
                                       decorated outermost block); the block goes on afterwards
              `incr` with a ttl, `expire`, `setx`/`setnx` are read-modify-writes: each can issue a backend READ of its own
              (get / exists) after the key's lock was taken, and that read can fail.
    obj       (optional) i: the OUTERMOST block is `async with T[i]:` on shared context object i, so a `with.<i>` in the body
              re-enters the very object whose transaction is running; with form "decor" the function is decorated with `@T[i]`
              (whose __call__ builds a new object per call: T[i] itself is then first entered by a `with.<i>` of the body)
    holders   [{"b": b, "k": k, "end": "rollback"|"commit"}, ...]   contending holders: each is ANOTHER TASK running a real
              transaction block (same mode, long timeout) that has written key k of backend b - so it holds that key's lock
              (the backend's global lock when serializable) - and is parked on an asyncio.Event.  "rollback": it wrote
              `set k 99` and leaves its block by raising; "commit": it deleted k (which must be absent from `data`) and
              leaves normally.  Either way its only effect on the stores is to release its lock.

A case = (program, faults, rels): `faults` the victim's command indices made to raise - an element is an int `i` (command i
raises the program's Exception class) or a pair `[i, "B"]` (command i raises the program's BaseException-only class `bkind`:
no `except Exception` handler sees it); `rels[j]` says when holder j is
released: an int i = just before the victim's backend command number i takes effect (the victim's command is suspended
until the holder's block has been left), or "after" = after the victim's block has been left.  Commands of the holders
are neither counted nor faulted.  After the victim's block is left, every holder is released and awaited, and whatever
task is still running (there must be none) gets its polling periods before the lock keys are inspected.
"""
from __future__ import annotations

import asyncio
import contextvars
import inspect
import os

from . import vtime
from .vtime import BASE, CLOCK, TICK

from cashews import Cache, LockedError  # noqa: E402
from cashews.backends.interface import NOT_EXIST, UNLIMITED  # noqa: E402
from cashews.backends.memory import Memory  # noqa: E402
from cashews.exceptions import CacheBackendInteractionError  # noqa: E402
from cashews.wrapper.backend_settings import register_backend  # noqa: E402
from cashews.wrapper.transaction import TransactionMode, _transaction  # noqa: E402

NKEYS = 4
PROBE = (0, 9, 1)
FOREIGN = "foreign-owner"
MODES = {"fast": TransactionMode.FAST, "locked": TransactionMode.LOCKED, "serializable": TransactionMode.SERIALIZABLE}
COMMANDS = [
    "set", "set_many", "get", "get_many", "exists", "incr", "delete", "delete_many", "delete_match", "expire",
    "get_expire", "set_lock", "unlock", "is_locked", "clear", "set_raw", "get_raw", "get_bits", "incr_bits",
    "slice_incr", "set_add", "set_remove", "set_pop", "get_keys_count", "get_size", "ping",
]


class InjectedInteraction(CacheBackendInteractionError):
    def __init__(self, idx):
        super().__init__(f"injected fault at backend command {idx}")
        self.idx = idx


class InjectedRuntime(RuntimeError):
    def __init__(self, idx):
        super().__init__(f"injected fault at backend command {idx}")
        self.idx = idx


class InjectedCancel(asyncio.CancelledError):
    """a backend command cut short by a time limit: `asyncio.timeout()` / `wait_for` cancel the innermost await, the command
    ends with CancelledError (a BaseException that is NOT an Exception)"""
    def __init__(self, idx):
        super().__init__(f"injected cancellation of backend command {idx}")
        self.idx = idx


class InjectedBase(BaseException):
    def __init__(self, idx):
        super().__init__(f"injected BaseException at backend command {idx}")
        self.idx = idx


class BodyError(Exception):
    pass


class BodyCancel(asyncio.CancelledError):
    pass


BASE_KIND = "B"                  # marker of a fault of BaseException kind in a fault set


def fidx(f) -> int:
    """command index of a fault (an int, or a pair [index, "B"])"""
    return f if isinstance(f, int) else int(f[0])


def fbase(f) -> bool:
    return not isinstance(f, int)


def norm_faults(faults) -> tuple:
    """canonical fault set: ints (Exception kind) and (i, "B") tuples (BaseException kind), ordered by index"""
    out = []
    for f in faults:
        if isinstance(f, int):
            out.append(f)
        else:
            if len(f) != 2 or f[1] != BASE_KIND:
                raise ValueError(f"bad fault {f!r}")
            out.append((int(f[0]), BASE_KIND))
    return tuple(sorted(out, key=fidx))


def show_faults(faults) -> list:
    return [f if isinstance(f, int) else f"{f[0]} (BaseException)" for f in faults]


# the loop of `Transaction._rollback` the model is asked to run: "all" = as in /repo since 12f0cbb (D36: every backend is rolled
# back whatever fails, a BaseException is re-raised at the end).  "head" = the OLD loop (`except Exception` only: a BaseException
# left the loop) - only through the environment variable C16_RB, for looking at a tree in which 12f0cbb is reverted.
RB_LOOP = os.environ.get("C16_RB", "all")


class HolderAbort(Exception):
    pass


HOLDER_TIMEOUT_S = 10.0          # lease of a holder's lock: far longer than any victim waits

class Recorder:
    def __init__(self):
        self.on = False
        self.n = 0
        self.trace = []
        self.faults = {}           # command index -> True iff the fault is of BaseException kind
        self.exc_cls = InjectedInteraction
        self.base_cls = InjectedCancel

        self.times = {}
        self.adv = 0              # ticks the body let pass explicitly (`adv`); any other progress of the clock is lock-steps
        self.late = []            # commands issued on behalf of the victim AFTER its block was left (there must be none)
        self.watch_late = False
        self.before_cmd = None    # async hook(idx): the environment's move just before command idx takes effect

    def start(self, faults, exc_cls, before_cmd=None, base_cls=InjectedCancel):
        self.on = True
        self.n = 0
        self.trace = []
        self.times = {}
        self.adv = 0
        self.late = []
        self.watch_late = False
        self.faults = {fidx(f): fbase(f) for f in faults}
        self.exc_cls = exc_cls
        self.base_cls = base_cls
        self.before_cmd = before_cmd


REC = Recorder()
_DEPTH: contextvars.ContextVar[int] = contextvars.ContextVar("c16_depth", default=0)
_ROLE: contextvars.ContextVar[str] = contextvars.ContextVar("c16_role", default="victim")


def _make(orig, name):
    async def cmd(self, *args, **kwargs):
        if _DEPTH.get() or _ROLE.get() != "victim":
            return await orig(self, *args, **kwargs)
        if not REC.on:
            if not REC.watch_late:
                return await orig(self, *args, **kwargs)
            REC.late.append((self.tag, name, args, kwargs, CLOCK.t))
            tok = _DEPTH.set(1)
            try:
                return await orig(self, *args, **kwargs)
            finally:
                _DEPTH.reset(tok)
        idx = REC.n
        REC.n += 1
        bad = idx in REC.faults
        REC.trace.append((idx, self.tag, name, args, kwargs, bad, CLOCK.ticks()))
        if REC.before_cmd is not None:
            await REC.before_cmd(idx, name)
        REC.times[idx] = (CLOCK.t, REC.adv)
        if bad:
            raise (REC.base_cls if REC.faults[idx] else REC.exc_cls)(idx)
        tok = _DEPTH.set(1)
        try:
            return await orig(self, *args, **kwargs)
        finally:
            _DEPTH.reset(tok)
    return cmd


FaultyMemory = type(
    "FaultyMemory", (Memory,),
    {name: _make(getattr(Memory, name), name) for name in COMMANDS if inspect.iscoroutinefunction(getattr(Memory, name, None))},
)
FaultyMemory.tag = -1
register_backend("c16fault", FaultyMemory)

PREFIX = ["", "b:", "c:"]


def kname(b, k):
    return f"{PREFIX[b]}k{k}"


def lockname(mode, b, lk):
    return ":serializable:lock" if lk == 0 and mode == "serializable" else f":tx_lock:{kname(b, lk - 1)}"


def _kidx(b, name):
    p = PREFIX[b]
    if isinstance(name, str) and name.startswith(p + "k") and name[len(p) + 1:].isdigit():
        return int(name[len(p) + 1:])
    return None


def _lkidx(b, name):
    if name == ":serializable:lock":
        return 0
    if isinstance(name, str) and name.startswith(":tx_lock:"):
        k = _kidx(b, name[len(":tx_lock:"):])
        return None if k is None else k + 1
    return None


def _ticks(seconds):
    if seconds is None:
        return "-"
    t = seconds * 8
    return str(int(t)) if t == int(t) else "?%r" % (seconds,)


def show_event(ev) -> str:
    """canonical text of a logged command, the same format as the model driver's `showEv`"""
    idx, b, name, args, kwargs, bad, _ = ev
    bang = "!" if bad else ""
    try:
        if name == "get":
            s = f"get.{_kidx(b, args[0] if args else kwargs['key'])}"
        elif name == "set":
            a = dict(zip(("key", "value", "expire", "exist"), args), **kwargs)
            s = f"set.{_kidx(b, a['key'])}.{a['value']}" + ("" if a.get("expire") is None and a.get("exist") is None else ".?")
        elif name == "exists":
            s = f"exists.{_kidx(b, args[0] if args else kwargs['key'])}"
        elif name == "expire":        # never sent by a transaction before commit (nor at commit): shown so that a report can name it
            a = dict(zip(("key", "timeout"), args), **kwargs)
            k, lk = _kidx(b, a["key"]), _lkidx(b, a["key"])
            s = f"?expire.{k if k is not None else f'lock{lk}' if lk is not None else repr(a['key'])}.{_ticks(a['timeout'])}"
        elif name == "set_lock":
            a = dict(zip(("key", "value", "expire"), args), **kwargs)
            s = f"setlock.{_lkidx(b, a['key'])}.{_ticks(a['expire'])}"
        elif name == "unlock":
            s = f"unlock.{_lkidx(b, args[0] if args else kwargs['key'])}"
        elif name == "delete_many":
            s = "delmany." + "+".join(sorted(str(_kidx(b, k)) for k in args))
        elif name == "set_many":
            a = dict(zip(("pairs", "expire"), args), **kwargs)
            s = f"setmany.{_ticks(a.get('expire'))}." + "+".join(sorted(f"{_kidx(b, k)}:{v}" for k, v in a["pairs"].items()))
        else:
            s = f"?{name}"
    except Exception as exc:  # an argument shape this harness does not know: show it, the comparison will flag it
        s = f"?{name}({type(exc).__name__})"
    return f"{b}.{s}{bang}"


def attempts_for(timeout_s: float) -> int:
    """number of iterations of the wait loop in `_lock_updates` for this timeout (the loop's own arithmetic)"""
    wait, n = timeout_s, 0
    while wait > 0.0:
        wait -= 0.1
        wait = round(wait, 1)
        n += 1
    return n


def lock_universe(prog):
    mode = prog["mode"]
    out = []
    for b in range(prog["nb"]):
        if mode == "serializable":
            out.append((b, 0))
        out.extend((b, k + 1) for k in range(NKEYS))
    return out


def holder_lock(prog, h):
    """(backend, lock key index) held by holder `h`"""
    return (h["b"], 0 if prog["mode"] == "serializable" else h["k"] + 1)


def matching_end(body, i):
    """index of the `end` that closes the `with` at index i"""
    depth = 0
    for j in range(i, len(body)):
        h = body[j].split(".")[0]
        if h == "with":
            depth += 1
        elif h == "end":
            depth -= 1
            if depth == 0:
                return j
    raise ValueError(f"`{body[i]}` at {i} is never closed")


def valid_body(body) -> bool:
    depth = 0
    for c in body:
        h = c.split(".")[0]
        if h == "with":
            depth += 1
        elif h == "end":
            depth -= 1
            if depth < 0:
                return False
    return depth == 0


def valid_prog(prog) -> bool:
    """balanced with/end, and every `commit` / `rollback` token has a Transaction object at hand (`async with ... as tx`)"""
    if not valid_body(prog["body"]):
        return False
    have = [prog.get("form") != "decor"]
    for c in prog["body"]:
        h = c.split(".")
        if h[0] == "with":
            have.append(True if h[1] != "d" else have[-1])
        elif h[0] == "end":
            have.pop()
        elif h[0] in ("commit", "rollback") and not have[-1]:
            return False
    return True


def model_obj(prog):
    """the context object of the outermost block as the model sees it: the decorator form builds an object of its own per call"""
    return prog.get("obj") if prog.get("form") != "decor" else None


# backend commands that can change the data of a store: none of them may reach a backend when the body failed
WRITE_COMMANDS = {"set", "set_many", "incr", "delete", "delete_many", "delete_match", "expire", "clear", "set_raw", "incr_bits",
                  "slice_incr", "set_add", "set_remove", "set_pop"}


async def deadline_of(be, key):
    """When does `key` lapse?  API-level: `get_expire` (whole seconds, rounded) narrows it down to nine ticks, then the
    virtual clock is moved to find the first tick at which the backend reports the key gone.  Returns None (no such
    key now), "-" (no deadline), the deadline in ticks since BASE as a string, or "?..." when it is not a whole tick.
    Pure reads (`get_expire` removes nothing); the clock is put back."""
    t0 = CLOCK.t
    r = await be.get_expire(key)
    if r == NOT_EXIST:
        return None
    if r == UNLIMITED:
        return "-"
    lo, hi = max(r * 8 - 4, 1), r * 8 + 5          # remaining ticks n (first tick at which it is gone): lo <= n <= hi
    try:
        async def gone(n):
            CLOCK.t = t0 + n * TICK
            return await be.get_expire(key) == NOT_EXIST
        if not await gone(hi) or (lo > 1 and await gone(lo - 1)):
            return f"?get_expire={r}"
        while lo < hi:
            mid = (lo + hi) // 2
            if await gone(mid):
                hi = mid
            else:
                lo = mid + 1
        CLOCK.t = t0 + lo * TICK - TICK / 1024      # still there a moment before: the deadline is that very tick
        exact = await be.get_expire(key) != NOT_EXIST
    finally:
        CLOCK.t = t0
    at = (t0 - BASE) / TICK + lo
    return str(int(at)) if exact and at == int(at) else f"?{(t0 - BASE) / TICK + lo!r}"


async def _run(prog, faults, rels):
    mode = prog["mode"]
    nb = prog["nb"]
    timeout_s = prog["timeout"] * TICK
    holders = prog.get("holders") or []
    if len(rels) != len(holders):
        raise ValueError("one release point per holder")
    if holders and mode == "fast":
        raise ValueError("fast mode takes no locks: no holders")
    asyncio.get_running_loop().set_exception_handler(lambda loop, ctx: None)   # orphan tasks' errors: observed through the locks
    cache = Cache()
    backs = []
    for b in range(nb):
        be = cache.setup("c16fault://?check_interval=0", prefix=PREFIX[b])
        be.tag = b
        backs.append(be)
    await cache.init()
    REC.on = False
    for b, k, v, ttl in prog["data"]:
        await backs[b].set(kname(b, k), v, expire=None if ttl is None else ttl * TICK)
    for b, lk in prog["flocks"]:
        await backs[b].set(lockname(mode, b, lk), FOREIGN)
    universe = [(b, k) for b in range(nb) for k in range(NKEYS)] + [PROBE[:2]]

    async def snapshot():
        return {f"{b}.{k}": await backs[b].get(kname(b, k)) for b, k in universe}

    async def snapshot_entries():
        """the whole live entries: value AND deadline (`v@dl`, deadline in ticks of the virtual clock, `-` = none)"""
        out = {}
        for b, k in universe:
            dl = await deadline_of(backs[b], kname(b, k))
            v = await backs[b].get(kname(b, k))
            out[f"{b}.{k}"] = None if v is None or dl is None else f"{v}@{dl}"
        return out

    before = await snapshot()

    # ---- the contending holders: other tasks inside their own (real) transaction blocks -----------------------
    foreign_tokens = {FOREIGN}
    hstate = []

    async def holder_body(h, started, go):
        _ROLE.set("holder")
        try:
            async with cache.transaction(MODES[mode], timeout=HOLDER_TIMEOUT_S):
                if h["end"] == "commit":
                    await cache.delete(kname(h["b"], h["k"]))
                else:
                    await cache.set(kname(h["b"], h["k"]), 99)
                started.set()
                await go.wait()
                if h["end"] != "commit":
                    raise HolderAbort()
        except HolderAbort:
            pass
        finally:
            started.set()

    for h in holders:
        if h["end"] == "commit" and any(d[0] == h["b"] and d[1] == h["k"] for d in prog["data"]):
            raise ValueError("a committing holder deletes a key that must be absent")
        started, go = asyncio.Event(), asyncio.Event()
        task = asyncio.ensure_future(holder_body(h, started, go))
        await started.wait()
        hb, hlk = holder_lock(prog, h)
        tok = await backs[hb].get_raw(lockname(mode, hb, hlk))
        if task.done() or tok is None:
            raise RuntimeError(f"harness: holder {h} did not obtain its lock")
        foreign_tokens.add(tok)
        hstate.append({"go": go, "task": task, "released_at": None})

    async def release(j, where, wait=True):
        st = hstate[j]
        if st["released_at"] is None:
            st["released_at"] = where
            st["go"].set()
        if wait:
            await st["task"]

    async def before_cmd(idx, name):
        # the victim's command is suspended until the holder has left its block, so that the release has taken effect before
        # it.  Not for `unlock`: those are sibling tasks of one asyncio.gather, suspending one would reorder them; an unlock
        # does not depend on foreign locks, so there the holder just starts leaving (it is awaited after the block).
        for j, r in enumerate(rels):
            if r == idx:
                await release(j, idx, wait=name != "unlock")

    outs = []
    # base: the entries the store has to show after a failed body = the initial content, or what it held right after the last
    # explicit tx.commit() of the body ({key: "v@dl"}; None = undefined: an explicit commit failed half-way)
    state = {"body_end": None, "body_raised": False, "starts": [], "explicit": [], "write_floor": 0,
             "base": {f"{b}.{k}": f"{v}@{'-' if ttl is None else ttl}" for b, k, v, ttl in prog["data"]}}

    if not valid_body(prog["body"]):
        raise ValueError(f"unbalanced with/end in {prog['body']}")
    TX = {}

    def tx_obj(i):
        """shared context object i: ONE TransactionContextDecorator, entered as often as the program says"""
        if i not in TX:
            TX[i] = cache.transaction(MODES[mode], timeout=timeout_s)
        return TX[i]

    async def run_tokens(i, stop, cur):
        tokens = prog["body"]
        while i < stop:
            c = tokens[i]
            state["starts"].append(REC.n)
            w = c.split(".")
            if w[0] == "with":
                j = matching_end(tokens, i)
                if w[1] == "d":
                    @cache.transaction(MODES[mode], timeout=timeout_s)
                    async def inner_decorated():
                        await run_tokens(i + 1, j, cur)
                    await inner_decorated()
                elif w[1] == "-":
                    async with cache.transaction(MODES[mode], timeout=timeout_s) as t:
                        await run_tokens(i + 1, j, t)
                else:
                    async with tx_obj(int(w[1])) as t:
                        await run_tokens(i + 1, j, t)
                state["starts"].append(REC.n)          # the `end` token
                i = j + 1
                continue
            if w[0] in ("commit", "rollback"):
                if cur is None:
                    raise ValueError("commit / rollback at the top level of a decorated block: no Transaction object at hand")
                state["explicit"].append((w[0], REC.n))
                try:
                    await (cur.commit() if w[0] == "commit" else cur.rollback())
                except BaseException:
                    if w[0] == "commit":
                        state["base"] = None            # a commit that failed half-way: what it applied is compared with the model only
                    raise
                finally:
                    state["write_floor"] = REC.n
                if w[0] == "commit" and state["base"] is not None:
                    tok = _DEPTH.set(1)                  # the harness's own reads are not commands of the program
                    try:
                        state["base"] = await snapshot_entries()
                    finally:
                        _DEPTH.reset(tok)
            elif w[0] == "set":
                b, k, v = int(w[1]), int(w[2]), int(w[3])
                r = await cache.set(kname(b, k), v, expire=None if w[4] == "-" else int(w[4]) * TICK)
                outs.append("T" if r is True else "F" if r is False else f"?{r!r}")
            elif w[0] == "incr":
                if len(w) > 3 and w[3] != "-":
                    r = await cache.incr(kname(int(w[1]), int(w[2])), expire=int(w[3]) * TICK)
                else:
                    r = await cache.incr(kname(int(w[1]), int(w[2])))
                outs.append(f"n{r}")
            elif w[0] == "expire":
                r = await cache.expire(kname(int(w[1]), int(w[2])), int(w[3]) * TICK)
                outs.append("U" if r is None else f"?{r!r}")
            elif w[0] in ("setx", "setnx"):
                b, k, v = int(w[1]), int(w[2]), int(w[3])
                r = await cache.set(kname(b, k), v, expire=None if w[4] == "-" else int(w[4]) * TICK, exist=w[0] == "setx")
                outs.append("T" if r is True else "F" if r is False else f"?{r!r}")
            elif w[0] == "get":
                r = await cache.get(kname(int(w[1]), int(w[2])))
                outs.append("-" if r is None else f"v{r}")
            elif w[0] == "del":
                r = await cache.delete(kname(int(w[1]), int(w[2])))
                outs.append("T" if r is True else "F" if r is False else f"?{r!r}")
            elif w[0] == "setmany":
                b = int(w[1])
                pairs = {kname(b, int(kv.split(":")[0])): int(kv.split(":")[1]) for kv in w[3].split("+")}
                r = await cache.set_many(pairs, expire=None if w[2] == "-" else int(w[2]) * TICK)
                outs.append("U" if r is None else f"?{r!r}")
            elif w[0] == "delmany":
                b = int(w[1])
                r = await cache.delete_many(*[kname(b, int(k)) for k in w[2].split("+")])
                outs.append("U" if r is None else f"?{r!r}")
            elif w[0] == "adv":
                CLOCK.advance(int(w[1]))
                REC.adv += int(w[1])
            elif w[0] == "raise":
                raise BodyCancel() if prog.get("bexc") == "cancel" else BodyError()
            else:
                raise ValueError(f"unknown body command {c}")
            i += 1

    async def body(cur):
        try:
            await run_tokens(0, len(prog["body"]), cur)
        except BaseException:
            state["body_raised"] = True
            raise
        finally:
            state["body_end"] = REC.n

    exc_cls = InjectedRuntime if prog.get("exc") == "runtime" else InjectedInteraction
    base_cls = InjectedBase if prog.get("bkind") == "base" else InjectedCancel
    REC.start(faults, exc_cls, before_cmd if holders else None, base_cls)
    exc = "none"
    try:
        outer = tx_obj(prog["obj"]) if prog.get("obj") is not None else cache.transaction(MODES[mode], timeout=timeout_s)
        if prog.get("form") == "decor":
            @outer
            async def decorated():
                await body(None)
            await decorated()
        else:
            async with outer as handle:
                await body(handle)
    except (InjectedInteraction, InjectedRuntime) as e:
        exc = f"fault:{e.idx}"
    except LockedError:
        exc = "locked"
    except (InjectedCancel, InjectedBase) as e:
        exc = f"bfault:{e.idx}"
    except (BodyError, BodyCancel):
        exc = "body"
    except (Exception, asyncio.CancelledError) as e:  # noqa: BLE001
        exc = f"other:{type(e).__name__}"
    # ---- the victim's block has been left ------------------------------------------------------------------
    REC.on = False
    REC.watch_late = True
    trace = list(REC.trace)
    end_ticks = CLOCK.ticks() if abs((CLOCK.t - BASE) / TICK - CLOCK.ticks()) < 1e-9 else None
    ctx_none = _transaction.get() is None
    # every holder finishes; then anything still running on behalf of the victim (nothing should be) gets its polling periods
    for j in range(len(hstate)):
        await release(j, "after")
    me = asyncio.current_task()
    pending_after = sum(1 for t in asyncio.all_tasks() if t is not me and not t.done())
    t_stop = CLOCK.t + timeout_s + 1.0
    while CLOCK.t < t_stop and any(t is not me and not t.done() for t in asyncio.all_tasks()):
        await asyncio.sleep(0.1)
    REC.watch_late = False
    late = list(REC.late)
    times = dict(REC.times)       # (a command still suspended when the block was left - never on a correct tree - took effect later)
    after = await snapshot()
    after_entries = await snapshot_entries()
    # what an untouched store shows at this instant: the base content (initial, or as of the last explicit commit) minus what has
    # expired meanwhile
    untouched = {f"{b}.{k}": None for b, k in universe}
    untouched_entries = dict(untouched)
    base = state["base"]
    for key, ent in (base or {}).items():
        if ent is None:
            continue
        v, dl = ent.rsplit("@", 1)
        live = dl == "-" or (dl.lstrip("-").isdigit() and CLOCK.t < BASE + int(dl) * TICK)
        if live:
            untouched[key] = int(v)
            untouched_entries[key] = ent
    # remaining lock keys (raw presence, whatever their age): `get_raw` ignores deadlines
    remaining = []
    for b, lk in lock_universe(prog):
        raw = await backs[b].get_raw(lockname(mode, b, lk))
        if raw is not None:
            remaining.append((b, lk, "f" if raw in foreign_tokens else "m"))
    # a write issued right after the block
    pb, pk, pv = PROBE
    try:
        await cache.set(kname(pb, pk), pv)
    except Exception:  # noqa: BLE001  (a task still inside a dead transaction may fail here: the write is lost all the same)
        pass
    probe_ok = (await backs[pb].get(kname(pb, pk))) == pv
    final = await snapshot()
    # lease of what remains: live until (acquisition + timeout), gone at that instant.  Acquisitions that happened after a
    # lock-step (0.1 s sleeps) are not at whole ticks: their deadline is checked but reported as "~" (not compared with the model)
    acq = {}
    for idx, b, name, args, kwargs, bad, _t in trace:
        if name == "set_lock" and not bad:
            acq[(b, _lkidx(b, args[0] if args else kwargs["key"]))] = times.get(idx, (CLOCK.t, None))
    for b, name, args, kwargs, t in late:
        if name == "set_lock":
            acq[(b, _lkidx(b, args[0] if args else kwargs["key"]))] = (t, None)
    locks = []
    for b, lk, owner in remaining:
        if owner == "f":
            locks.append(f"{b}.{lk}.f.-")
            continue
        dl = "?"
        if (b, lk) in acq:
            t_acq, adv_then = acq[(b, lk)]
            t_dl = t_acq + timeout_s
            ok = True
            if CLOCK.t <= t_dl - TICK / 2:
                CLOCK.t = t_dl - TICK / 2
                ok = await backs[b].exists(lockname(mode, b, lk))
            CLOCK.t = max(CLOCK.t, t_dl)
            gone = not await backs[b].exists(lockname(mode, b, lk))
            if ok and gone:
                # the model's clock only moves by `adv`: an acquisition at any other instant came after lock-steps
                dl = str(adv_then + prog["timeout"]) if adv_then is not None and t_acq == BASE + adv_then * TICK else "~"
        locks.append(f"{b}.{lk}.m.{dl}")
    await cache.close()
    return {
        "exc": exc,
        "ctx": "none" if ctx_none else "some",
        "trace": [show_event(e) for e in trace],
        "outs": outs,
        "locks": sorted(locks),
        "data": sorted(f"{k}={v}" for k, v in final.items() if v is not None),
        "probe": "ok" if probe_ok else "lost",
        "now": end_ticks,
        "store": sorted(f"{k}={v}" for k, v in after_entries.items() if v is not None),
        # for the property oracle
        "untouched_entries": untouched_entries,
        "after_entries": after_entries,
        # write commands that reached a backend and RAN (one that was made to fail had no effect here)
        "writes_sent": [show_event(e) for e in trace if e[2] in WRITE_COMMANDS and not e[5] and e[0] >= state["write_floor"]],
        "base_defined": base is not None,
        "explicit": state["explicit"],
        "before": before,
        "untouched": untouched,
        "after": after,
        "body_end": state["body_end"],
        "body_raised": state["body_raised"],
        # the unlock commands in trace order, gather after gather (the model's gather number n reads its order from position
        # "unlocks issued so far" on)
        "uprio": [(b, _lkidx(b, args[0])) for _, b, name, args, _, _, _ in trace if name == "unlock"],
        "unlocks_ev": {i: (b, _lkidx(b, args[0])) for i, b, name, args, _, _, _ in trace if name == "unlock"},
        "failed": [i for i, *_r in trace if _r[4]],
        "failed_base": [i for i, *_r in trace if _r[4] and REC.faults.get(i)],
        "cmd_starts": state["starts"],
        "released_at": [st["released_at"] for st in hstate],
        "tasks_pending_after_block": pending_after,
        "late_commands": [show_event((0, b, name, args, kwargs, False, 0)) for b, name, args, kwargs, _ in late],
    }


def execute(prog, faults, rels=()):
    return vtime.run(_run, prog, norm_faults(faults), tuple(rels))


def model_line(prog, faults, uprio, rels=()) -> str:
    def dash(xs, sep=","):
        xs = list(xs)
        return sep.join(xs) if xs else "-"
    holders = prog.get("holders") or []
    hl = [holder_lock(prog, h) for h in holders]
    return " ".join([
        "run",
        f"mode={prog['mode']}",
        f"timeout={prog['timeout']}",
        f"attempts={attempts_for(prog['timeout'] * TICK)}",
        "uprio=" + dash(f"{b}.{lk}" for b, lk in uprio),
        "faults=" + dash(f"{fidx(f)}b" if fbase(f) else str(f) for f in norm_faults(faults)),
        f"rb={RB_LOOP}",
        "data=" + dash(f"{b}.{k}.{v}.{'-' if ttl is None else ttl}" for b, k, v, ttl in prog["data"]),
        "flocks=" + dash(f"{b}.{lk}" for b, lk in prog["flocks"]),
        "body=" + dash(("with.-" if c == "with.d" else c for c in prog["body"]), ";"),
        "obj=" + ("-" if model_obj(prog) is None else str(model_obj(prog))),
        "probe=%d.%d.%d" % PROBE,
        "step=0",
        "hlocks=" + dash(f"{b}.{lk}" for b, lk in hl),
        "rel=" + dash(f"{r}.{b}.{lk}" for (b, lk), r in zip(hl, rels) if isinstance(r, int)),
    ])


def parse_answer(ans: str) -> dict | None:
    if not ans.startswith("exc="):
        return None
    d = dict(p.split("=", 1) for p in ans.split(" "))
    def lst(s, sep):
        return [] if s == "~" else s.split(sep)
    return {
        "exc": d["exc"], "ctx": d["ctx"], "trace": lst(d["trace"], ";"), "outs": lst(d["outs"], ","),
        "locks": lst(d["locks"], ","), "data": lst(d["data"], ","), "probe": d["probe"], "now": int(d["now"]),
        "store": lst(d["store"], ","),
    }


def oracle(prog, obs) -> list[str]:
    """the property statement evaluated on what the implementation did; returns the clauses it contradicts"""
    bad = []
    if obs["ctx"] != "none":
        bad.append("task-still-inside-transaction")
    if obs["probe"] != "ok":
        bad.append("write-after-block-lost")
    failed_unlocks = {tuple(obs["unlocks_ev"][i]) for i in obs["failed"] if i in obs["unlocks_ev"]}
    for l in obs["locks"]:
        b, lk, owner, dl = l.split(".")
        if owner != "m":
            continue
        if (int(b), int(lk)) not in failed_unlocks:
            bad.append("lock-left-although-its-unlock-did-not-fail")
        elif dl == "?":
            bad.append("left-lock-does-not-lapse-at-the-timeout")
    if not obs["base_defined"]:
        pass            # an explicit tx.commit() of the body failed half-way: what it applied is judged against the model only
    elif obs["body_raised"] and obs["after"] != obs["untouched"]:
        # (with explicit tx.commit() calls in the body: nothing written SINCE THE LAST OF THEM - theorem
        # failure_applies_nothing_since_last_commit)
        bad.append("failed-body-changed-the-store")
    elif obs["body_raised"] and obs["after_entries"] != obs["untouched_entries"]:
        # same keys, same values - but an entry does not lapse when it did before the block (theorem
        # failed_body_keeps_values_and_deadlines: the WHOLE entry is what it was)
        bad.append("failed-body-changed-a-ttl-in-the-store")
    if obs["body_raised"] and obs["writes_sent"]:
        # theorem failed_body_sends_no_write: a block whose body failed sends reads, set_lock and unlock only (here: a write
        # command that was not made to fail, i.e. one that took effect on the store before the body failed)
        bad.append("failed-body-sent-a-write-command-to-a-backend")
    return bad
