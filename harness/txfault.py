"""C16 helper: a fault-injecting in-memory backend and the runner of one (program, fault set) case.

`FaultyMemory` is registered with cashews' public `register_backend` under the alias `c16fault`, so the
backends are created by `Cache.setup("c16fault://...")` like any other (facade glue, serializer, middlewares
included).  Every *outermost* command that reaches a FaultyMemory while the recorder is on gets the next global
index, is logged, and raises the chosen exception INSTEAD of running iff its index is in the fault set.

A program (JSON-able dict):
    mode      "fast" | "locked" | "serializable"
    timeout   transaction timeout in ticks (1 tick = 1/8 s)
    nb        1 | 2 backends (prefix "" and "b:")
    form      "ctx" (async with cache.transaction(...)) | "decor" (@cache.transaction(...) on a coroutine function)
    exc       "interaction" (CacheBackendInteractionError) | "runtime" (RuntimeError) - the injected class
    data      [[b, k, v, ttl|None], ...]      initial store content
    flocks    [[b, lk], ...]                  lock keys held for ever by a foreign owner before the block
    body      ["set.b.k.v.ttl", "incr.b.k", "get.b.k", "del.b.k", "adv.dt", "raise"]
"""
from __future__ import annotations

import contextvars
import inspect

from . import vtime
from .vtime import BASE, CLOCK, TICK

from cashews import Cache, LockedError  # noqa: E402
from cashews.backends.memory import Memory  # noqa: E402
from cashews.exceptions import CacheBackendInteractionError  # noqa: E402
from cashews.wrapper.backend_settings import register_backend  # noqa: E402
from cashews.wrapper.transaction import TransactionMode, _transaction  # noqa: E402

NKEYS = 4
PROBE = (0, 9, 1)
FOREIGN = "foreign-owner"
MODES = {"fast": TransactionMode.FAST, "locked": TransactionMode.LOCKED, "serializable": TransactionMode.SERIALIZABLE}
COMMANDS = [
    "set", "set_many", "get", "get_many", "exists", "incr", "delete", "delete_many", "delete_match", "expire",
    "get_expire", "set_lock", "unlock", "is_locked", "clear", "set_raw", "get_raw", "get_bits", "incr_bits",
    "slice_incr", "set_add", "set_remove", "set_pop", "get_keys_count", "get_size", "ping",
]


class InjectedInteraction(CacheBackendInteractionError):
    def __init__(self, idx):
        super().__init__(f"injected fault at backend command {idx}")
        self.idx = idx


class InjectedRuntime(RuntimeError):
    def __init__(self, idx):
        super().__init__(f"injected fault at backend command {idx}")
        self.idx = idx


class BodyError(Exception):
    pass


class Recorder:
    def __init__(self):
        self.on = False
        self.n = 0
        self.trace = []
        self.faults = frozenset()
        self.exc_cls = InjectedInteraction

    def start(self, faults, exc_cls):
        self.on = True
        self.n = 0
        self.trace = []
        self.faults = frozenset(faults)
        self.exc_cls = exc_cls


REC = Recorder()
_DEPTH: contextvars.ContextVar[int] = contextvars.ContextVar("c16_depth", default=0)


def _make(orig, name):
    async def cmd(self, *args, **kwargs):
        if _DEPTH.get() or not REC.on:
            return await orig(self, *args, **kwargs)
        idx = REC.n
        REC.n += 1
        bad = idx in REC.faults
        REC.trace.append((idx, self.tag, name, args, kwargs, bad, CLOCK.ticks()))
        if bad:
            raise REC.exc_cls(idx)
        tok = _DEPTH.set(1)
        try:
            return await orig(self, *args, **kwargs)
        finally:
            _DEPTH.reset(tok)
    return cmd


FaultyMemory = type(
    "FaultyMemory", (Memory,),
    {name: _make(getattr(Memory, name), name) for name in COMMANDS if inspect.iscoroutinefunction(getattr(Memory, name, None))},
)
FaultyMemory.tag = -1
register_backend("c16fault", FaultyMemory)

PREFIX = ["", "b:"]


def kname(b, k):
    return f"{PREFIX[b]}k{k}"


def lockname(mode, b, lk):
    return ":serializable:lock" if lk == 0 and mode == "serializable" else f":tx_lock:{kname(b, lk - 1)}"


def _kidx(b, name):
    p = PREFIX[b]
    if isinstance(name, str) and name.startswith(p + "k") and name[len(p) + 1:].isdigit():
        return int(name[len(p) + 1:])
    return None


def _lkidx(b, name):
    if name == ":serializable:lock":
        return 0
    if isinstance(name, str) and name.startswith(":tx_lock:"):
        k = _kidx(b, name[len(":tx_lock:"):])
        return None if k is None else k + 1
    return None


def _ticks(seconds):
    if seconds is None:
        return "-"
    t = seconds * 8
    return str(int(t)) if t == int(t) else "?%r" % (seconds,)


def show_event(ev) -> str:
    """canonical text of a logged command, the same format as the model driver's `showEv`"""
    idx, b, name, args, kwargs, bad, _ = ev
    bang = "!" if bad else ""
    try:
        if name == "get":
            s = f"get.{_kidx(b, args[0] if args else kwargs['key'])}"
        elif name == "set":
            a = dict(zip(("key", "value", "expire", "exist"), args), **kwargs)
            s = f"set.{_kidx(b, a['key'])}.{a['value']}" + ("" if a.get("expire") is None and a.get("exist") is None else ".?")
        elif name == "set_lock":
            a = dict(zip(("key", "value", "expire"), args), **kwargs)
            s = f"setlock.{_lkidx(b, a['key'])}.{_ticks(a['expire'])}"
        elif name == "unlock":
            s = f"unlock.{_lkidx(b, args[0] if args else kwargs['key'])}"
        elif name == "delete_many":
            s = "delmany." + "+".join(sorted(str(_kidx(b, k)) for k in args))
        elif name == "set_many":
            a = dict(zip(("pairs", "expire"), args), **kwargs)
            s = f"setmany.{_ticks(a.get('expire'))}." + "+".join(sorted(f"{_kidx(b, k)}:{v}" for k, v in a["pairs"].items()))
        else:
            s = f"?{name}"
    except Exception as exc:  # an argument shape this harness does not know: show it, the comparison will flag it
        s = f"?{name}({type(exc).__name__})"
    return f"{b}.{s}{bang}"


def attempts_for(timeout_s: float) -> int:
    """number of iterations of the wait loop in `_lock_updates` for this timeout (the loop's own arithmetic)"""
    wait, n = timeout_s, 0
    while wait > 0.0:
        wait -= 0.1
        wait = round(wait, 1)
        n += 1
    return n


def lock_universe(prog):
    mode = prog["mode"]
    out = []
    for b in range(prog["nb"]):
        if mode == "serializable":
            out.append((b, 0))
        out.extend((b, k + 1) for k in range(NKEYS))
    return out


async def _run(prog, faults):
    mode = prog["mode"]
    nb = prog["nb"]
    timeout_s = prog["timeout"] * TICK
    cache = Cache()
    backs = []
    for b in range(nb):
        be = cache.setup("c16fault://?check_interval=0", prefix=PREFIX[b])
        be.tag = b
        backs.append(be)
    await cache.init()
    REC.on = False
    for b, k, v, ttl in prog["data"]:
        await backs[b].set(kname(b, k), v, expire=None if ttl is None else ttl * TICK)
    for b, lk in prog["flocks"]:
        await backs[b].set(lockname(mode, b, lk), FOREIGN)
    universe = [(b, k) for b in range(nb) for k in range(NKEYS)] + [PROBE[:2]]

    async def snapshot():
        return {f"{b}.{k}": await backs[b].get(kname(b, k)) for b, k in universe}

    before = await snapshot()
    outs = []
    state = {"body_end": None, "body_raised": False}

    async def body():
        try:
            for c in prog["body"]:
                w = c.split(".")
                if w[0] == "set":
                    b, k, v = int(w[1]), int(w[2]), int(w[3])
                    r = await cache.set(kname(b, k), v, expire=None if w[4] == "-" else int(w[4]) * TICK)
                    outs.append("T" if r is True else "F" if r is False else f"?{r!r}")
                elif w[0] == "incr":
                    r = await cache.incr(kname(int(w[1]), int(w[2])))
                    outs.append(f"n{r}")
                elif w[0] == "get":
                    r = await cache.get(kname(int(w[1]), int(w[2])))
                    outs.append("-" if r is None else f"v{r}")
                elif w[0] == "del":
                    r = await cache.delete(kname(int(w[1]), int(w[2])))
                    outs.append("T" if r is True else "F" if r is False else f"?{r!r}")
                elif w[0] == "adv":
                    CLOCK.advance(int(w[1]))
                elif w[0] == "raise":
                    raise BodyError()
                else:
                    raise ValueError(f"unknown body command {c}")
        except BaseException:
            state["body_raised"] = True
            raise
        finally:
            state["body_end"] = REC.n

    exc_cls = InjectedRuntime if prog.get("exc") == "runtime" else InjectedInteraction
    REC.start(faults, exc_cls)
    exc = "none"
    try:
        if prog.get("form") == "decor":
            @cache.transaction(MODES[mode], timeout=timeout_s)
            async def decorated():
                await body()
            await decorated()
        else:
            async with cache.transaction(MODES[mode], timeout=timeout_s):
                await body()
    except (InjectedInteraction, InjectedRuntime) as e:
        exc = f"fault:{e.idx}"
    except LockedError:
        exc = "locked"
    except BodyError:
        exc = "body"
    except Exception as e:  # noqa: BLE001
        exc = f"other:{type(e).__name__}"
    REC.on = False
    trace = list(REC.trace)
    end_ticks = CLOCK.ticks() if abs((CLOCK.t - BASE) / TICK - CLOCK.ticks()) < 1e-9 else None
    ctx_none = _transaction.get() is None
    after = await snapshot()
    # what an untouched store shows at this instant: the initial content minus what has expired meanwhile
    untouched = {f"{b}.{k}": None for b, k in universe}
    for b, k, v, ttl in prog["data"]:
        untouched[f"{b}.{k}"] = v if ttl is None or CLOCK.t < BASE + ttl * TICK else None
    # remaining lock keys (raw presence, whatever their age): `get_raw` ignores deadlines
    remaining = []
    for b, lk in lock_universe(prog):
        raw = await backs[b].get_raw(lockname(mode, b, lk))
        if raw is not None:
            remaining.append((b, lk, "f" if raw == FOREIGN else "m"))
    # a write issued right after the block
    pb, pk, pv = PROBE
    try:
        await cache.set(kname(pb, pk), pv)
    except Exception:  # noqa: BLE001  (a task still inside a dead transaction may fail here: the write is lost all the same)
        pass
    probe_ok = (await backs[pb].get(kname(pb, pk))) == pv
    final = await snapshot()
    # lease of what remains: live until (acquisition + timeout), gone at that instant
    acq = {}
    for idx, b, name, args, kwargs, bad, t in trace:
        if name == "set_lock" and not bad:
            acq[(b, _lkidx(b, args[0]))] = t
    locks = []
    for b, lk, owner in remaining:
        if owner == "f":
            locks.append(f"{b}.{lk}.f.-")
            continue
        dl = "?"
        if (b, lk) in acq:
            d = acq[(b, lk)] + prog["timeout"]
            ok = True
            t_before = BASE + (d - 1) * TICK
            if CLOCK.t <= t_before:
                CLOCK.t = t_before
                ok = await backs[b].exists(lockname(mode, b, lk))
            CLOCK.t = max(CLOCK.t, BASE + d * TICK)
            gone = not await backs[b].exists(lockname(mode, b, lk))
            if ok and gone:
                dl = str(d)
        locks.append(f"{b}.{lk}.m.{dl}")
    await cache.close()
    return {
        "exc": exc,
        "ctx": "none" if ctx_none else "some",
        "trace": [show_event(e) for e in trace],
        "outs": outs,
        "locks": sorted(locks),
        "data": sorted(f"{k}={v}" for k, v in final.items() if v is not None),
        "probe": "ok" if probe_ok else "lost",
        "now": end_ticks,
        # for the property oracle
        "before": before,
        "untouched": untouched,
        "after": after,
        "body_end": state["body_end"],
        "body_raised": state["body_raised"],
        "uprio": [(b, _lkidx(b, args[0])) for _, b, name, args, _, _, _ in trace if name == "unlock"],
        "unlocks_ev": {i: (b, _lkidx(b, args[0])) for i, b, name, args, _, _, _ in trace if name == "unlock"},
        "failed": [i for i, *_r in trace if _r[4]],
    }


def execute(prog, faults):
    return vtime.run(_run, prog, tuple(faults))


def model_line(prog, faults, uprio) -> str:
    def dash(xs, sep=","):
        xs = list(xs)
        return sep.join(xs) if xs else "-"
    return " ".join([
        "run",
        f"mode={prog['mode']}",
        f"timeout={prog['timeout']}",
        f"attempts={attempts_for(prog['timeout'] * TICK)}",
        "uprio=" + dash(f"{b}.{lk}" for b, lk in uprio),
        "faults=" + dash(str(i) for i in sorted(faults)),
        "data=" + dash(f"{b}.{k}.{v}.{'-' if ttl is None else ttl}" for b, k, v, ttl in prog["data"]),
        "flocks=" + dash(f"{b}.{lk}" for b, lk in prog["flocks"]),
        "body=" + dash(prog["body"], ";"),
        "probe=%d.%d.%d" % PROBE,
    ])


def parse_answer(ans: str) -> dict | None:
    if not ans.startswith("exc="):
        return None
    d = dict(p.split("=", 1) for p in ans.split(" "))
    def lst(s, sep):
        return [] if s == "~" else s.split(sep)
    return {
        "exc": d["exc"], "ctx": d["ctx"], "trace": lst(d["trace"], ";"), "outs": lst(d["outs"], ","),
        "locks": lst(d["locks"], ","), "data": lst(d["data"], ","), "probe": d["probe"], "now": int(d["now"]),
    }


def oracle(prog, obs) -> list[str]:
    """the property statement evaluated on what the implementation did; returns the clauses it contradicts"""
    bad = []
    if obs["ctx"] != "none":
        bad.append("task-still-inside-transaction")
    if obs["probe"] != "ok":
        bad.append("write-after-block-lost")
    failed_unlocks = {tuple(obs["unlocks_ev"][i]) for i in obs["failed"] if i in obs["unlocks_ev"]}
    for l in obs["locks"]:
        b, lk, owner, dl = l.split(".")
        if owner != "m":
            continue
        if (int(b), int(lk)) not in failed_unlocks:
            bad.append("lock-left-although-its-unlock-did-not-fail")
        elif dl == "?":
            bad.append("left-lock-does-not-lapse-at-the-timeout")
    if obs["body_raised"] and obs["after"] != obs["untouched"]:
        bad.append("failed-body-changed-the-store")
    return bad
