"""C19: a caller WAITING for a held lock when the server goes down.

Two tasks on the virtual loop share one Cache on the real Redis backend (stub redis, Lean server): a HOLDER that takes the
lock and stays inside its body, and a WAITER that enters the wait loop of

    lock        async with cache.lock(key, expire, wait=…, check_interval=…)
    locked      @cache.locked(key=…, ttl=…, wait=…, check_interval=…)
    cache_lock  @cache(ttl=…, key=…, lock=True, protected=False)
    tx          async with cache.transaction(TransactionMode.LOCKED, timeout=…): await cache.set(k, …)   (`_lock_updates`)

The outage begins at the `offset`-th client call of the WAITER (the holder is parked, so every call after the holder's
acquisition is the waiter's: offset 0 = its first SET NX, 1 = its first PING, 2 = its second SET NX, …) and lasts `length`
calls (None = for good).

Oracle (the property's clauses, evaluated on the real code only): the waiter RETURNS within a bound of virtual time, with its
body's own result (it ran unprotected or acquired the lock) or the documented error (LockedError for wait=False / the
transaction's timeout; CacheBackendInteractionError only with suppression off), and it makes a BOUNDED number of SET NX attempts
on the lock key while the server is down (lock variants: the model says one, RETRY_BOUND or more is a spin; the transaction's
loop: at most its `timeout / 0.1` rounds).
Correspondence: the waiter's wire trace and outcome == `lockRun` / `txLockRun` of lean/CashewsVerif/Model/RedisLock.lean
(driver requests `envcall`, `lockwait`, `txlockwait`) whenever the model's waiter leaves the loop without time passing.
"""
from __future__ import annotations

import asyncio

from . import redisstub as rs
from . import vtime
from .core import HarnessError

BIG = 10 ** 9
LEASE = 1.0            # seconds: lease of the lock / timeout of the transaction
WAITER_BUDGET = 8.0    # virtual seconds a waiter gets to come back (lease and transaction timeout are 1 s)
VARIANTS = ["lock", "locked", "cache_lock", "tx"]
LOCK_KEY = "L:w"
RETRY_BOUND = 8        # SET NX attempts on the lock key while the server is down that still count as "bounded" (the model says 1)


def tx_rounds(timeout: float) -> int:
    """the number of attempts `_lock_updates` makes:  while wait > 0.0: wait -= step; wait = round(wait, 1); …"""
    wait, n = timeout, 0
    while wait > 0.0:
        wait = round(wait - 0.1, 1)
        n += 1
    return n


def _toks(entry: str) -> list[str]:
    if entry.startswith("M:"):
        raise HarnessError(f"pipeline in a lock scenario: {entry}")
    return entry.split(",")


def _txt(h: str) -> str:
    try:
        return bytes.fromhex(h).decode("ascii")
    except (ValueError, UnicodeDecodeError):
        return "?" + h


def kind_of(entry: str) -> tuple:
    """('SETNX', key, token_hex, ms) | ('PING',) | (COMMAND, key?)"""
    t = _toks(entry)
    name = _txt(t[0]).upper()
    if name == "SET" and len(t) >= 6 and _txt(t[-1]).upper() == "NX" and _txt(t[3]).upper() == "PX":
        return ("SETNX", _txt(t[1]), t[2], int(_txt(t[4])))
    if name == "PING":
        return ("PING",)
    return (name, _txt(t[1]) if len(t) > 1 else "")


def run_lockwait(drv, case: dict) -> dict:
    variant, sup = case["variant"], bool(case["suppress"])
    wait, ci = bool(case.get("wait", True)), case.get("ci", 0)
    off, length = case["outage"]

    async def go():
        from cashews import Cache, TransactionMode
        from cashews.exceptions import CacheBackendInteractionError, LockedError

        if drv.ask(f"reset {1 if sup else 0}") != "ok":
            raise HarnessError("driver refused reset")
        server = rs.LeanServer(drv)
        outage = [None]
        server.down = lambda n: outage[0] is not None and outage[0][0] <= n < outage[0][1]
        server.spin_limit = 64
        server.max_calls = 100000
        rs.unregister()
        rs.register(server, "redis://verif:6379")
        cache = Cache()
        cache.setup("redis://verif:6379", suppress=sup)
        await cache.init()
        server.take_trace()
        holder_in, release = asyncio.Event(), asyncio.Event()
        bodies: list[str] = []

        async def body(who):
            bodies.append(who)
            if who == "H":
                holder_in.set()
                await release.wait()
            return "val-" + who

        if variant == "lock":
            async def call(who):
                async with cache.lock(LOCK_KEY, expire=LEASE, wait=wait, check_interval=ci / 8):
                    return await body(who)
        elif variant == "locked":
            deco = cache.locked(key=LOCK_KEY, ttl=LEASE, wait=wait, check_interval=ci / 8)(body)

            async def call(who):
                return await deco(who)
        elif variant == "cache_lock":
            deco = cache(ttl=LEASE, key="c:w", lock=True, protected=False)(body)

            async def call(who):
                return await deco(who)
        elif variant == "tx":
            async def call(who):
                async with cache.transaction(TransactionMode.LOCKED, timeout=LEASE):
                    await cache.set("k:w", who)
                    return await body(who)
        else:
            raise HarnessError(f"unknown variant {variant}")

        async def finished(task, budget):
            done, _ = await asyncio.wait({task}, timeout=budget)
            return bool(done)

        def outcome(task):
            exc = task.exception()
            if exc is None:
                return "ret:" + str(task.result())
            if isinstance(exc, LockedError):
                return "LockedError"
            if isinstance(exc, CacheBackendInteractionError):
                return "CacheBackendInteractionError"
            if isinstance(exc, rs.LivelockGuard):
                return "never-returned"
            return f"other:{type(exc).__name__}: {exc}"

        h = asyncio.ensure_future(call("H"))
        for _ in range(400):
            if holder_in.is_set() or h.done():
                break
            await asyncio.sleep(0)
        if not holder_in.is_set():
            raise HarnessError(f"the holder never got into its body ({variant}): {outcome(h) if h.done() else 'pending'}")
        h_trace = server.take_trace()
        c0 = server.calls
        for e in h_trace:
            if not drv.ask("envcall " + " ".join(_toks(e))).startswith("ok"):
                raise HarnessError(f"driver refused envcall {e}")
        a = c0 + off
        b = BIG if length is None else a + length
        outage[0] = (a, b)
        if drv.ask(f"down {a}-{b}") != "ok":
            raise HarnessError("driver refused down")
        t0 = vtime.CLOCK.t
        w = asyncio.ensure_future(call("W"))
        back = await finished(w, WAITER_BUDGET)
        w_trace = server.take_trace()
        rec = {"holder_wire": h_trace, "waiter_wire": w_trace, "first_waiter_call": c0, "outage_calls": [a, None if length is None else b],
               "waiter": outcome(w) if back else "never-returned", "waiter_virtual_seconds": vtime.CLOCK.t - t0,
               "waiter_body_runs": bodies.count("W")}
        if not back:
            w.cancel()
            await asyncio.gather(w, return_exceptions=True)
            server.take_trace()
        release.set()
        rec["holder"] = outcome(h) if await finished(h, WAITER_BUDGET) else "never-returned"
        server.take_trace()
        # the model's waiter (nobody else acting, no time passing)
        setnx = [kind_of(e) for e in w_trace if kind_of(e)[0] == "SETNX"]
        hk = [kind_of(e) for e in h_trace if kind_of(e)[0] == "SETNX"]
        lock_key = (setnx or hk or [("SETNX", None, None, None)])[0][1]
        rec["lock_key"] = lock_key
        down_idx = [i for i in range(len(w_trace)) if a <= c0 + i < b]
        rec["waiter_setnx_while_down"] = sum(1 for i in down_idx if kind_of(w_trace[i])[:2] == ("SETNX", lock_key))
        rec["waiter_calls_while_down"] = len(down_idx)
        if setnx:
            _, key, tokhex, ms = setnx[0]
            if variant == "tx":
                ans = drv.ask(f"txlockwait {key.encode().hex()} x:{tokhex} {ms} {tx_rounds(LEASE)}")
            else:
                ans = drv.ask(f"lockwait {key.encode().hex()} x:{tokhex} {ms} {1 if wait else 0} 600")
            if not ans.startswith("out="):
                raise HarnessError(f"driver answered {ans!r} to lockwait")
            parts = dict(p.split("=", 1) for p in ans.split(" "))
            rec["model"] = parts["out"]
            rec["model_wire"] = [x for x in parts["wire"].split("|") if x]
        else:
            rec["model"], rec["model_wire"] = None, []
        try:
            await cache.close()
        except Exception:  # noqa: BLE001
            pass
        return rec

    try:
        return vtime.run(go)
    finally:
        rs.unregister()


def judge_lockwait(case: dict, rec: dict) -> list[dict]:
    """-> problems: kind 'property' (the real code contradicts the property's clause) / 'correspondence' (differs from the model)"""
    sup, variant = bool(case["suppress"]), case["variant"]
    wait = bool(case.get("wait", True))
    out = []
    w = rec["waiter"]
    where = (f"{variant} waiter (suppress={'on' if sup else 'off'}, wait={wait}, check_interval={case.get('ci', 0)} ticks), lock held by a "
             f"concurrent caller, server down from the waiter's client call #{case['outage'][0]}"
             + (" for good" if case["outage"][1] is None else f" for {case['outage'][1]} calls"))
    # the model (theorem lock_wait_terminates_when_down) says: ONE more attempt; a deviation of a few attempts is reported as a broken
    # correspondence, a caller that keeps going for RETRY_BOUND attempts or more contradicts the property ("never a spin")
    bound = tx_rounds(LEASE) if variant == "tx" else RETRY_BOUND
    if w == "never-returned":
        out.append({"kind": "property", "sig": "lock-wait-spins",
                    "what": f"{where}: the waiter had not returned after {WAITER_BUDGET} s of virtual time - {rec['waiter_setnx_while_down']} SET NX "
                            f"attempts on {rec['lock_key']!r} while the server was down, {rec['waiter_calls_while_down']} calls in all, "
                            f"{sum(1 for e in rec['waiter_wire'] if kind_of(e)[0] == 'PING')} PING"})
    elif w.startswith("other:"):
        out.append({"kind": "property", "sig": None, "what": f"{where}: the waiter raised {w[6:]}"})
    elif w == "CacheBackendInteractionError" and sup:
        out.append({"kind": "property", "sig": None, "what": f"{where}: CacheBackendInteractionError escaped with suppression on"})
    elif w == "LockedError" and wait and variant != "tx":
        out.append({"kind": "property", "sig": None, "what": f"{where}: LockedError although wait=True"})
    elif w.startswith("ret:") and (w != "ret:val-W" or rec["waiter_body_runs"] != 1):
        out.append({"kind": "property", "sig": None,
                    "what": f"{where}: the waiter returned {w[4:]!r} (its body ran {rec['waiter_body_runs']}x): not its own result"})
    if w != "never-returned" and rec["waiter_setnx_while_down"] > bound:
        out.append({"kind": "property", "sig": "lock-wait-spins",
                    "what": f"{where}: the waiter kept retrying - {rec['waiter_setnx_while_down']} SET NX attempts on {rec['lock_key']!r} while the "
                            f"server was down (bound {bound}; the model's caller leaves the loop after 1), then {w}"})
    h = rec["holder"]
    if h == "never-returned" or h.startswith("other:") or (h == "CacheBackendInteractionError" and sup) or h == "LockedError":
        out.append({"kind": "property", "sig": None, "what": f"{where}: the HOLDER ended with {h}"})
    if not out and rec["model"] not in (None, "waiting"):
        m = rec["model"]
        want = {"acquired": "ret:val-W", "unprotected": "ret:val-W", "raise": "CacheBackendInteractionError", "lockedError": "LockedError"}.get(m)
        mw = rec["model_wire"]
        if variant == "cache_lock" and not sup and m in ("acquired", "unprotected") and w == "CacheBackendInteractionError" \
                and len(rec["waiter_wire"]) > len(mw) and rec["waiter_wire"][:len(mw)] == mw:
            pass        # out of the lock loop as the model says; with suppression off the cache's own GET / SET then raised
        elif want != w:
            out.append({"kind": "correspondence", "sig": None, "what": f"{where}: waiter ended with {w}, the model's with {m}"})
        elif rec["waiter_wire"][:len(mw)] != mw:
            out.append({"kind": "correspondence", "sig": None,
                        "what": f"{where}: the waiter's calls {rec['waiter_wire'][:len(mw) + 1]} differ from the model's loop {mw}"})
        elif len(rec["waiter_wire"]) > len(mw) and kind_of(rec["waiter_wire"][len(mw)])[:2] in (("SETNX", rec["lock_key"]), ("PING",)):
            out.append({"kind": "correspondence", "sig": None,
                        "what": f"{where}: the waiter went on in the loop after the model's left it ({len(mw)} calls)"})
    return out


def lock_cases(thorough: bool) -> list[dict]:
    """the grid: variant x suppress x outage start at every call position of the waiter's loop x outage length"""
    cases = []
    offsets = range(0, 13) if thorough else range(0, 8)
    for variant in VARIANTS:
        for sup in (True, False):
            for off in offsets:
                for length in ((None, 40, 1, 2) if thorough else (None, 40) if off else (None, 1)):
                    cases.append({"variant": variant, "suppress": sup, "wait": True, "ci": 0, "outage": [off, length]})
            for off in ((0, 1, 2, 3, 4, 5, 6) if thorough else (2, 3, 5)):
                if variant != "tx":
                    cases.append({"variant": variant, "suppress": sup, "wait": True, "ci": 1, "outage": [off, None]})
            if variant in ("lock", "locked"):
                for off in (0, 1, 2):
                    cases.append({"variant": variant, "suppress": sup, "wait": False, "ci": 0, "outage": [off, None]})
    return cases


# ------------------------------------------------------------------------------------------------ the body of a lock block raises

class BodyError(Exception):
    """what the protected block of the harness raises itself"""


def body_error_cases() -> list[dict]:
    """how the caller got into the block x what the block raises.  `how`: acquired (key free) / ping_disabled (key held, the
    PING command disabled: the probe answers None, the block runs unprotected) / down (key held, server unreachable, suppress on:
    SET NX answers False, the probe raises, the block runs unprotected)"""
    return [{"how": how, "raises": exc, "wait": wait}
            for how in ("acquired", "ping_disabled", "down") for exc in ("interaction", "own") for wait in (False, True)]


def run_body_error(drv, case: dict) -> dict:
    async def go():
        from cashews import Cache, Command
        from cashews.exceptions import CacheBackendInteractionError

        if drv.ask("reset 1") != "ok":
            raise HarnessError("driver refused reset")
        server = rs.LeanServer(drv)
        down = [False]
        server.down = lambda n: down[0]
        server.max_calls = 2000
        rs.unregister()
        rs.register(server, "redis://verif:6379")
        cache = Cache()
        cache.setup("redis://verif:6379", suppress=True)
        await cache.init()
        if case["how"] != "acquired":
            if not await cache.set_lock(LOCK_KEY, "somebody-else", 10):
                raise HarnessError("could not pre-take the lock")
        raised = CacheBackendInteractionError("from the block") if case["raises"] == "interaction" else BodyError("from the block")
        entered = []

        async def block():
            async with cache.lock(LOCK_KEY, 10, wait=case["wait"], check_interval=0):
                entered.append(True)
                raise raised

        async def attempt():
            try:
                if case["how"] == "ping_disabled":
                    with cache.disabling(Command.PING):
                        await block()
                else:
                    down[0] = case["how"] == "down"
                    await block()
                return "returned"
            except BaseException as e:  # noqa: BLE001
                return "same" if e is raised else f"{type(e).__name__}: {e}"

        done, _ = await asyncio.wait({asyncio.ensure_future(attempt())}, timeout=WAITER_BUDGET)
        out = done.pop().result() if done else "never-returned"
        down[0] = False
        return {"entered": len(entered), "outcome": out}

    try:
        return vtime.run(go)
    finally:
        rs.unregister()


def judge_body_error(case: dict, rec: dict) -> dict | None:
    if rec["entered"] == 1 and rec["outcome"] == "same":
        return None
    what = (f"async with cache.lock(...) entered {case['how']} (wait={case['wait']}), the block raises "
            f"{'CacheBackendInteractionError' if case['raises'] == 'interaction' else 'its own exception'}: ")
    if rec["entered"] != 1:
        return {"kind": "property", "sig": None, "what": what + f"the block ran {rec['entered']}x, outcome {rec['outcome']}"}
    return {"kind": "property", "sig": "D65:lock-body-error-becomes-runtimeerror" if rec["outcome"].startswith("RuntimeError") else None,
            "what": what + f"out came {rec['outcome']} instead of the exception the block raised"}
