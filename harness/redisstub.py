"""C19/C20 plumbing: the stub `redis` package on sys.path, a persistent line-protocol driver, and the server object
behind the stub - which is the Lean model `CashewsVerif.Redis.Srv` (lean/Drivers/C19.lean answers every wire-level
command array; nothing about Redis' semantics is decided in Python).

Import this module BEFORE anything imports `cashews` (cashews registers the redis backend only if `import redis` works).
"""
from __future__ import annotations

import hashlib
import os
import subprocess
import sys
from pathlib import Path

from . import vtime
from .core import LEAN, HarnessError

STUBS = str(Path(__file__).resolve().parent / "stubs")
if STUBS not in sys.path:
    sys.path.insert(0, STUBS)
if "cashews" in sys.modules and "cashews.backends.redis" not in sys.modules:  # pragma: no cover
    # cashews was imported before the stub became importable: the redis backend is not registered
    raise HarnessError("harness/redisstub.py must be imported before cashews")

import redis  # noqa: E402  (the stub)
from redis.asyncio import connection as stub_connection  # noqa: E402

if not getattr(redis, "__version__", "").endswith("verif.stub"):  # pragma: no cover
    raise HarnessError("a real `redis` package shadows the harness stub; C19/C20 are defined relative to the stub")


class PersistentDriver:
    """a compiled Lean driver kept alive: one request line -> one answer line"""

    def __init__(self, name: str, src: str):
        exe = LEAN / ".lake" / "build" / "bin" / name
        if exe.exists():
            cmd, cwd = [str(exe)], None
        else:
            cmd, cwd = ["lake", "env", "lean", "--run", src], LEAN
        self.p = subprocess.Popen(cmd, cwd=cwd, stdin=subprocess.PIPE, stdout=subprocess.PIPE, text=True, bufsize=1)
        self.requests = 0

    def ask(self, line: str) -> str:
        try:
            self.p.stdin.write(line + "\n")
            self.p.stdin.flush()
            ans = self.p.stdout.readline()
        except (BrokenPipeError, OSError) as exc:
            raise HarnessError(f"model driver died: {exc}") from exc
        if not ans:
            raise HarnessError(f"model driver closed its output after request {line[:120]!r}")
        self.requests += 1
        return ans.rstrip("\n")

    def close(self):
        try:
            self.p.stdin.close()
            self.p.wait(timeout=5)
        except Exception:
            self.p.kill()


def hx(b: bytes | str) -> str:
    return (b.encode() if isinstance(b, str) else b).hex()


def tok(a) -> str:
    """one argument as redis-py's encoder would put it on the wire, in hex ('~' = Python None, which redis-py refuses)"""
    if a is None:
        return "~"
    if isinstance(a, bytes):
        return a.hex()
    if isinstance(a, bool):
        raise HarnessError("bool argument reached the redis client")  # redis-py raises DataError; never sent by cashews
    if isinstance(a, int):
        return str(a).encode().hex()
    if isinstance(a, float):
        return repr(a).encode().hex()
    if isinstance(a, str):
        return a.encode().hex()
    raise HarnessError(f"unexpected argument type on the wire: {type(a).__name__}")


def wire_tokens(args) -> list[str]:
    """the command array as hex tokens; `SCRIPT LOAD <text>` carries the SHA1 of the text (what the server computes)"""
    name = args[0]
    if name == "SCRIPT LOAD":
        text = args[1]
        sha = hashlib.sha1(text.encode() if isinstance(text, str) else text).hexdigest()
        return [hx("SCRIPT"), hx("LOAD"), hx(sha)]
    head = [hx(w) for w in str(name).split(" ")]
    return head + [tok(a) for a in args[1:]]


def parse_reply(s: str):
    """N | SOK | SPONG | I<int> | B<hex> | L<item>,… | C<cursor>:<hexkey>,… | E"""
    if s == "N":
        return None
    if s == "E":
        return redis.ResponseError("error reply from the model server")
    k, rest = s[0], s[1:]
    if k == "S":
        return rest.encode()
    if k == "I":
        return int(rest)
    if k == "B":
        return bytes.fromhex(rest)
    if k == "L":
        return [parse_reply(x) for x in rest.split(",")] if rest else []
    if k == "C":
        cur, keys = rest.split(":", 1)
        return [str(cur).encode(), [bytes.fromhex(x) for x in keys.split(",")] if keys else []]
    raise HarnessError(f"unparsable reply from the model server: {s!r}")


class LivelockGuard(BaseException):
    """raised by the server object when the code under test keeps calling it without ever returning"""


class LeanServer:
    """The server behind the stub.  Every command is answered by the Lean model; this class only counts client
    calls, records the wire trace, switches the connection off/on (`down`), and keeps the server's clock equal to
    the harness' virtual clock."""

    def __init__(self, drv: PersistentDriver):
        self.drv = drv
        self.calls = 0
        self.down = lambda n: False
        self.trace: list[str] = []
        self.failed_calls = 0
        self.ok_calls = 0
        self.now_ms = 0
        self.max_calls = 0           # >0: refuse to go on after this many calls (a command that never returns)
        self.fault_exc = redis.ConnectionError      # what an unreachable server looks like to the client: a RedisError, or OSError /
                                                    # asyncio.TimeoutError from the socket layer (client.py catches all of them)
        self.spin_limit = 0          # >0: let one tick pass every `spin_limit` calls made at the same virtual instant (busy-wait loops)
        self._spin = 0
        self._spin_t = None

    # -- time -------------------------------------------------------------------
    def sync_time(self):
        if self.spin_limit:
            if self._spin_t == vtime.CLOCK.t:
                self._spin += 1
                if self._spin >= self.spin_limit:
                    vtime.CLOCK.advance(1)
                    self._spin = 0
            else:
                self._spin = 0
            self._spin_t = vtime.CLOCK.t
        ms = round((vtime.CLOCK.t - vtime.BASE) * 1000)
        if ms > self.now_ms:
            if self.drv.ask(f"srvadv {ms - self.now_ms}") != "ok":
                raise HarnessError("srvadv refused")
            self.now_ms = ms

    # -- one command --------------------------------------------------------------
    def _ask(self, toks: list[str]):
        ans = self.drv.ask("srv " + " ".join(toks))
        if ans in ("bad-op", "unmodelled"):
            raise HarnessError(f"the model server cannot answer {ans}: {' '.join(toks)}")
        return parse_reply(ans)

    async def execute(self, client, args):
        toks = wire_tokens(args)
        if self.max_calls and self.calls >= self.max_calls:
            raise LivelockGuard(f"more than {self.max_calls} client calls without returning")
        n = self.calls
        self.calls += 1
        self.trace.append(",".join(toks))
        if self.down(n):
            self.failed_calls += 1
            self.sync_time()
            raise self.fault_exc("stub: connection refused")
        if "~" in toks:
            self.failed_calls += 1
            raise redis.DataError("Invalid input of type: 'NoneType'. Convert to a bytes, string, int or float first.")
        self.sync_time()
        r = self._ask(toks)
        if isinstance(r, Exception):
            raise r
        self.ok_calls += 1
        return r

    async def execute_multi(self, client, cmds, transaction=True):
        toks = [wire_tokens(a) for a in cmds]
        n = self.calls
        self.calls += 1
        self.trace.append("M:" + ";".join(",".join(t) for t in toks))
        if self.down(n):
            self.failed_calls += 1
            raise self.fault_exc("stub: connection refused")
        self.sync_time()
        self.ok_calls += 1
        return [self._ask(t) for t in toks]

    def take_trace(self) -> list[str]:
        t, self.trace = self.trace, []
        return t


def script_shas(repo: Path) -> dict[str, str]:
    """SHA1 of the three Lua scripts exactly as backend.py sends them (`text.replace("\\n", " ")`), read from the source"""
    import ast

    src = (repo / "cashews" / "backends" / "redis" / "backend.py").read_text()
    want = {"_UNLOCK": "unlock", "_INCR_EXPIRE": "incr_expire", "_INCR_SLICE": "incr_slice"}
    out = {}
    for node in ast.parse(src).body:
        if isinstance(node, ast.Assign) and isinstance(node.targets[0], ast.Name) and node.targets[0].id in want:
            if isinstance(node.value, ast.Constant) and isinstance(node.value.value, str):
                out[want[node.targets[0].id]] = hashlib.sha1(node.value.value.replace("\n", " ").encode()).hexdigest()
    return out


def register(server, url=None):
    stub_connection.register_server(url, server)


def unregister():
    stub_connection.unregister_servers()


REPO = Path(os.environ.get("VERIF_REPO", "/repo"))


# ------------------------------------------------------------------------------------------------ C20: several clients, tracking

class PubSubConn:
    """the dedicated connection a client's listener reads announcements from.  `read` blocks (no timer, no spinning) until the
    harness wakes it; a broken connection raises ConnectionError from `read`."""

    def __init__(self, port: "ClientPort"):
        import asyncio

        self.port = port
        self.replies: list = []
        self.wakeup = asyncio.Event()
        self.idle = False
        self.broken = False
        self.subscribed = False

    async def send(self, args):
        if self.broken:
            raise redis.ConnectionError("stub: invalidation connection lost")
        words = [a.decode() if isinstance(a, bytes) else str(a) for a in args]
        cmd = " ".join(words[:2]).upper()
        if cmd == "CLIENT ID":
            self.replies.append(1000 + self.port.idx)
        elif cmd == "CLIENT TRACKING":
            up = [w.upper() for w in words]
            if up[2:5] != ["ON", "REDIRECT", str(1000 + self.port.idx)] or "BCAST" not in up or "PREFIX" not in up:
                raise HarnessError(f"unexpected tracking request: {words}")
            self.port.prefix = words[up.index("PREFIX") + 1]
            if self.port.hub.drv.ask(f"track {self.port.idx}") != "ok":
                raise HarnessError("driver refused track")
            self.replies.append(b"OK")
        elif words[0].upper() == "SUBSCRIBE":
            self.subscribed = True
            self.replies.append([b"subscribe", words[1].encode(), 1])
        else:
            raise HarnessError(f"unexpected command on the invalidation connection: {words}")

    def _pop(self):
        if not self.subscribed:
            return None
        ans = self.port.hub.drv.ask(f"pop {self.port.idx}")
        if ans == "F":
            return [b"message", b"__redis__:invalidate", None]
        if ans.startswith("K"):
            return [b"message", b"__redis__:invalidate", [bytes.fromhex(x) for x in ans[1:].split(",") if x]]
        if ans != "none":
            raise HarnessError(f"driver answered {ans!r} to pop")
        return None

    async def read(self, block=True, timeout=0):
        if self.replies:
            return self.replies.pop(0)
        if self.broken:
            raise redis.ConnectionError("stub: invalidation connection lost")
        msg = self._pop()
        if msg is not None:
            return msg
        # nothing to read: park until the harness wakes this listener (stands for the 0.1 s poll timeout)
        self.idle = True
        self.wakeup.clear()
        await self.wakeup.wait()
        self.idle = False
        if self.broken:
            raise redis.ConnectionError("stub: invalidation connection lost")
        return self._pop()

    async def close(self):
        self.broken = True


class ClientPort:
    """what one client's connection pool talks to: the shared Lean server, with this client's identity"""

    def __init__(self, hub: "Hub", idx: int):
        import asyncio

        self.hub = hub
        self.idx = idx
        self.prefix = None
        self.conn: PubSubConn | None = None
        self.allow_connect = asyncio.Event()
        self.allow_connect.set()
        self.waiting_connect = False     # the listener is parked in a connect attempt (the harness decides its fate)
        self.refuse_next = 0             # >0: the next connect attempt that is let through is REFUSED (ConnectionError)
        self.attempts = 0                # connect attempts that got an answer (accepted or refused)
        self.refused = 0                 # …of which refused

    async def execute(self, client, args):
        return await self.hub.execute(self.idx, args)

    async def execute_multi(self, client, cmds, transaction=True):
        return [await self.hub.execute(self.idx, a, multi=True) for a in cmds]

    async def pubsub_connect(self, pubsub):
        """a connect attempt of the invalidation connection.  While `allow_connect` is cleared the attempt hangs (the harness
        decides when it is answered, so the reconnect schedule is explicit in the history); with `refuse_next` it is answered by
        a refusal, after which the next attempt hangs again."""
        self.waiting_connect = True
        try:
            await self.allow_connect.wait()
        finally:
            self.waiting_connect = False
        self.attempts += 1
        if self.refuse_next > 0:
            self.refuse_next -= 1
            self.refused += 1
            self.allow_connect.clear()
            raise redis.ConnectionError("stub: invalidation connection refused")
        self.conn = PubSubConn(self)
        return self.conn


class Hub:
    """one Lean server (lean/Drivers/C20.lean) shared by several clients"""

    def __init__(self, drv: PersistentDriver, n: int, prefix: str | None = None):
        self.drv = drv
        self.n = n
        self.now_ms = 0
        self.calls = 0
        if drv.ask(f"reset {n}" + ("" if prefix is None else " " + prefix.encode().hex())) != "ok":
            raise HarnessError("driver refused reset")
        self.ports = [ClientPort(self, i) for i in range(n)]

    def sync_time(self):
        ms = round((vtime.CLOCK.t - vtime.BASE) * 1000)
        if ms > self.now_ms:
            if self.drv.ask(f"srvadv {ms - self.now_ms}") != "ok":
                raise HarnessError("srvadv refused")
            self.now_ms = ms

    async def execute(self, idx, args, multi=False):
        toks = wire_tokens(args)
        self.calls += 1
        if "~" in toks:
            raise redis.DataError("Invalid input of type: 'NoneType'")
        self.sync_time()
        ans = self.drv.ask(f"srv {idx} " + " ".join(toks))
        if ans in ("bad-op", "unmodelled"):
            raise HarnessError(f"the model server cannot answer {ans}: {' '.join(toks)}")
        r = parse_reply(ans)
        if isinstance(r, Exception):
            if multi:
                return r
            raise r
        return r

    def qlens(self) -> list[int]:
        return [int(x) for x in self.drv.ask("qlen").split("=")[1].split(",")]
