"""Worker process of the C14 thorough tier: executes its share of the cases on the real code.

    python -m harness.c14worker <cases.json> <k> <n>

`cases.json` holds a list of chunks (each a list of [origin, case]); this worker handles the chunks with index
≡ k (mod n) in order and prints one JSON line `[index, [events of case 0, events of case 1, ...]]` per chunk.
(Own processes rather than multiprocessing.Pool: the pool's bookkeeping reads the clock that harness/vtime.py freezes.)
"""
from __future__ import annotations

import json
import sys

from . import vtime  # noqa: F401  (before cashews)
from . import decor14 as D


def main() -> int:
    path, k, n = sys.argv[1], int(sys.argv[2]), int(sys.argv[3])
    chunks = json.load(open(path))
    for i in range(k, len(chunks), n):
        evs = [D.execute(case["cfg"], case["ops"]) for _, case in chunks[i]]
        sys.stdout.write(json.dumps([i, evs]) + "\n")
        sys.stdout.flush()
    return 0


if __name__ == "__main__":
    sys.exit(main())
