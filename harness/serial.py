"""Shared machinery of the C09 / C10 checks (cashews/serialize.py, picklers.py through Cache.setup('mem://?...')).

* value generator over the types listed in C09 with adversarial leaves, canonical (deep, type-tagged) form;
* registered harness classes (custom encoder/decoder) whose names start with pickle opcodes;
* configurations = everything `get_serializer` can build for the in-memory backend;
* `Recorder`: an instrumented pickler installed with `Serializer.set_pickler` that records every `loads` / `dumps`;
* the line protocol of `lean/CashewsVerif/Driver/SerialDrv.lean` and an independent MAC oracle (stdlib hmac).
"""
from __future__ import annotations

import collections
import dataclasses
import datetime as _dt
import decimal
import hashlib
import hmac
import json
import typing
import urllib.parse

from . import vtime
from .core import HarnessError

# C09/C10 do not use virtual time; give `datetime.datetime` its real class back so that genuine datetime
# values (not the harness' clock-reading subclass) are what gets pickled.
_dt.datetime = vtime._RealDatetime

from cashews import Cache  # noqa: E402
from cashews.exceptions import UnSecureDataError  # noqa: E402
from cashews.serialize import DecodeError, Serializer, register_type  # noqa: E402

SENT = object()  # the caller's default: a fresh object nothing stored can be identical to

DIGESTS = ["md5", "sha1", "sha256", "sum"]
KEYED = ["md5", "sha1", "sha256"]


# ----------------------------------------------------------------------------------------------------
# value universe
# ----------------------------------------------------------------------------------------------------
@dataclasses.dataclass
class Rec:
    name: str
    items: list
    extra: typing.Any = None


@dataclasses.dataclass(frozen=True)
class Point:
    x: int
    y: float


Pair = collections.namedtuple("Pair", ["a", "b"])


class Triple(typing.NamedTuple):
    a: int
    b: str
    c: bytes


class Boxed:
    """instances of the registered harness classes: custom encoded as  b'+' + payload[::-1]"""

    def __init__(self, payload: bytes):
        self.payload = payload

    def __eq__(self, other):
        return type(other) is type(self) and other.payload == self.payload

    def __hash__(self):
        return hash((type(self).__name__, self.payload))

    def __repr__(self):
        # evaluates back to the instance in the namespace of the corpus / replay files (CLASS_EXPR below)
        return f"{CLASS_EXPR.get(type(self), type(self).__name__)}({self.payload!r})"


class ReprBroken:
    """an object that unpickles all right but whose repr() raises AttributeError - what `check_repr` (on by default) is there to
    notice (an instance of a class that lost attributes since it was pickled): the read then answers the default; with
    check_repr switched off the object comes back"""

    def __init__(self, payload):
        self.payload = payload

    def __eq__(self, other):
        return type(other) is ReprBroken and other.payload == self.payload

    def __hash__(self):
        return hash(("ReprBroken", self.payload))

    def __repr__(self):
        raise AttributeError("'ReprBroken' object has no attribute 'gone'")


# class names whose first letters are pickle opcodes that swallow what follows (I = INT line, F = FLOAT line,
# L = LONG line, S/V = string lines, U/T/X/B/C = length-prefixed strings, c = GLOBAL, N/K/J/M/G/./) = short ops) plus
# a non-ASCII identifier
BOX_NAMES = ["Item", "User", "Frame", "Long", "Str", "Vec", "Token", "Xml", "Blob", "Chunk", "cls", "Node",
             "Key", "Job", "Money", "Graph", "Quote", "Ωmega", "bytesX", "d", "e", "int8"]
BOX = {}
for _n in BOX_NAMES:
    BOX[_n] = type(_n, (Boxed,), {"__module__": __name__})
    globals()[_n.replace("Ω", "O")] = BOX[_n]
    globals()[_n] = BOX[_n]          # importable under its own name: instances can be pickled by reference when unregistered


# ---- custom classes whose __qualname__ differs from their __name__, classes sharing a __name__, subclasses -----------
# `register_type(klass, …)` and `_custom_encode(type(value))` must derive the registry key of a class with the same
# function (Model/Serial.lean: Klass.tag); module-level classes cannot tell `__name__` from `__qualname__`.
class Api:
    class Session(Boxed):                 # nested: __qualname__ == "Api.Session"
        pass

    class Inner:
        class Token(Boxed):               # nested twice; shares its __name__ with the module-level BOX["Token"]
            pass


class Admin:
    class Session(Boxed):                 # the same __name__ as Api.Session in another scope
        pass


def _make_local():
    class Sample(Boxed):                  # function-local: __qualname__ == "_make_local.<locals>.Sample"
        pass

    return Sample


def _make_local2():
    class Sample(Boxed):                  # the same __name__, local to another function
        pass

    return Sample


LocalSample = _make_local()
LocalSample2 = _make_local2()


class SubItem(BOX["Item"]):               # module-level subclass of a registered class: a class of its own (`type(value)`)
    pass


class Scope:
    class Item(BOX["Item"]):              # a subclass that keeps its parent's __name__ in another scope
        pass


# class id (as used in registration programs, corpus and replay files) -> class
CLASSES = dict(BOX)
CLASSES.update({"Api.Session": Api.Session, "Api.Inner.Token": Api.Inner.Token, "Admin.Session": Admin.Session,
                "LocalSample": LocalSample, "LocalSample2": LocalSample2, "SubItem": SubItem, "Scope.Item": Scope.Item})
CLASS_ID = {c: i for i, c in CLASSES.items()}
CLASS_EXPR = {c: i for i, c in CLASSES.items() if i not in BOX}
NS_CLASSES = {"Api": Api, "Admin": Admin, "Scope": Scope, "LocalSample": LocalSample, "LocalSample2": LocalSample2,
              "SubItem": SubItem}
# classes that cannot be pickled by reference (an unregistered instance is not a value the real picklers support)
UNPICKLABLE = {LocalSample, LocalSample2}
# registered for the ordinary round-trip cases, next to the BOX classes: each owns the slot of its __name__
SCOPED_REGISTERED = [Api.Session, LocalSample]


def klass_field(cls) -> str:
    """protocol form of a class: <namehex> or <namehex>.<qualnamehex> (Driver/SerialDrv.lean parseKlass?)"""
    n, q = cls.__name__.encode("utf8").hex(), cls.__qualname__.encode("utf8").hex()
    return n if n == q else f"{n}.{q}"


def slot(cls) -> bytes:
    """the harness' own statement of what the registry is keyed by (mirrors Klass.tag): the class's __name__"""
    return cls.__name__.encode("utf8")


# every call of a harness encoder / decoder: (direction, class the pair was registered for, codec variant)
CODEC_CALLS: list[tuple[str, type, int]] = []


# the three codecs of the harness classes (mirrored by boxCodec / plainCodec / tolerantCodec of Driver/SerialDrv.lean):
#   0 "box":      enc = b"+" + payload[::-1]      dec accepts b"+..." only
#   1 "plain":    enc = b"=" + payload            dec accepts b"=..." only   (rejects what codec 0 wrote: DecodeError)
#   2 "tolerant": enc = b"=" + payload            dec accepts both
def codec_enc(variant: int, payload: bytes) -> bytes:
    return b"+" + payload[::-1] if variant == 0 else b"=" + payload


def codec_dec(variant: int, data: bytes):
    """the payload, or None for DecodeError"""
    if data.startswith(b"+") and variant in (0, 2):
        return data[1:][::-1]
    if data.startswith(b"=") and variant in (1, 2):
        return data[1:]
    return None


def _mk_codec(cls, variant: int = 0):
    async def enc(value, *args, **kwargs):
        CODEC_CALLS.append(("enc", cls, variant))
        return codec_enc(variant, value.payload)

    async def dec(value: bytes, *args, **kwargs):
        CODEC_CALLS.append(("dec", cls, variant))
        p = codec_dec(variant, value)
        if p is None:
            raise DecodeError()
        return cls(p)

    return enc, dec


# the registrations made for the ordinary (non-program) cases, in order: the model's `reg=` field is built from THIS
# log (the classes that were handed to register_type), never from the keys of Serializer._type_mapping
REGISTERED: list[tuple[type, int | None]] = [(bytes, None)]


def register_boxes():
    global _REG
    for cls in list(BOX.values()) + SCOPED_REGISTERED:
        register_type(cls, *_mk_codec(cls))
        if (cls, 0) not in REGISTERED:
            REGISTERED.append((cls, 0))
    _REG = None


def registered_slots() -> dict:
    """slot (the class's __name__) -> (class, codec variant) of the latest registration in REGISTERED"""
    return {slot(c): (c, v) for c, v in REGISTERED}


def _mapping() -> dict:
    m = getattr(Serializer, "_type_mapping", None)
    if not isinstance(m, dict):
        raise HarnessError("cannot reach the class-level registry of custom types (Serializer._type_mapping)")
    return m


def registered_tags() -> list[bytes]:
    return sorted(_mapping())


# what `import cashews` registers by itself (the `bytes` pair): the starting point of every registration program
BASE_REG = dict(_mapping())


class RegistrySandbox:
    """run a block with the class-level registry reset to what `import cashews` left, recording every registration made
    through `register()` (in order: this log is the model's `reg=` field), and put the previous registry back afterwards.
    Only the harness' own isolation touches `_type_mapping` directly; registrations go through the public
    `cashews.serialize.register_type`."""

    def __enter__(self):
        m = _mapping()
        self._saved = dict(m)
        m.clear()
        m.update(BASE_REG)
        self.log: list[tuple[type, int | None]] = [(bytes, None)]
        return self

    def register(self, name: str, variant: int):
        cls = CLASSES[name]
        register_type(cls, *_mk_codec(cls, variant))
        self.log.append((cls, variant))

    def field(self) -> str:
        return ",".join(klass_field(c) + ("" if v is None else f"/{v}") for c, v in self.log) or "-"

    def current(self) -> dict:
        """slot (__name__) -> (class, codec variant) in force: dict-assignment semantics, classes with one __name__ share
        the slot (mirrors Registry.registerClass)"""
        return {slot(c): (c, v) for c, v in self.log}

    def __exit__(self, *exc):
        m = _mapping()
        m.clear()
        m.update(self._saved)
        return False


ADV_BYTES = [b"", b"123", b"0", b"007", b"md5:x_y", b"_", b":", b"bytes:", b"bytes:123", b"\x80\x05N.", b"sum:0_",
             b"sha1:", b"md5:d41d8cd98f00b204e9800998ecf8427e_", b"I1\n.", b"a\nb", b"\x00", b"\xff\xfe", b"N.",
             b"Item:+x", b"1_2", b"+", b"-5", b"-"]
ADV_STR = ["", "_", ":", "123", "0", "md5:x_y", "bytes:abc", "é∑", "\n", "a b", "None", "\udc80", "𝔘", "'\"\\"]
ADV_INT = [0, 1, -1, 123, -5, 2 ** 70, -(2 ** 70), 255, 10 ** 30]
ADV_FLOAT = [0.0, -0.0, 1.5, -2.25, 1e300, 5e-324, float("inf"), float("-inf"), float("nan"), 123.0]
ADV_MISC = [
    decimal.Decimal("1.10"), decimal.Decimal("-0"), decimal.Decimal("123"), decimal.Decimal("1E+30"),
    _dt.date(2024, 2, 29), _dt.date.min, _dt.datetime(2024, 2, 29, 23, 59, 59, 999999),
    _dt.datetime(2000, 1, 1, tzinfo=_dt.timezone.utc),
    _dt.datetime(1999, 12, 31, 12, tzinfo=_dt.timezone(_dt.timedelta(hours=-5, minutes=-30))),
    _dt.time(12, 30), _dt.timedelta(0), _dt.timedelta(days=-1, microseconds=1), _dt.timedelta(seconds=123),
]


def _rand_bytes(rng, n):
    return bytes(rng.randrange(256) for _ in range(n))


def _rand_str(rng, n):
    alpha = "ab_:019 é∑\n"
    return "".join(rng.choice(alpha) for _ in range(n))


def gen_leaf(rng, hashable=False, huge=False):
    r = rng.random()
    if huge and r < 0.03:
        return rng.choice(ADV_HUGE)
    if r < 0.08:
        return rng.choice([None, True, False])
    if r < 0.22:
        return rng.choice(ADV_INT) if rng.random() < 0.7 else rng.randrange(-1000, 1000)
    if r < 0.34:
        return rng.choice(ADV_FLOAT)
    if r < 0.52:
        return rng.choice(ADV_STR) if rng.random() < 0.7 else _rand_str(rng, rng.randrange(1, 9))
    if r < 0.78:
        return rng.choice(ADV_BYTES) if rng.random() < 0.7 else _rand_bytes(rng, rng.randrange(1, 12))
    if r < 0.9:
        return rng.choice(ADV_MISC)
    if r < 0.95:
        return Point(rng.choice(ADV_INT), rng.choice(ADV_FLOAT[:6]))
    return Pair(rng.choice(ADV_INT), rng.choice(ADV_STR))


def gen_value(rng, depth=3, hashable=False, huge=False):
    """recursive generator over the C09 value universe; huge: also integers beyond the int -> str conversion limit"""
    if depth <= 0 or rng.random() < 0.35:
        return gen_leaf(rng, hashable, huge)
    n = rng.choice([0, 0, 1, 2, 3])
    kind = rng.choice(["tuple", "frozenset", "pair", "triple"] if hashable else
                      ["tuple", "list", "set", "frozenset", "dict", "rec", "pair", "triple", "point"])
    if kind == "tuple":
        return tuple(gen_value(rng, depth - 1, hashable, huge) for _ in range(n))
    if kind == "list":
        return [gen_value(rng, depth - 1, False, huge) for _ in range(n)]
    if kind == "set":
        return {gen_value(rng, depth - 1, True, huge) for _ in range(n)}
    if kind == "frozenset":
        return frozenset(gen_value(rng, depth - 1, True, huge) for _ in range(n))
    if kind == "dict":
        return {gen_value(rng, depth - 1, True, huge): gen_value(rng, depth - 1, False, huge) for _ in range(n)}
    if kind == "rec":
        return Rec(rng.choice(ADV_STR), [gen_value(rng, depth - 1, False, huge) for _ in range(n)], gen_value(rng, depth - 1, False, huge))
    if kind == "pair":
        return Pair(gen_value(rng, depth - 1, hashable, huge), gen_value(rng, depth - 1, hashable, huge))
    if kind == "triple":
        return Triple(rng.choice(ADV_INT), rng.choice(ADV_STR), rng.choice(ADV_BYTES))
    return Point(rng.choice(ADV_INT), rng.choice(ADV_FLOAT[:6]))


def gen_json_value(rng, depth=3, top=True):
    """JSON-native shapes: None, bool, int, float, str, list, dict with str keys (+ bytes at top level only:
    bytes are custom encoded, never handed to the json pickler)"""
    r = rng.random()
    if top and r < 0.2:
        return rng.choice(ADV_BYTES) if rng.random() < 0.7 else _rand_bytes(rng, rng.randrange(1, 12))
    if depth <= 0 or r < 0.5:
        k = rng.randrange(5)
        if k == 0:
            return rng.choice([None, True, False])
        if k == 1:
            return rng.choice(ADV_INT)
        if k == 2:
            return rng.choice(ADV_FLOAT)
        return rng.choice(ADV_STR) if rng.random() < 0.7 else _rand_str(rng, rng.randrange(1, 9))
    n = rng.choice([0, 1, 2, 3])
    if rng.random() < 0.5:
        return [gen_json_value(rng, depth - 1, False) for _ in range(n)]
    return {(rng.choice(ADV_STR) if rng.random() < 0.6 else _rand_str(rng, 3)): gen_json_value(rng, depth - 1, False)
            for _ in range(n)}


BOX_PAYLOADS = [b"", b"abc", b"a\nb", b"1\n", b"\n.", b".", b"x" * 120 + b".", b"'q'\n", b"123", b"_", b":", b"+",
                b"!", b"a:b_c", b"\x80\x05N.", b"N."]


def gen_boxed(rng):
    cls = rng.choice(SCOPED_REGISTERED) if rng.random() < 0.3 else BOX[rng.choice(BOX_NAMES)]
    p = rng.choice(BOX_PAYLOADS) if rng.random() < 0.6 else _rand_bytes(rng, rng.randrange(0, 140))
    return cls(p)


import sys as _sys
from contextlib import contextmanager


@contextmanager
def no_int_str_limit():
    """the harness' OWN conversions between ints and decimal text (messages, replay files, the protocol) must not trip over
    CPython's limit on int <-> str conversion; the limit is lifted only around such a conversion (synchronous, no cashews
    code runs inside) so that the code under test keeps meeting the interpreter's default"""
    old = _sys.get_int_max_str_digits()
    _sys.set_int_max_str_digits(0)
    try:
        yield
    finally:
        _sys.set_int_max_str_digits(old)


def rp(v) -> str:
    """repr(v) that also works for values containing integers beyond the int -> str limit"""
    try:
        return repr(v)
    except ValueError:
        with no_int_str_limit():
            return repr(v)


class RP:
    """f"{RP(v)!r}": rp(v) with very long runs of digits abbreviated (for messages, not for replay files)"""

    def __init__(self, v):
        self.v = v

    def __repr__(self):
        import re
        return re.sub(r"\d{60,}", lambda m: f"{m[0][:4]}...<{len(m[0])} digits>...{m[0][-4:]}", rp(self.v))


# integers whose decimal text is longer than sys.get_int_max_str_digits() (4300): pickle stores them in binary
ADV_HUGE = [10 ** 5000, -(10 ** 4400), 2 ** 20000 + 1]
HUGE = 10 ** 4300


def has_huge_int(v) -> bool:
    if type(v) is int:
        return abs(v) >= HUGE
    if isinstance(v, dict):
        return any(has_huge_int(k) or has_huge_int(x) for k, x in v.items())
    if isinstance(v, (list, tuple, set, frozenset)):
        return any(has_huge_int(x) for x in v)
    if dataclasses.is_dataclass(v) and not isinstance(v, type):
        return any(has_huge_int(getattr(v, f.name)) for f in dataclasses.fields(v))
    return False


MUTATION_MARK = "<mutated by the caller after the write>"


def mutate_top(v) -> bool:
    """the CALLER changes its own object at the top level after handing it to set / set_many (never anything the cache
    returned, never a nested object: the store's snapshot is shallow by design).  True when v is mutable and was changed."""
    if type(v) is list:
        v.append(MUTATION_MARK)
    elif type(v) is dict:
        v[MUTATION_MARK] = 1
    elif type(v) is set:
        v.add(MUTATION_MARK)
    elif type(v) is Rec:
        v.name = v.name + MUTATION_MARK
        v.extra = MUTATION_MARK
    elif isinstance(v, Boxed):
        v.payload = v.payload + MUTATION_MARK.encode()
    else:
        return False
    return True


def canon(v):
    """deep, type-tagged canonical form: equal canon <=> equal value of the same type (also inside containers);
    NaN is equal to NaN here, 0.0 differs from -0.0, dict/set order is ignored"""
    t = type(v)
    tn = f"{t.__module__}.{t.__qualname__}"
    if isinstance(v, Boxed):
        return [tn, v.payload.hex()]
    if dataclasses.is_dataclass(v) and not isinstance(v, type):
        return [tn, [[f.name, canon(getattr(v, f.name))] for f in dataclasses.fields(v)]]
    if isinstance(v, (list, tuple)):
        return [tn, [canon(x) for x in v]]
    if isinstance(v, (set, frozenset)):
        return [tn, sorted((canon(x) for x in v), key=json.dumps)]
    if isinstance(v, dict):
        return [tn, sorted(([canon(k), canon(x)] for k, x in v.items()), key=json.dumps)]
    return [tn, rp(v)]


def canon_s(v) -> str:
    return json.dumps(canon(v), ensure_ascii=True)


def json_applicable(v, top=True) -> bool:
    t = type(v)
    if top and (t is bytes or isinstance(v, Boxed)):
        return True
    if v is None or t in (bool, int, float, str):
        return True
    if t is list:
        return all(json_applicable(x, False) for x in v)
    if t is dict:
        return all(type(k) is str and json_applicable(x, False) for k, x in v.items())
    return False


KEYS = ["k", "k_", "a:b", "key_1:x", "é", "∑k", "k bytes:", "kbytes:", "0", "123", "user:1:profile", "_", ":", "k1.",
        "kN.", "K", "kk", "k:"]
SECRETS = ["s3cret", "a_b:c", "é∑", "x"]


# ----------------------------------------------------------------------------------------------------
# configurations
# ----------------------------------------------------------------------------------------------------
@dataclasses.dataclass(frozen=True)
class Conf:
    pickle_type: str | None      # None (parameter omitted), "null", "default", "json"
    secret: str | None           # the TEXT of the secret
    digest: str                  # configured digest (ignored by cashews without a secret)
    via: str = "url"             # "url": everything in the settings url; "kw": keyword arguments of Cache.setup, secret and
                                 # digestmod as bytes; "kwstr": keyword arguments, secret and digestmod as str

    @property
    def pk(self) -> str:
        """the model's pickler kind: NonPickler only when no secret and no real pickler was asked for
        (`_get_pickler`: NULL + secret -> DEFAULT)"""
        return "null" if self.pickle_type in (None, "null") and not self.secret else "real"

    @property
    def is_json(self) -> bool:
        return self.pickle_type == "json"

    def name(self) -> str:
        sec = "secret" if self.secret else ("nosecret" if self.secret is None else "emptysecret")
        return f"{self.pickle_type or 'omitted'}/{sec}/{self.digest}/{self.via}"

    def setup(self):
        cache = Cache()
        if self.via == "url":
            q = {"check_interval": "0"}
            if self.secret is not None:
                q["secret"] = self.secret
                q["digestmod"] = self.digest
            if self.pickle_type is not None:
                q["pickle_type"] = self.pickle_type
            backend = cache.setup("mem://?" + urllib.parse.urlencode(q))
        else:
            kw: dict = {"check_interval": 0}
            if self.secret is not None:
                kw["secret"] = self.secret.encode() if self.via == "kw" else self.secret
                kw["digestmod"] = self.digest.encode() if self.via == "kw" else self.digest
            if self.pickle_type is not None:
                kw["pickle_type"] = self.pickle_type
            backend = cache.setup("mem://", **kw)
        ser = getattr(backend, "_serializer", None)
        if ser is None:
            # the backend was built WITHOUT a serializer (nothing encodes, signs, verifies or decodes): not a harness
            # problem but an observable of the code under test - the run goes on uninstrumented, and whatever the missing
            # serializer breaks (custom pairs not used, stored forms, unverified reads) is judged like anything else
            rec = Recorder(_NoPickler())
            rec.installed = False
            return cache, backend, rec
        if not hasattr(ser, "set_pickler") or not hasattr(ser, "_pickler"):
            raise HarnessError("cannot reach the backend's serializer to install the instrumented pickler")
        rec = Recorder(ser._pickler)
        ser.set_pickler(rec)
        return cache, backend, rec

    def fields(self, reg: str | None = None) -> str:
        # the configured secret is its text: `s:` a str (settings url, str keyword), `b:` the bytes of that text
        # an EMPTY secret ("" / b"") is sent as what it is (`s:` / `b:` with no bytes): that it means "no secret" is the model's
        # statement (Serial.signerOf), not the harness'
        sec = ("b:" if self.via == "kw" else "s:") + self.secret.encode().hex() if self.secret is not None else "-"
        return f"sec={sec} dig={self.digest} pk={self.pk} reg={REG_FIELD() if reg is None else reg}"

    def probe(self) -> str:
        """can this configuration sign at all?  'signed' | 'raises:<Error>' | 'unsigned' (observed on the real code: a
        numeric-looking secret in the settings url is turned into a number by the url parser, see the url-numeric-secret defect in the report)"""
        if not self.secret:
            return "signed"
        if self not in _PROBES:
            async def go():
                cache, _, _ = self.setup()
                try:
                    await cache.set("probe", "p")
                except Exception as exc:  # noqa: BLE001
                    return "raises:" + type(exc).__name__
                raw = await cache.get_raw("probe")
                return "signed" if isinstance(raw, bytes) and raw.startswith(self.digest.encode() + b":") else "unsigned"

            _PROBES[self] = vtime.run(go)
        return _PROBES[self]


_PROBES: dict = {}


def key_field(key: str) -> str:
    """key=<hex of key.encode()> or key=! for a key text that has no UTF-8 encoding (lone surrogate)"""
    try:
        return "key=" + key.encode("utf8").hex()
    except UnicodeEncodeError:
        return "key=!"


def key_bytes(key: str):
    try:
        return key.encode("utf8")
    except UnicodeEncodeError:
        return None


def all_confs() -> list[Conf]:
    out = []
    for pt in (None, "null", "default", "json"):
        out.append(Conf(pt, None, "md5"))
        for d in DIGESTS:
            out.append(Conf(pt, "s3cret", d))
    out.append(Conf("default", "a_b:c", "sha1", "kw"))
    out.append(Conf("json", "é∑", "sha256", "kw"))
    out.append(Conf(None, "x", "sum", "kw"))
    out.append(Conf(None, None, "md5", "kw"))
    out.append(Conf("default", "é∑", "md5"))
    out.append(Conf("json", "a_b:c", "sum"))
    # the EMPTY secret (`secret=os.environ.get("CACHE_SECRET", "")`): as str keyword, as bytes keyword and in the settings url
    # (`mem://?secret=&digestmod=...`: a blank option is no option), with and without an explicit pickle_type, every digest:
    # it is "no secret" - values round-trip unsigned, the NonPickler stays unless a real pickler was asked for
    for i, pt in enumerate((None, "null", "default", "json")):
        for j, via in enumerate(("kwstr", "kw", "url")):
            out.append(Conf(pt, "", DIGESTS[(i + j) % len(DIGESTS)], via))
    return out


def spelled_secret_confs() -> list[Conf]:
    """configurations whose secret looks like a number (or is given as str keyword): used by C09 only where `probe()`
    says the configuration can sign"""
    return [Conf("default", "20240117", "sha256", "url"), Conf(None, "0042", "md5", "url"), Conf("json", "1e3", "sha1", "url"),
            Conf(None, "0", "md5", "url"), Conf("default", "0042", "md5", "kwstr"), Conf("json", "42", "sha1", "kw"),
            Conf(None, "1e3", "sha256", "kwstr"), Conf("default", "s3cret", "sum", "kwstr")]


_REG = None


def REG_FIELD() -> str:
    global _REG
    if _REG is None:
        _REG = ",".join(klass_field(c) + ("" if v is None else f"/{v}") for c, v in REGISTERED) or "-"
    return _REG


class _NoPickler:
    """stands for the pickler of a backend that has no serializer: never called"""
    UnpicklingError = ()
    PickleError = ()

    @staticmethod
    def loads(value):
        return value

    @staticmethod
    def dumps(value):
        return value


class Recorder:
    """instrumented pickler: delegates to the pickler `get_serializer` chose, records every call"""
    installed = True

    def __init__(self, inner):
        self.inner = inner
        self.UnpicklingError = inner.UnpicklingError
        self.PickleError = inner.PickleError
        self.loads_calls: list[tuple[bytes, str, object]] = []
        self.dumps_calls: list[tuple[object, object]] = []

    def reset(self):
        self.loads_calls = []
        self.dumps_calls = []

    def loads(self, value):
        try:
            r = self.inner.loads(value)
        except BaseException as exc:
            self.loads_calls.append((value, self.classify(exc), exc))
            raise
        self.loads_calls.append((value, "ok", r))
        return r

    def dumps(self, value):
        r = self.inner.dumps(value)
        self.dumps_calls.append((value, r))
        return r

    def classify(self, exc) -> str:
        """the three except-clauses of Serializer.decode, in their order"""
        if isinstance(exc, self.UnpicklingError):
            return "unp"
        if isinstance(exc, AttributeError):
            return "attr"
        return "other"


# ----------------------------------------------------------------------------------------------------
# protocol
# ----------------------------------------------------------------------------------------------------
class Ids:
    """canonical form -> small integer (the model's opaque object identities)"""

    def __init__(self):
        self.tab: dict[str, int] = {}

    def of(self, v) -> int:
        return self.tab.setdefault(canon_s(v), len(self.tab))


def show_val(v, ids: Ids) -> str:
    if type(v) is int:
        return "i:" + rp(v)
    if isinstance(v, int) and not isinstance(v, bool):
        return "i:" + rp(int(v))
    if isinstance(v, bytes):
        return f"b:{bytes(v).hex()}"
    tag = klass_field(type(v))
    if isinstance(v, Boxed):
        return f"x:{tag}:{v.payload.hex()}"
    return f"o:{ids.of(v)}:{tag}"


def real_mac(label: str, secret: bytes, msg: bytes) -> bytes:
    """independent of cashews: stdlib hmac / the documented `sum` formula"""
    if label == "sum":
        return f"{sum(secret) + sum(msg):x}".encode()
    return hmac.new(secret, msg, getattr(hashlib, label)).hexdigest().encode()


def mac_field(q: str, secret: str | None) -> str:
    """answer to the model's MAC query `q=<label>:<msghex>` (or `q=-`)"""
    if not q.startswith("q="):
        raise HarnessError(f"driver answered {q!r} to a MAC query")
    q = q[2:]
    if q == "-" or secret is None:
        return "mac=-"
    label, msg = q.split(":")
    return f"mac={label}:{msg}:{real_mac(label, secret.encode(), bytes.fromhex(msg)).hex()}"


def outcome(fn_result) -> tuple[str, object]:
    """(kind, payload) of a read: value / dflt / unsecure / raised:<class>"""
    kind, val = fn_result
    return kind, val


async def read(coro) -> tuple[str, object]:
    try:
        r = await coro
    except UnSecureDataError:
        return ("unsecure", None)
    except Exception as exc:  # noqa: BLE001
        return ("raised", type(exc).__name__)
    if r is SENT:
        return ("dflt", None)
    return ("value", r)


def show_outcome(o, ids: Ids, key: str | None = None) -> str:
    kind, val = o
    if kind == "value":
        return "value:" + show_val(val, ids)
    if kind == "raised":
        # `key.encode()` of a key that has no encoding: the model's macError (only when the caller names such a key)
        if val == "UnicodeEncodeError" and key is not None and key_bytes(key) is None:
            return "macerr:key"
        return "raised"
    return kind


def ask_par(driver, lines: list[str], workers: int = 6, min_chunk: int = 1500) -> list[str]:
    """`driver.ask(lines)` for the STATELESS serializer protocol (one request line, one answer line, no state between
    lines - see Driver/SerialDrv.lean), split over several driver processes run concurrently"""
    if len(lines) < 2 * min_chunk:
        return driver.ask(lines) if lines else []
    import concurrent.futures

    k = min(workers, max(1, len(lines) // min_chunk))
    size = -(-len(lines) // k)
    chunks = [lines[i:i + size] for i in range(0, len(lines), size)]
    with concurrent.futures.ThreadPoolExecutor(max_workers=len(chunks)) as ex:
        parts = list(ex.map(driver.ask, chunks))
    return [a for part in parts for a in part]


def check_labels(driver) -> None:
    """the digest table of the model is the digest table of the code"""
    from cashews.serialize import HashSigner

    ans = driver.ask(["labels"])[0]
    model = sorted(ans.split("=", 1)[1].split(","))
    code = sorted(k.decode() for k in HashSigner._digestmods)
    if model != code:
        raise LabelMismatch(model, code)


class LabelMismatch(Exception):
    def __init__(self, model, code):
        super().__init__(f"digest labels differ: model {model} vs code {code}")
        self.model, self.code = model, code
