"""C15 - rate limiters and circuit breaker never admit more than configured.

proof: lean/CashewsVerif/Props/C15.lean (fixed window, sliding log, breaker trip rule, interleavings of the counter).
tie:   generated call histories (instants clustered around window boundaries, scripted outcomes) and interleavings of
       2-3 concurrent callers (gate scheduler, backend-command granularity, clock steps in between) are run on the real
       decorators through the public `Cache` facade on `mem://` under the virtual clock, and on the compiled Lean models;
       compared call by call / step by step: impl == model (correspondence) and the property itself (the executable
       spec of lean/CashewsVerif/Spec/RateLimit.lean, evaluated by the driver on the *implementation's* trace).
"""
from __future__ import annotations

import ast
import inspect
import json
from pathlib import Path

from .. import ratelim as rl
from ..core import ROOT, Check, Driver, HarnessError, ddmin, proof_stage
from ..sched import enumerate_schedules

PROP = "C15"
DRIVER = Driver("driver_c15", "Drivers/C15.lean")

TRUSTED = [
    "Lean 4.33.0 kernel; axioms of every theorem audited to be within {propext, Classical.choice, Quot.sound}",
    "hand-written models lean/CashewsVerif/Model/Decor/{Rate,SlideRate,Breaker,RateSched}.lean of cashews/decorators/{rate,rate_slide,circuit_breaker}.py and Memory.slice_incr, written over the ideal TTL map that C01 proves the in-memory backend refines; tied to the code by this run's correspondence",
    "harness: virtual clock (harness/vtime.py, datetime.now patched), gate scheduler (harness/sched.py), classification of call outcomes (harness/ratelim.py)",
    "asyncio assumption A1 (no preemption between suspension points) for the interleaving model",
    "the wrapped function is a script of outcomes (returns / raises a listed exception / raises another exception)",
    "float trip test `fails*100/total >= errors_rate` modelled in integers: exact for integer rates and total <= 9999 (Lemmas/C15Breaker.lean trip_gap; boundary pairs enumerated on the real expression by this run)",
]


# ----------------------------------------------------------------------------------------------------
# evaluation of one case


def _canon_model_seq(kind: str, ans: str) -> str:
    f = dict(w.split("=", 1) for w in ans.split())
    if kind == "breaker":
        d = f["dec"]
        d = "open" if d == "open" else d.split(":", 1)[1]
        return f"{f['ts']}:{d}:{f['open']}"
    return f"{f['ts']}:{f['dec']}"


def prep_seq(case: dict):
    kind = case["kind"]
    impl = rl.run_seq(case)
    lines = [rl.case_line(kind, case["p"])]
    for dt, oc in case["calls"]:
        lines.append(f"call {dt} {oc}" if kind == "breaker" else f"call {dt}")
    bad = [i for i, o in enumerate(impl) if "bad:" in o]
    if not bad:
        lines.append("spec " + " ".join(impl))
    return {"case": case, "impl": impl, "bad": bad}, lines


def fin_seq(ctx: dict, lines, ans) -> dict:
    case, impl, bad = ctx["case"], ctx["impl"], ctx["bad"]
    if ans[0] != "ok" or any(a == "bad-op" for a in ans):
        raise HarnessError(f"driver refused a C15 line: {list(zip(lines, ans))[:6]}")
    n = len(case["calls"])
    raw = ans[1:1 + n]
    model = [_canon_model_seq(case["kind"], a) for a in raw]
    spec = "fails" if bad else ans[1 + n]
    first = next((i for i, (a, b) in enumerate(zip(impl, model)) if a != b), None)
    return {"impl": impl, "model": model, "raw": raw, "spec": spec, "bad": bad, "diff": first}


def prep_conc(case: dict, schedule=None):
    kind = case["kind"]
    steps, results, branching = case["_run"] if "_run" in case and schedule is None else rl.run_conc(case, schedule)
    lines = [rl.case_line(kind, case["p"]), "spawn " + " ".join(case["tasks"])]
    for s in steps:
        lines.append(f"tick {s[1]}" if s[0] == "tick" else f"step {s[1]}")
    for i in range(len(case["tasks"])):
        lines.append(f"result {i}")
    trace = None
    if kind == "slide":
        # the sliding bound is claimed for calls whose log command runs at the instant their timestamp was read
        # (no stall in between) and in strictly increasing timestamp order; a caller stalled between reading the
        # clock and reaching the store is counted by its arrival timestamp while the log key lapses by store time -
        # mirrored by the model, not judged
        now = 0
        stamps = []
        punctual = True
        for s in steps:
            if s[0] == "tick":
                now += s[1]
            elif s[2].startswith("slice:"):
                ts = int(s[2].split(":")[2])
                stamps.append((ts, s[1]))
                punctual = punctual and ts == now
        if punctual and all(a[0] < b[0] for a, b in zip(stamps, stamps[1:])) and all(not r[1].startswith("bad:") for r in results):
            trace = " ".join(f"{ts}:{'run' if results[t][0] else 'rej'}" for ts, t in stamps)
            lines.append("spec " + trace)
    return {"case": case, "steps": steps, "results": results, "branching": branching, "trace": trace}, lines


def fin_conc(ctx: dict, lines, ans) -> dict:
    case, steps, results = ctx["case"], ctx["steps"], ctx["results"]
    if ans[0] != "ok" or ans[1] != "ok" or any(a == "bad-op" for a in ans):
        raise HarnessError(f"driver refused a C15 interleaving line: {list(zip(lines, ans))[:8]}")
    model_steps = ans[2:2 + len(steps)]
    model_res = ans[2 + len(steps):2 + len(steps) + len(results)]
    diff = None
    for i, (s, a) in enumerate(zip(steps, model_steps)):
        want = "ok" if s[0] == "tick" else f"lbl={s[2]}"
        if a != want:
            diff = i
            break
    if diff is None:
        for i, ((executed, what), a) in enumerate(zip(results, model_res)):
            if a == "pending" or a.split()[0] != f"ran={'T' if executed else 'F'}":
                diff = len(steps) + i
                break
    spec = conc_oracle(case, steps, results)
    if spec is None and ctx["trace"] is not None and ans[-1] != "holds":
        spec = "more than limit runs inside one period although the calls reached the log in timestamp order"
    return {"steps": steps, "results": results, "branching": ctx["branching"], "model_steps": model_steps,
            "model_results": model_res, "diff": diff, "spec": spec}


def eval_many(cases: list[dict], chunk: int = 250):
    """run the implementation on every case, the driver once per chunk; yields (case, evaluation)"""
    for at in range(0, len(cases), chunk):
        part = cases[at:at + chunk]
        prepared = [(prep_seq(c) if c.get("mode", "seq") == "seq" else prep_conc(c)) for c in part]
        answers = DRIVER.ask([l for _, lines in prepared for l in lines])
        pos = 0
        for c, (ctx, lines) in zip(part, prepared):
            ans = answers[pos:pos + len(lines)]
            pos += len(lines)
            yield c, (fin_seq(ctx, lines, ans) if c.get("mode", "seq") == "seq" else fin_conc(ctx, lines, ans))


def eval_seq(case: dict) -> dict:
    ctx, lines = prep_seq(case)
    return fin_seq(ctx, lines, DRIVER.ask(lines))


def eval_conc(case: dict, schedule=None) -> dict:
    ctx, lines = prep_conc(case, schedule)
    return fin_conc(ctx, lines, DRIVER.ask(lines))


def conc_oracle(case: dict, steps, results) -> str | None:
    """the property on an interleaving of the real code: None = holds, else what is wrong"""
    kind, p = case["kind"], case["p"]
    for i, (executed, what) in enumerate(results):
        if what.startswith("bad:"):
            return f"task {i}: {what}"
        if (what in ("rej", "open")) == executed:
            return f"task {i}: {what} but executed={executed}"
    if kind == "fixed":
        # no lapse is possible while less than min(period, ban ttl) has passed: then at most `limit` callers run
        passed = sum(s[1] for s in steps if s[0] == "tick")
        if passed < min(p["period"], p.get("ttl") or p["period"]) and sum(1 for r in results if r[0]) > p["limit"]:
            return f"more than {p['limit']} callers ran although the counter cannot have lapsed ({passed} ticks passed)"
        # between two lapses of the counter (an `incr` answering 1 starts a new window) at most `limit` runs
        runs = 0
        for s in steps:
            if s[0] == "step" and s[2].startswith("incr:n="):
                n = int(s[2][7:])
                if n == 1:
                    runs = 0
                if results[s[1]][0]:
                    runs += 1
                    if runs > p["limit"]:
                        return f"more than {p['limit']} runs between two lapses of the counter"
    elif kind == "breaker":
        now = 0
        open_until = None           # end of the open interval started by the latest successful set_lock
        for s in steps:
            if s[0] == "tick":
                now += s[1]
                continue
            is_open = open_until is not None and now < open_until
            if s[2] == "is_locked:T":
                if results[s[1]][0]:
                    return f"task {s[1]} found the breaker open and still ran the function"
                if not is_open:
                    return f"task {s[1]} was rejected although no call opened the breaker within the last ttl"
            elif s[2] == "is_locked:F" and is_open:
                return f"task {s[1]} was let through although the breaker was opened less than ttl ago"
            elif s[2] == "set_lock:T":
                open_until = now + p["ttl"]
            elif s[2] == "set_lock:F" and not is_open:
                return (f"task {s[1]} failed with the trip rule satisfied, the breaker was not open any more, "
                        "and it still did not open")
    return None


# ----------------------------------------------------------------------------------------------------
# interesting states (for the evidence only; computed from the model's answers / the observed trace)


def spelled(case: dict) -> dict:
    """the Python objects the decorator was given for period / ttl"""
    form = case.get("style", {}).get("form", "int")
    out = {k: rl.secs(case["p"][k], form) for k in ("period", "ttl") if case["p"].get(k) is not None}
    if case["kind"] != "breaker":
        dyn = [k for k in ("period", "ttl") if k in out and rl.is_callable(case.get("style", {}), k)]
        if dyn:
            out["through"] = "a callable of the call's arguments for " + " and ".join(dyn)
    return out


def spelling_class(case: dict) -> list[str]:
    out = []
    sp = spelled(case)
    sp.pop("through", None)
    dyn = [k for k in ("period", "ttl") if case["kind"] != "breaker" and rl.is_callable(case.get("style", {}), k)]
    if case["kind"] == "fixed" and case["p"].get("ttl") is not None:
        out.append("fixed: " + " + ".join(f"{'callable' if k in dyn else 'plain'} {k}" for k in ("period", "ttl")))
    for k, v in sp.items():
        via = "callable_returning_" if k in dyn else ""
        name = type(v).__name__
        if name == "timedelta" and v.days:
            name += "_with_days"
        if name == "str":
            name += "_composite" if sum(c.isalpha() for c in v) > 1 else "_digits" if v.strip().isdigit() else "_seconds"
        out.append(via + name + ("_an_hour_or_more" if case["p"][k] >= rl.HOUR else ""))
    return out


def interesting_seq(case: dict, ev: dict) -> set[str]:
    kind, p = case["kind"], case["p"]
    out: set[str] = set()
    obs = [o.split(":") for o in ev["impl"] if "bad:" not in o]
    ts = [int(o[0]) for o in obs]
    period = p["period"]
    if max(period, p.get("ttl") or 0) >= rl.HOUR:
        # durations of hours and days: a call that is still held back an hour or more after the previous call, and a
        # call let through again after such a duration ran out
        held = "open" if kind == "breaker" else "rej"
        for i in range(1, len(obs)):
            if ts[i] - ts[i - 1] >= rl.HOUR and obs[i][1] == held:
                out.add("a call still rejected an hour or more after the previous call (duration of hours or days)")
            if ts[i] - ts[i - 1] >= rl.HOUR and obs[i][1] != held and any(o[1] == held for o in obs[:i]):
                out.add("a call let through again after a duration of hours or days ran out")
    if kind in ("fixed", "slide"):
        ttl = p.get("ttl") or period
        runs = [t for t, o in zip(ts, obs) if o[1] == "run"]
        rej = [t for t, o in zip(ts, obs) if o[1] == "rej"]
        if rej:
            out.add("a call was rejected")
        for i, (t, o) in enumerate(zip(ts, obs)):
            for t0 in ts[:i]:
                d = t - t0
                if d == period:
                    out.add("call exactly one period after an earlier call")
                elif d in (period - 1, period + 1):
                    out.add("call one tick before/after a period boundary")
                if kind == "fixed" and rej and d == ttl and t0 in rej:
                    out.add("call exactly at the end of the ban ttl")
            if o[1] == "run" and any(r < t for r in rej):
                out.add("a run after an earlier rejection (counter lapsed / window slid)")
        if kind == "fixed" and p.get("ttl") not in (None, period) and rej:
            out.add("ban ttl different from period in force")
        if case.get("style", {}).get("purge") is False and len(ts) > 1 and max(b - a for a, b in zip(ts, ts[1:])) >= period:
            out.add("counter/log expired but unpurged when touched")
        if len(runs) > p["limit"]:
            out.add("more than limit runs overall (several windows)")
    else:
        for o, raw in zip(obs, ev["raw"]):
            f = dict(w.split("=", 1) for w in raw.split())
            if o[1] == "open":
                out.add("call rejected while open")
            if f.get("trip") == "T":
                out.add("breaker tripped")
            if o[1] == "fail" and int(f.get("total", 0)):
                tot, fl = int(f["total"]), int(f["fails"])
                if (fl * 100) % tot and abs(fl * 100 / tot - p["rate"]) < 1 and tot >= p["min_calls"]:
                    out.add("trip rule decided on a share that is not a whole percent, less than one point from errors_rate")
                    if f.get("trip") == "F" and round(fl * 100 / tot) >= p["rate"]:
                        out.add("no trip although the share rounds onto errors_rate")
            if o[1] == "fail" and f.get("trip") == "F":
                tot, fl = int(f["total"]), int(f["fails"])
                if tot < p["min_calls"] and p["rate"] * tot <= 100 * fl:
                    out.add("failure rate reached but min_calls not")
                elif tot >= p["min_calls"]:
                    out.add("failure below the rate with min_calls reached")
        opened = [int(o[0]) for i, o in enumerate(obs) if o[2] == "T" and o[1] != "open"]
        for t0 in opened:
            if t0 + p["ttl"] in ts:
                out.add("call exactly when the open ttl ends")
            if t0 + p["ttl"] - 1 in ts:
                out.add("call one tick before the open ttl ends")
        for i, t in enumerate(ts):
            if any(t - t0 == period for t0 in ts[:i]):
                out.add("call exactly one period after an earlier call")
        if any(o[1] not in ("open",) and o[2] == "F" for o in obs) and opened and max(ts) >= min(opened) + p["ttl"]:
            out.add("breaker closed again after its ttl")
    return out


def interesting_conc(case: dict, ev: dict) -> set[str]:
    out: set[str] = set()
    steps = ev["steps"]
    kind = case["kind"]
    last_incr: dict[int, int] = {}
    for idx, s in enumerate(steps):
        if s[0] != "step":
            continue
        if s[2].startswith("incr:"):
            last_incr[s[1]] = idx
        if s[2] == "expire" and s[1] in last_incr:
            between = steps[last_incr[s[1]] + 1:idx]
            if any(b[0] == "step" and b[2].startswith("incr:") for b in between):
                out.add("another caller's incr between a caller's incr and its expire")
            if any(b[0] == "tick" for b in between):
                out.add("time passed between a caller's incr and its expire")
    if kind == "breaker":
        lock = next((i for i, s in enumerate(steps) if s[0] == "step" and s[2] == "set_lock:T"), None)
        if lock is not None:
            out.add("breaker tripped by one of the concurrent callers")
            for i, s in enumerate(steps):
                if s[0] == "step" and s[2] == "body" and i > lock:
                    out.add("a caller admitted before the trip ran its body after it")
                if s[0] == "step" and s[2] == "is_locked:T":
                    out.add("a concurrent caller was rejected by the open breaker")
        if any(s[0] == "step" and s[2] == "set_lock:F" for s in steps):
            out.add("two callers both tried to open the breaker")
    if kind == "slide":
        stamps = [int(s[2].split(":")[2]) for s in steps if s[0] == "step" and s[2].startswith("slice:")]
        if any(a > b for a, b in zip(stamps, stamps[1:])):
            out.add("log commands arrived out of timestamp order")
        if any(a == b for a, b in zip(stamps, stamps[1:])):
            out.add("two callers with the same timestamp")
        if stamps and all(a < b for a, b in zip(stamps, stamps[1:])) and len(stamps) > 1:
            out.add("concurrent callers in strictly increasing timestamp order")
        now = 0
        for s in steps:
            if s[0] == "tick":
                now += s[1]
            elif s[0] == "step" and s[2].startswith("slice:") and int(s[2].split(":")[2]) != now:
                out.add("a caller stalled between reading the clock and its log command")
    if kind == "fixed":
        ns = [int(s[2][7:]) for s in steps if s[0] == "step" and s[2].startswith("incr:n=")]
        if ns.count(1) > 1:
            out.add("counter lapsed between two concurrent callers")
        if any(n > case["p"]["limit"] for n in ns):
            out.add("a concurrent caller was rejected")
    bodies = [i for i, s in enumerate(steps) if s[0] == "step" and s[2] == "body"]
    if len(bodies) >= 2:
        out.add("two or more bodies admitted in one interleaving")
    return out


# ----------------------------------------------------------------------------------------------------
# verdicts


def seq_fails_spec(case):
    ev = eval_seq(case)
    return ev["spec"] != "holds"


def seq_fails_any(case):
    ev = eval_seq(case)
    return ev["spec"] != "holds" or ev["diff"] is not None


def shrink_seq(case: dict, pred) -> dict:
    calls = ddmin(case["calls"], lambda cs: bool(cs) and pred(dict(case, calls=cs)))
    cur = dict(case, calls=calls)
    # then make the waits as small as they can be
    # (the sliding limiter and the breaker are claimed for strictly increasing instants only: keep every wait
    # but the first positive there)
    floor = 0 if case["kind"] == "fixed" else 1
    for i in range(len(calls)):
        for smaller in (0, 1, calls[i][0] // 2, calls[i][0] - 1):
            if i > 0 and smaller < floor:
                continue
            if 0 <= smaller < cur["calls"][i][0]:
                trial = [list(c) for c in cur["calls"]]
                trial[i][0] = smaller
                if pred(dict(cur, calls=trial)):
                    cur = dict(cur, calls=trial)
                    break
    # the plainest spelling of period / ttl that still fails: a replay that keeps `timedelta` / a string needs it
    if cur.get("style", {}).get("form", "int") != "int":
        for form in ("int", "float"):
            trial = dict(cur, style=dict(cur["style"], form=form))
            if pred(trial):
                cur = trial
                break
    for key in ("purge", "direct", "callable"):
        if cur.get("style", {}).get(key):
            trial = dict(cur, style=dict(cur["style"], **{key: False}))
            if pred(trial):
                cur = trial
    if cur.get("style", {}).get("callable") in (True, "both"):
        for one in ("period", "ttl"):
            trial = dict(cur, style=dict(cur["style"], callable=one))
            if pred(trial):
                cur = trial
                break
    return cur


def report_seq(chk: Check, case: dict, ev: dict, origin: str):
    if ev["spec"] != "holds":
        small = shrink_seq(case, seq_fails_spec)
        ev2 = eval_seq(small)
        what = (f"{small['kind']} {small['p']} (ticks; handed over as {spelled(small)}): observed calls {ev2['impl']} contradict the property"
                + (f" (call {ev2['bad'][0]}: {ev2['impl'][ev2['bad'][0]]})" if ev2["bad"] else " (executable spec of Spec/RateLimit.lean fails on the implementation's trace)")
                + f"; model says {ev2['model']}")
        chk.violation(what, dict(small, impl=ev2["impl"], model=ev2["model"], spec=ev2["spec"], origin=origin,
                                 handed_over={k: repr(v) for k, v in spelled(small).items()},
                                 replay_cmd="./check C15 --replay <this file>"),
                      signature=f"{small['kind']}-spec")
    else:
        small = shrink_seq(case, lambda c: eval_seq(c)["diff"] is not None)
        ev2 = eval_seq(small)
        d = ev2["diff"]
        chk.violation(
            f"correspondence broken: {small['kind']} {small['p']} (ticks; handed over as {spelled(small)}) call {d}: implementation {ev2['impl'][d]} but model {ev2['model'][d]}; the property still holds on this trace",
            dict(small, impl=ev2["impl"], model=ev2["model"], spec=ev2["spec"], origin=origin,
                 handed_over={k: repr(v) for k, v in spelled(small).items()},
                 broken=f"correspondence model <-> cashews/decorators ({small['kind']})", replay_cmd="./check C15 --replay <this file>"),
            signature=None, no_input=True)


def report_conc(chk: Check, case: dict, ev: dict, origin: str):
    case = public(case)
    def bad(c, want_spec):
        e = eval_conc(c)
        return (e["spec"] is not None) if want_spec else (e["diff"] is not None or e["spec"] is not None)

    want_spec = ev["spec"] is not None
    small = dict(case)
    if bad(dict(small, schedule=[]), want_spec):
        small["schedule"] = []
    else:
        small["schedule"] = ddmin(small["schedule"], lambda s: bad(dict(small, schedule=s), want_spec))
    if small.get("ticks"):
        if bad(dict(small, ticks=[]), want_spec):
            small["ticks"] = []
        else:
            small["ticks"] = ddmin(small["ticks"], lambda t: bad(dict(small, ticks=t), want_spec))
    ev2 = eval_conc(small)
    rep = dict(small, steps=ev2["steps"], results=ev2["results"], model_steps=ev2["model_steps"],
               model_results=ev2["model_results"], origin=origin, handed_over={k: repr(v) for k, v in spelled(small).items()}, replay_cmd="./check C15 --replay <this file>")
    if ev2["spec"] is not None:
        chk.violation(f"interleaving of {len(small['tasks'])} concurrent {small['kind']} callers {small['p']} (ticks; handed over as {spelled(small)}): {ev2['spec']}; steps {ev2['steps']}",
                      rep, signature=f"{small['kind']}-sched-spec")
    else:
        d = ev2["diff"]
        at = ev2["steps"][d] if d is not None and d < len(ev2["steps"]) else ("result", d)
        chk.violation(f"correspondence broken: interleaving model differs from the implementation at {at} (model: {(ev2['model_steps'] + ev2['model_results'])[d] if d is not None else '?'}); the property still holds",
                      dict(rep, broken=f"correspondence interleaving model <-> cashews/decorators ({small['kind']})"), signature=None, no_input=True)


# ----------------------------------------------------------------------------------------------------
# the float trip test, on the real expression


def float_trip_check(max_total: int):
    """`fails * 100 / total >= errors_rate` (float) against the model's integer rule on every boundary pair:
    for each total and rate the two fail counts around rate*total/100, where an inexact quotient could flip the test.
    Returns (pairs checked, first disagreement or None); (0, 'reason') when the expression cannot be located."""
    import cashews.decorators.circuit_breaker as cb

    try:
        tree = ast.parse(inspect.getsource(cb))
    except (OSError, SyntaxError) as e:
        return 0, f"source unavailable: {e}"
    test = None
    for node in ast.walk(tree):
        if isinstance(node, ast.ExceptHandler):
            for sub in ast.walk(node):
                if isinstance(sub, ast.If) and {n.id for n in ast.walk(sub.test) if isinstance(n, ast.Name)} >= {"total", "fails", "errors_rate"}:
                    test = sub.test
    if test is None:
        return 0, "trip test not found in the except handler (refactored?)"
    names = {n.id for n in ast.walk(test) if isinstance(n, ast.Name)}
    if not names <= {"total", "fails", "errors_rate", "min_calls"}:
        return 0, f"trip test mentions other names {sorted(names)}"
    lam = ast.Lambda(args=ast.arguments(posonlyargs=[], kwonlyargs=[], kw_defaults=[], defaults=[],
                                        args=[ast.arg("total"), ast.arg("fails"), ast.arg("errors_rate"), ast.arg("min_calls")]),
                     body=test)
    fn = eval(compile(ast.fix_missing_locations(ast.Expression(lam)), "<trip>", "eval"))  # noqa: S307 - expression of the code under test
    checked = 0
    for total in range(1, max_total + 1):
        for rate in range(1, 100):
            f0 = -(-rate * total // 100)          # least fails with 100*fails >= rate*total
            for fails in (f0 - 1, f0):
                if 0 <= fails <= total:
                    checked += 1
                    if bool(fn(total, fails, rate, 1)) != (rate * total <= fails * 100):
                        return checked, {"total": total, "fails": fails, "errors_rate": rate}
    return checked, None


# ----------------------------------------------------------------------------------------------------


def corpus_cases():
    d = ROOT / "corpus" / PROP
    for f in sorted(d.glob("*.json")):
        yield f.name, json.loads(f.read_text())


def exhaustive_cases(prog: dict, limit: int):
    """every interleaving of a small program (stateless DFS over the scheduler's choice points); the run made
    while enumerating is kept with the case (`_run`) so that it is not executed a second time"""
    last = {}

    def once(prefix):
        last["run"] = rl.run_conc(prog, prefix)
        return last["run"][2]

    for schedule in enumerate_schedules(once, limit=limit):
        yield dict(prog, schedule=schedule, _run=last["run"])


def public(case: dict) -> dict:
    return {k: v for k, v in case.items() if not k.startswith("_")}


def run(chk: Check) -> int:
    proof = proof_stage(PROP, "driver_c15", chk.thorough) if not getattr(chk, "skip_proof", False) else None
    rng = chk.rng
    n_seq = chk.budget(4500, 36000)
    n_conc = chk.budget(1500, 9000)
    found = 0
    spec_hits: list = []       # cases on which the implementation contradicts the property
    diff_hits: list = []       # cases on which it only differs from the model
    evaluations = 0
    distinct: set = set()
    interesting: dict[str, int] = {}
    kinds: dict[str, int] = {}
    decs: dict[str, int] = {}
    samples = []
    grid: set = set()
    spellings: dict[str, int] = {}

    def note(case, marks, key):
        for m in marks:
            interesting[m] = interesting.get(m, 0) + 1
        if marks:
            distinct.add(key)

    # ---- sequential histories: corpus first, then generated -------------------------------------
    seq_cases = []
    conc_cases = []
    ncorpus = 0
    for name, c in corpus_cases():
        ncorpus += 1
        (seq_cases if c.get("mode", "seq") == "seq" else conc_cases).append(("corpus:" + name, c))
    for i in range(n_seq):
        kind = rl.KINDS[i % 3]
        seq_cases.append((f"gen:{i}", rl.gen_seq_case(rng, kind, 24 if i % 4 else 8)))
    origins = {id(c): o for o, c in seq_cases}
    for case, ev in eval_many([c for _, c in seq_cases]):
        origin = origins[id(case)]
        evaluations += 1
        kind = case["kind"]
        kinds["seq-" + kind] = kinds.get("seq-" + kind, 0) + 1
        grid.add((kind, json.dumps(case["p"], sort_keys=True)))
        for c in spelling_class(case):
            spellings[c] = spellings.get(c, 0) + 1
        for o in ev["impl"]:
            d = o.split(":")[1]
            decs[f"{kind}:{d}"] = decs.get(f"{kind}:{d}", 0) + 1
        marks = interesting_seq(case, ev)
        note(case, marks, ("seq", kind, json.dumps(case["p"], sort_keys=True), json.dumps(case["calls"])))
        if len(samples) < 6 and marks and len(case["calls"]) <= 8 and sum(1 for s in samples if s["kind"] == kind) < 2:
            samples.append({"kind": kind, "p": case["p"], "style": case.get("style"), "calls": case["calls"], "impl": ev["impl"]})
        if ev["spec"] != "holds":
            spec_hits.append((report_seq, case, ev, origin))
            if len(spec_hits) >= 3:
                break
        elif ev["diff"] is not None and len(diff_hits) < 3:
            diff_hits.append((report_seq, case, ev, origin))

    # ---- interleavings: corpus, exhaustive small programs, random schedules ------------------------
    exhaustive_info = []
    if len(spec_hits) < 3:
        base = {"mode": "conc", "style": {"form": "int", "exc": "default"}, "schedule": []}
        small_programs = [
            dict(base, kind="fixed", p={"limit": 1, "period": 8, "ttl": 4}, tasks=["ok", "ok"], ticks=[]),
            dict(base, kind="fixed", p={"limit": 1, "period": 8, "ttl": 4}, tasks=["ok", "fail"], ticks=[8]),
            dict(base, kind="slide", p={"limit": 1, "period": 8}, tasks=["ok", "ok"], ticks=[1]),
            dict(base, kind="breaker", p={"rate": 50, "period": 8, "ttl": 8, "min_calls": 1}, tasks=["fail", "ok"], ticks=[]),
        ]
        if chk.thorough:
            small_programs += [
                dict(base, kind="fixed", p={"limit": 1, "period": 8, "ttl": None}, tasks=["ok", "fail", "ok"], ticks=[]),
                dict(base, kind="fixed", p={"limit": 2, "period": 8, "ttl": 16}, tasks=["ok", "ok", "ok"], ticks=[]),
                dict(base, kind="slide", p={"limit": 1, "period": 8}, tasks=["ok", "ok", "ok"], ticks=[]),
                dict(base, kind="slide", p={"limit": 2, "period": 8}, tasks=["ok", "ok"], ticks=[8, 1]),
                dict(base, kind="breaker", p={"rate": 50, "period": 8, "ttl": 8, "min_calls": 2}, tasks=["fail", "fail"], ticks=[]),
            ]
        cap = chk.budget(1500, 20000)
        for prog in small_programs:
            count = 0
            for c in exhaustive_cases(prog, cap):
                conc_cases.append((f"exhaustive:{prog['kind']}", c))
                count += 1
            exhaustive_info.append({"kind": prog["kind"], "p": prog["p"], "tasks": prog["tasks"], "ticks": prog["ticks"],
                                    "schedules": count, "complete": count < cap})
        for i in range(n_conc):
            conc_cases.append((f"gen-conc:{i}", rl.gen_conc_case(rng, rl.KINDS[i % 3])))
        origins = {id(c): o for o, c in conc_cases}
        for case, ev in eval_many([c for _, c in conc_cases]):
            origin = origins[id(case)]
            evaluations += 1
            kind = case["kind"]
            kinds["conc-" + kind] = kinds.get("conc-" + kind, 0) + 1
            for c in spelling_class(case):
                spellings["conc:" + c] = spellings.get("conc:" + c, 0) + 1
            marks = interesting_conc(case, ev)
            note(case, marks, ("conc", kind, json.dumps(case["p"], sort_keys=True), json.dumps(ev["steps"])))
            if marks and sum(1 for s in samples if s.get("mode") == "conc") < 2 and len(ev["steps"]) <= 12:
                samples.append({"mode": "conc", "kind": kind, "p": case["p"], "tasks": case["tasks"], "steps": ev["steps"], "results": ev["results"]})
            if ev["spec"] is not None:
                spec_hits.append((report_conc, case, ev, origin))
                if len(spec_hits) >= 3:
                    break
            elif ev["diff"] is not None and len(diff_hits) < 3:
                diff_hits.append((report_conc, case, ev, origin))

    # ---- verdicts: a disagreement with the model triggers the search for an input that contradicts the property
    # itself (the whole budget above has been evaluated against the spec oracle); only if there is none is the
    # broken correspondence reported on its own
    for fn, case, ev, origin in (spec_hits[:3] or diff_hits[:2]):
        found += 1
        fn(chk, case, ev, origin)

    # ---- float trip rule on the real expression ----------------------------------------------------
    pairs, bad = float_trip_check(chk.budget(1500, 9999))
    if isinstance(bad, dict):
        found += 1
        chk.violation(f"the breaker's float trip test differs from the exact rule at {bad}", dict(bad, kind="float-trip"),
                      signature=None, no_input=True)

    if proof is not None:
        chk.proof_broken(proof, found > 0)
    chk.coverage.update({
        "evaluations": evaluations,
        "distinct_nontrivial": len(distinct),
        "rule": "sequential call histories of 1..24 calls (waits clustered at 0/1 tick bursts, period-1/period/period+1, ban/open ttl -1/0/+1, long gaps; "
                "scripted ok/fail/other) round-robin over rate_limit / slice_rate_limit / circuit_breaker with parameters drawn from the grids, run through the public Cache facade "
                "(period/ttl spelled as int, float, timedelta, '90s', '1d1m30s', '1d0h1m30s', ' 1D1M30S ', bare digits - period_ttl_spellings counts them by the Python type handed over; "
                "30% of the cases with periods / ttls of 90 s .. 7 days, so that timedeltas have a non-zero `days` field and strings use the d/h/m units, with waits also aimed just past what is left of "
                "the duration when one unit of its d/h/m/s decomposition is dropped or kept alone; the model gets ticks computed by the harness, never through cashews.ttl; "
                "custom action or default error; purge task on or off (off for the long durations); 15% through the bare decorator; for the two limiters 20% of the cases pass period and / or ttl as a callable of "
                "the call's arguments in every combination - plain+plain, callable period, callable ttl, both (period_ttl_spellings `fixed: ...` rows) - and the callable checks the arguments it is given; "
                "40% of the breaker histories put the trip rule on its edge: total <= 14 calls with `fails` failures inside one period, errors_rate drawn from 1..99 at floor / ceiling / nearest integer / +-1 of the exact "
                "share 100*fails/total, min_calls = total so that exactly (total, fails) decides; the other breaker cases draw errors_rate from 1..99 half of the time); plus interleavings of 2-3 concurrent "
                "callers at backend-command granularity with clock steps in between (exhaustive for the listed small programs, random schedules otherwise). "
                "A case is non-trivial iff it reached at least one of the interesting states counted in interesting_states_cases; distinct = distinct (kind, params, calls) resp. (kind, params, executed step sequence)",
        "samples": samples,
        "corpus_cases": ncorpus,
        "case_histogram": kinds,
        "decision_histogram": decs,
        "parameter_points_visited": len(grid),
        "period_ttl_spellings": spellings,
        "interesting_states_cases": interesting,
        "exhaustive": bool(exhaustive_info) and all(e["complete"] for e in exhaustive_info),
        "exhaustive_subspaces": exhaustive_info,
        "float_trip_rule": {"boundary_pairs_checked": pairs, "max_total": chk.budget(1500, 9999), "disagreement": bad},
        "trusted_base": TRUSTED,
        "partial": "not exhibited by the models: the half-open branch of the breaker (random.randint; half_open_ttl=None throughout), Redis/diskcache backends, callable ttl/period, "
                   "key templates with arguments (one limiter key per case), non-dyadic instants, more than 3 concurrent callers, bodies that take virtual time in sequential histories; "
                   "errors_rate=100 is refused by the decorator's own assert and is replaced by 99 in the grid; noted, not judged: equal call instants admit without bound in the sliding limiter "
                   "(window half-open at now; theorem sliding_equal_instants_unbounded), and with limit=1 two calls exactly one period apart both run (the log key lapses at its deadline; theorem sliding_closed needs 2 <= limit)",
    })
    chk.assumptions.extend(TRUSTED)
    return chk.finish(proof)


def replay(chk: Check, path: str) -> int:
    c = json.loads(Path(path).read_text())
    if c.get("kind") == "float-trip":
        pairs, bad = float_trip_check(9999)
        print(f"float trip rule: {pairs} boundary pairs, disagreement: {bad}")
        return 1 if isinstance(bad, dict) else 0
    if c.get("mode", "seq") == "seq":
        ev = eval_seq(c)
        print(rl.case_line(c["kind"], c["p"]), c.get("style"), "handed over as", spelled(c))
        for (dt, oc), i, m in zip(c["calls"], ev["impl"], ev["model"]):
            print(f"call +{dt:<3d} {oc:5s} impl={i:16s} model={m}")
        print(f"property on the implementation's trace: {ev['spec']}")
        bad = ev["spec"] != "holds" or ev["diff"] is not None
    else:
        ev = eval_conc(c)
        print(rl.case_line(c["kind"], c["p"]), "tasks", c["tasks"])
        for s, m in zip(ev["steps"], ev["model_steps"]):
            print(f"{str(s):40s} model {m}")
        for i, (r, m) in enumerate(zip(ev["results"], ev["model_results"])):
            print(f"task {i}: executed={r[0]} {r[1]:10s} model {m}")
        print(f"property on this interleaving: {ev['spec'] or 'holds'}")
        bad = ev["spec"] is not None or ev["diff"] is not None
    if not bad:
        print("replay: no disagreement")
        return 0
    print(f"VIOLATION property={PROP} replay={path}")
    return 1
