"""C04 - inside a transaction, commands see the store plus their own earlier writes.

proof: lean/CashewsVerif/Props/C04.lean.  tie: harness/txcheck.py (shared with C04): programs run through
`Cache.transaction(mode)` on the real code with a raw outside observer, and on the model driver.
"""
from ..txcheck import replay_prop, run_prop


def run(chk):
    return run_prop(chk, "C04")


def replay(chk, path):
    return replay_prop(chk, "C04", path)
